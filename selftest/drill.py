#!/usr/bin/env python3
"""Mutation drill (development-time self-test of the checker; not a registered command).

Every mutant is a one-site source edit that still compiles; it is applied to a scratch copy of /repo under a
temporary directory (removed afterwards), the property check is run against the copy (VERIF_REPO), and the report
must contain a VIOLATION whose obligation key contains the expected substring.
Behaviour-preserving edits (kind 'neutral') must leave the check silent.

usage: selftest/drill.py [-k substring] [--list]
"""
import json, os, re, shutil, subprocess, sys, tempfile

ROOT = os.path.dirname(os.path.dirname(os.path.abspath(__file__)))
sys.path.insert(0, ROOT)
from selftest.mutants import MUTANTS   # noqa: E402


def scratch():
    d = tempfile.mkdtemp(prefix='vdrill_')
    for item in ('src', 'Cargo.toml', 'Cargo.lock'):
        s = os.path.join('/repo', item)
        if os.path.isdir(s):
            shutil.copytree(s, os.path.join(d, item))
        else:
            shutil.copy(s, os.path.join(d, item))
    return d


def run_one(m):
    d = scratch()
    try:
        for (f, old, new) in m['edits']:
            p = os.path.join(d, f)
            s = open(p).read()
            if s.count(old) != 1:
                return 'BROKEN-MUTANT', f'pattern occurs {s.count(old)} times in {f}: {old[:60]!r}'
            open(p, 'w').write(s.replace(old, new))
        env = dict(os.environ, VERIF_REPO=d, VERIF_SCRATCH='1')
        p = subprocess.run([os.path.join(ROOT, 'check'), m['prop'], '--tier', m.get('tier', 'quick')], env=env, stdout=subprocess.PIPE, stderr=subprocess.STDOUT, text=True)
        out = p.stdout
        if 'cargo check failed' in out:
            return 'BROKEN-MUTANT', 'does not compile:\n' + out[-1500:]
        fails = re.findall(r'FAIL (\S+)', out)
        if m.get('kind') == 'neutral':
            return ('OK', 'silent') if p.returncode == 0 else ('FALSE-ALARM', ' '.join(fails))
        exp = m.get('expect', '')
        hit = [k for k in fails if exp in k]
        if p.returncode == 1 and hit:
            return 'OK', hit[0]
        if p.returncode == 1:
            return 'WRONG-KEY', ' '.join(fails)
        return 'MISSED', out[-300:]
    finally:
        shutil.rmtree(d, ignore_errors=True)


def main():
    args = sys.argv[1:]
    sel = None
    if '-k' in args:
        sel = args[args.index('-k') + 1]
    bad = 0
    for m in MUTANTS:
        if sel and sel not in m['name'] and sel != m['prop']:
            continue
        if '--list' in args:
            print(m['prop'], m['name'])
            continue
        st, info = run_one(m)
        print(f'{st:14} {m["prop"]} {m["name"]}: {info}')
        if st != 'OK':
            bad += 1
    sys.exit(1 if bad else 0)


if __name__ == '__main__':
    main()
