"""Mutant table for the drill: (prop, name, edits[(file, old, new)], expect=substring of the obligation key)."""
MUTANTS = []


def M(prop, name, f, old, new, expect='', kind='mutant', tier='quick'):
    MUTANTS.append({'prop': prop, 'name': name, 'edits': [(f, old, new)], 'expect': expect, 'kind': kind, 'tier': tier})


PCF = 'src/geom3/point_cloud.rs'
SD = 'src/metrology/surface_deviation.rs'
# ---------------------------------------------------------------- C16
M('C16', 'merge-drop-colors', PCF, "            self.colors.as_mut().unwrap().extend(colors);\n", "            let _ = colors;\n", 'COMUT')
M('C16', 'merge-check-after-extend', PCF,
  """        if self.colors.is_some() != other.colors.is_some() {
            return Err("Cannot merge point clouds with inconsistent color data".into());
        }

        // Merge the points
        self.points.extend(other.points);
""", """        // Merge the points
        self.points.extend(other.points);
        if self.colors.is_some() != other.colors.is_some() {
            return Err("Cannot merge point clouds with inconsistent color data".into());
        }
""", 'TXN')
M('C16', 'try_new-colors-unchecked', PCF, "            if colors.len() != points.len() {", "            if colors.len() > points.len() {", 'GUARD:PointCloud::try_new:colors')
M('C16', 'push-after-values', SD, """        if self.min_index.is_none()
            || deviation.deviation < self.values[self.min_index.unwrap()].deviation
        {
            self.min_index = Some(self.values.len());
        }

        self.values.push(deviation);""", """        self.values.push(deviation);
        if self.min_index.is_none()
            || deviation.deviation < self.values[self.min_index.unwrap()].deviation
        {
            self.min_index = Some(self.values.len());
        }
""", 'push:min_index')
M('C16', 'push-max-cmp-flipped', SD, "|| deviation.deviation > self.values[self.max_index.unwrap()].deviation", "|| deviation.deviation < self.values[self.max_index.unwrap()].deviation", 'push:max_index')
M('C16', 'new-min-uses-max', SD, """            .min_by(|(_, a), (_, b)| a.deviation.partial_cmp(&b.deviation).unwrap())""", """            .min_by(|(_, a), (_, b)| b.deviation.partial_cmp(&a.deviation).unwrap())""", 'new:min_by')
M('C16', 'reversed-keeps-direction', 'src/metrology/dimension.rs', "            direction: -self.direction,", "            direction: self.direction,", 'Distance::reversed')
M('C16', 'deviation-normal-mismatch', 'src/metrology/line_profiles.rs', "        vector.dot(&normal),", "        vector.dot(&sp.normal),", 'point_curve2_deviation')
M('C16', 'measure-swapped', 'src/geom3/mesh/measurement.rs', "Distance3::new(closest.point, *point, Some(d))", "Distance3::new(*point, closest.point, Some(d))", 'measure_point_deviation')
M('C16', 'tolmap-index', 'src/metrology/tolerance_map.rs', "            Some(self.tol_zones[i])", "            Some(self.tol_zones[i.saturating_sub(1)])", 'DiscreteDomainTolMap::get')
M('C16', 'neutral-rename-locals', SD, """        if self.max_index.is_none()
            || deviation.deviation > self.values[self.max_index.unwrap()].deviation
        {
            self.max_index = Some(self.values.len());
        }
""", """        let n_now = self.values.len();
        let cur = self.max_index;
        if cur.is_none() || self.values[cur.unwrap()].deviation < deviation.deviation {
            self.max_index = Some(n_now);
        }
""", kind='neutral')

# ---------------------------------------------------------------- C17
DDF = 'src/common/discrete_domain.rs'
S1F = 'src/func1/series1.rs'
M('C17', 'linear-reshadow', DDF, "let (start, end) = (start.min(end), start.max(end));", "let start = start.min(end);\n        let end = start.max(end);", 'linear:ascending')
M('C17', 'linear-no-n-guard', DDF, """        let (start, end) = (start.min(end), start.max(end));
        if n < 2 {""", """        let (start, end) = (start.min(end), start.max(end));
        if n < 1 {""", 'linear')
M('C17', 'try_from-skip-order-check', DDF, "        if !are_in_ascending_order(&values) {", "        if false && !are_in_ascending_order(&values) {", 'try_from')
M('C17', 'push-no-order-check', DDF, "if !self.is_empty() && value < self.values[self.values.len() - 1] {", "if !self.is_empty() && value < self.values[0] {", 'push:order')
M('C17', 'push-before-check', DDF, """        if !self.is_empty() && value < self.values[self.values.len() - 1] {
            return Err(Box::from(
                "Cannot add a value to a discrete domain that is less than the last value",
            ));
        }
        self.values.push(value);""", """        self.values.push(value);
        if self.values.len() > 1 && value < self.values[self.values.len() - 2] {
            return Err(Box::from(
                "Cannot add a value to a discrete domain that is less than the last value",
            ));
        }""", 'push')
M('C17', 'values-mut-accessor', DDF, """    pub fn len(&self) -> usize {
        self.values.len()
    }""", """    pub fn len(&self) -> usize {
        self.values.len()
    }

    pub fn values_mut(&mut self) -> &mut Vec<f64> {
        &mut self.values
    }""", 'no-mut-handout')
M('C17', 'scaled_by-forget-rev-y', S1F, "            Self::new(new_xs, ys.into_iter().rev().collect())", "            Self::new(new_xs, ys)", 'scaled_by')
M('C17', 'remove_nan-unpaired', S1F, """            if x.is_nan() || y.is_nan() {
                continue;
            }
            xs.push(*x);
            ys.push(*y);""", """            ys.push(*y);
            if x.is_nan() || y.is_nan() {
                continue;
            }
            xs.push(*x);""", 'remove_nan:lockstep')
M('C17', 'between-wrong-ordinate', S1F, """            xs.push(x1);
            ys.push(self.interpolate(x1));""", """            xs.push(x1);
            ys.push(self.interpolate(x0));""", 'between:x1')
M('C17', 'dydx-skip-last', S1F, "        for j in 0..self.y.len() {\n            if j == 0 {", "        for j in 0..self.y.len() - 1 {\n            if j == 0 {", 'dydx:lockstep')
M('C17', 'neutral-try_from-reorder-checks', DDF, """        if !are_all_finite(&values) {
            return Err(Box::from(
                "Cannot create a discrete domain from a vector containing NaN or infinite values",
            ));
        }

        if !are_in_ascending_order(&values) {
            return Err(Box::from(
                "Cannot create a discrete domain from a vector that is not in ascending order",
            ));
        }
""", """        let sorted_ok = are_in_ascending_order(&values);
        if !sorted_ok {
            return Err(Box::from(
                "Cannot create a discrete domain from a vector that is not in ascending order",
            ));
        }
        if !are_all_finite(&values) {
            return Err(Box::from(
                "Cannot create a discrete domain from a vector containing NaN or infinite values",
            ));
        }
""", kind='neutral')

# ---------------------------------------------------------------- C12
EDF = 'src/geom3/mesh/edges.rs'
PAF = 'src/geom3/mesh/patches.rs'
M('C12', 'boundary-walk-no-consume', EDF, "            next = boundary_map.remove(&next_id);", "            next = boundary_map.get(&next_id).copied();", 'TERM:geom3::mesh::edges::boundary_loops')
M('C12', 'boundary-start-not-consumed', EDF, "        let mut next = boundary_map.remove(&start_id);", "        let mut next = boundary_map.get(&start_id).copied();", 'TERM:geom3::mesh::edges::boundary_loops')
M('C12', 'edge_key-asymmetric', EDF, "    let y = edge[0].max(edge[1]);", "    let y = edge[1];", 'edge_key')
M('C12', 'manifold-check-off-by-one', EDF, ".any(|(_, count)| *count > 2)", ".any(|(_, count)| *count > 3)", 'nonmanifold-predicate')
M('C12', 'boundary-entry-wrong-count', EDF, "        if unique_edge_count[i1].1 == 1 {\n            boundary_map.insert(face_chunk[1][0], face_chunk[1][1]);", "        if unique_edge_count[i0].1 == 1 {\n            boundary_map.insert(face_chunk[1][0], face_chunk[1][1]);", 'boundary-entry')
M('C12', 'unique-edges-unsorted', EDF, "    unique_count.sort();\n", "", 'unique_edges:sorted')
M('C12', 'patch-lookup-one-orientation', PAF, "            let e1 = (v1, v0);", "            let e1 = (v0, v1);", 'both-orientations')
M('C12', 'patch-queue-two-edges', PAF, """                    working_queue.push((mesh.faces()[*f1][1], mesh.faces()[*f1][2]));
                    working_queue.push((mesh.faces()[*f1][2], mesh.faces()[*f1][0]));""", """                    working_queue.push((mesh.faces()[*f1][1], mesh.faces()[*f1][2]));""", 'queue-three-edges')
M('C12', 'patch-push-without-remove', PAF, """                    patch.push(*f0);
                    remaining_faces.remove(f0);""", """                    patch.push(*f0);""", 'TERM:geom3::mesh::patches::compute_patch_indices')
M('C12', 'take-one-boundary-get', PAF, "        next = order.remove(&next)?;", "        next = *order.get(&next)?;", 'TERM:geom3::mesh::patches::take_one_boundary')
M('C12', 'clusters-queue-without-remove', 'src/raster3.rs', "                        if indices.remove(&neighbor) {", "                        if indices.contains(&neighbor) {", 'TERM:raster3::clusters_from_sparse')
M('C12', 'clusters-18-neighbourhood', 'src/raster3.rs', "                    for z in -1..=1 {", "                    for z in 0..=1 {", 'neighbourhood')
M('C12', 'cylinder-rewind', 'src/geom3/mesh.rs', "            faces.push([(i * 2) as u32, (k * 2) as u32, (k * 2 + 1) as u32]);", "            faces.push([(i * 2) as u32, (k * 2 + 1) as u32, (k * 2) as u32]);", 'create_cylinder')
M('C12', 'box-flip-face', 'src/geom3/mesh.rs', "        [2, 7, 6],", "        [2, 6, 7],", 'box_geom')
M('C12', 'box-wrong-param', 'src/geom3/mesh.rs', "        Point3::new(width, height, 0.0),", "        Point3::new(width, depth, 0.0),", 'box_geom:lattice')
M('C12', 'neutral-cylinder-angle-reassoc', 'src/geom3/mesh.rs', "let angle = i as f64 * 2.0 * std::f64::consts::PI / (steps as f64);", "let angle = 2.0 * std::f64::consts::PI * (i as f64) / (steps as f64);", kind='neutral')

# ---------------------------------------------------------------- C14
FIF = 'src/geom3/mesh/filtering.rs'
MUTANTS.append({'prop': 'C14', 'name': 'memo-caches-face-dependent', 'expect': 'MEMO', 'kind': 'mutant', 'edits': [
    (FIF, """                if check_planar {
                    Some(self.angle_tol.map(|_| rn))""", """                if check_planar && face_normal_hint.map(|f| f.angle(&rn) < 1.0).unwrap_or(true) {
                    Some(self.angle_tol.map(|_| rn))"""),
    (FIF, "    fn vertex_check(&mut self, vertex_index: u32) -> Option<Option<UnitVec3>> {", "    fn vertex_check(&mut self, vertex_index: u32, face_normal_hint: Option<UnitVec3>) -> Option<Option<UnitVec3>> {"),
    (FIF, "        match self.vertex_check(vertex_index) {", "        match self.vertex_check(vertex_index, face_normal) {")]})
M('C14', 'mutate-remove-polarity', FIF, "                self.indices.retain(|&i| !predicate(i, self.mesh));", "                self.indices.retain(|&i| predicate(i, self.mesh));", 'mutate:Remove')
M('C14', 'mutate-add-ignores-predicate', FIF, "                    if !self.indices.contains(&i) && predicate(i, self.mesh) {", "                    if !self.indices.contains(&i) || predicate(i, self.mesh) {", 'mutate:Add')
M('C14', 'passlist-keep-inverted', FIF, "                self.indices.retain(|i| check_set.contains(i));", "                self.indices.retain(|i| !check_set.contains(i));", 'mutate_pass_list:Keep')
M('C14', 'passlist-remove-grows', FIF, """                for i in pass_list {
                    self.indices.remove(&i);
                }""", """                for i in pass_list {
                    self.indices.insert(i);
                }""", 'mutate_pass_list')
M('C14', 'to_check-add-selection', FIF, "                .filter(|i| !self.indices.contains(i))", "                .filter(|i| self.indices.contains(i))", 'to_check')
M('C14', 'near-mesh-wrong-face-normal', FIF, """                    check.near_check(tri[0], face.normal())
                        || check.near_check(tri[1], face.normal())""", """                    check.near_check(tri[0], face.normal())
                        || check.near_check(tri[1], self.mesh.shape.triangle(0).normal())""", 'near_mesh:face-normal')
M('C14', 'create-flip-winding', FIF, "                [map_back[&t[0]], map_back[&t[1]], map_back[&t[2]]]", "                [map_back[&t[0]], map_back[&t[2]], map_back[&t[1]]]", 'create_from_indices:winding')
M('C14', 'unique-vertices-unsorted', FIF, "        keep_order.sort_unstable();\n", "", 'unique_vertices:sorted')
M('C14', 'unique-vertices-two', FIF, "            to_save.insert(t[2]);\n", "", 'unique_vertices:three')

# ---------------------------------------------------------------- C19
I3F = 'src/geom3/iso3.rs'
SVF = 'src/common/svd_basis.rs'
P3F = 'src/geom3/plane3.rs'
M('C19', 'basis-xz-left-handed', I3F, "        let e1 = e2.cross(&e0).try_normalize(1e-10).ok_or(\"Could not normalize e1\")?;\n        let e2 = e0.cross(&e1)", "        let e1 = e0.cross(&e2).try_normalize(1e-10).ok_or(\"Could not normalize e1\")?;\n        let e2 = e0.cross(&e1)", 'try_from_basis_xz:right-handed')
M('C19', 'basis-zy-swapped-cross', I3F, "        let e0 = e1.cross(&e2).try_normalize(1e-10).ok_or(\"Could not normalize e0\")?;\n        let e1 = e2.cross(&e0).try_normalize(1e-10).ok_or(\"Could not normalize e2\")?;", "        let e0 = e1.cross(&e2).try_normalize(1e-10).ok_or(\"Could not normalize e0\")?;\n        let e1 = e0.cross(&e2).try_normalize(1e-10).ok_or(\"Could not normalize e2\")?;", 'try_from_basis_zy:right-handed')
M('C19', 'basis-yx-unguarded-normalize', I3F, "        let e2 = e0.cross(&e1).try_normalize(1e-10).ok_or(\"Could not normalize e2\")?;\n        let e0 = e1.cross(&e2)", "        let e2 = e0.cross(&e1).normalize();\n        let e0 = e1.cross(&e2)", 'try_from_basis_yx:normalisation-guarded')
M('C19', 'from_bases-column-order', I3F, "    let rot_m = Matrix3::from_columns(&[e0, e1, e2]);\n    let r = UnitQuaternion::from_rotation", "    let rot_m = Matrix3::from_columns(&[e1, e0, e2]);\n    let r = UnitQuaternion::from_rotation", 'from_bases')
M('C19', 'iso3_from_basis-left-handed', SVF, "    let b2 = b0.cross(&b1).normalize();", "    let b2 = b1.cross(&b0).normalize();", 'iso3_from_basis')
M('C19', 'svd-weighted-scale-centre', SVF, "                .map(|(p, w)| (p - center) * *w)", "                .map(|(p, w)| p - center * *w)", 'AFFINE')
M('C19', 'svd-centre-not-stored', SVF, "            let center = mean_point(points);\n            let vectors = points.iter().map(|p| p - center).collect::<Vec<_>>();\n            svd_from_vectors(&vectors, Some(center))", "            let center = mean_point(points);\n            let vectors = points.iter().map(|p| p - center).collect::<Vec<_>>();\n            svd_from_vectors(&vectors, None)", 'from_points:centre')
M('C19', 'svd-columns-instead-of-rows', SVF, "            basis[i][j] = v_t[(i, j)];", "            basis[i][j] = v_t[(j, i)];", 'svd_from_vectors:rows')
M('C19', 'plane-inverted-keeps-d', P3F, "        Self::new(-self.normal, -self.d)", "        Self::new(-self.normal, self.d)", 'inverted_normal')
M('C19', 'plane-three-point-order', P3F, "UnitVec3::new_normalize((p2 - p1).cross(&(p3 - p1)))", "UnitVec3::new_normalize((p3 - p1).cross(&(p2 - p1)))", 'Plane3::from(p1,p2,p3)')
M('C19', 'plane-project-sign', P3F, "        point - self.normal.into_inner() * self.signed_distance_to_point(point)", "        point + self.normal.into_inner() * self.signed_distance_to_point(point)", 'project_point')
M('C19', 'neutral-basis-xy-helper-temp', I3F, "        let e2 = e0.cross(e1).try_normalize(1e-10).ok_or(\"Could not normalize e2\")?;\n        let e1 = e2.cross(&e0)", "        let raw = e0.cross(e1);\n        let e2 = raw.try_normalize(1e-10).ok_or(\"Could not normalize e2\")?;\n        let e1 = e2.cross(&e0)", kind='neutral')

# ---------------------------------------------------------------- C10
AEF = 'src/airfoil/edges.rs'
AHF = 'src/airfoil/helpers.rs'
M('C10', 'open-edge-ignore-front', AEF, "        let end = if front {\n            stations.first()\n        } else {\n            stations.last()\n        };", "        let _ = front;\n        let end = stations.last();", 'OpenEdge::find_edge:front')
M('C10', 'analyze-swapped-flags', 'src/airfoil.rs', ".find_edge(section, stations, true, core_tol)", ".find_edge(section, stations, false, core_tol)", 'front-flags')
M('C10', 'analyze-leading-pushed-last', 'src/airfoil.rs', "            camber_points.insert(0, leading.point);", "            camber_points.push(leading.point);", 'leading-first')
M('C10', 'oriented-last-wrong-end', AHF, "        if self.reversed {\n            self.circles.first()\n        } else {\n            self.circles.last()\n        }", "        if self.reversed {\n            self.circles.last()\n        } else {\n            self.circles.first()\n        }", 'OrientedCircles::last')
M('C10', 'oriented-push-wrong-end', AHF, "        if self.reversed {\n            self.circles.insert(0, c);\n        } else {\n            self.circles.push(c);\n        }", "        if !self.reversed {\n            self.circles.insert(0, c);\n        } else {\n            self.circles.push(c);\n        }", 'OrientedCircles::push')
M('C10', 'oriented-end-sp-indices', AHF, "                (self.circles[1].circle.center, self.circles[0].circle.center)", "                (self.circles[self.circles.len() - 2].circle.center, self.circles[0].circle.center)", 'OrientedCircles::end_sp')
M('C10', 'oriented-walk-direction', AHF, "                if i == self.circles.len() - 1 {\n                    break;\n                }\n                i += 1;", "                if i == 0 {\n                    break;\n                }\n                i -= 1;", 'OrientedCircles::get_end_curve')
M('C10', 'reverse-circles-order-only', AHF, "    stations.iter_mut().for_each(|i| i.reverse_in_place());\n", "", 'reverse_inscribed_circles')
M('C10', 'inscribed-reversed-keeps-contacts', 'src/airfoil/inscribed_circle.rs', "            self.contact_neg,\n            self.contact_pos,\n            self.circle,", "            self.contact_pos,\n            self.contact_neg,\n            self.circle,", 'InscribedCircle::reversed')
M('C10', 'full-curve-never-reversed', AHF, "        if self.reversed {\n            Ok(curve.reversed())\n        } else {\n            Ok(curve)\n        }", "        if !self.reversed {\n            Ok(curve.reversed())\n        } else {\n            Ok(curve)\n        }", 'get_full_curve')

# ---------------------------------------------------------------- C01
C2F = 'src/geom2/curve2.rs'
C3F = 'src/geom3/curve3.rs'
M('C01', 'at_length-ge-guard', C2F, "        if length < 0.0 || length > self.length() {\n            None\n        } else {\n            let search = self\n                .lengths\n                .binary_search_by(|a|", "        if length < 0.0 || length >= self.length() {\n            None\n        } else {\n            let search = self\n                .lengths\n                .binary_search_by(|a|", 'at_length:range')
M('C01', 'at_length3-clamp', C3F, "        if length < 0.0 || length > self.length() {\n            None\n        } else {\n            let search = self\n                .lengths\n                .binary_search_by(|l| l.partial_cmp(&length).unwrap());", "        let length = length.clamp(0.0, self.length());\n        if length < 0.0 || length > self.length() {\n            None\n        } else {\n            let search = self\n                .lengths\n                .binary_search_by(|l| l.partial_cmp(&length).unwrap());", 'at_length')
M('C01', 'at_length3-wrong-dir-edge', C3F, "                    let dir = self.dir_of_edge(index);\n                    let remaining = length - self.lengths[index];", "                    let dir = self.dir_of_edge(next_index.min(self.count() - 2));\n                    let remaining = length - self.lengths[index];", 'Curve3::at_length:direction')
M('C01', 'at_length-drop-offset', C2F, "                    let remaining_len = length - self.lengths[index];", "                    let remaining_len = length;", 'Curve2::at_length')
M('C01', 'at_vertex3-last-rule', C3F, "        let (i, f) = if index == self.line.vertices().len() - 1 {\n            (index - 1, 1.0)", "        let (i, f) = if index == self.line.vertices().len() - 1 {\n            (index - 1, 0.0)", 'Curve3::at_vertex:last-vertex-rule')
M('C01', 'length_along-wrong-next', C2F, "        l[self.index] + (l[self.index + 1] - l[self.index]) * self.fraction", "        l[self.index] + (l[self.index + 1] - l[0]) * self.fraction", 'CurveStation2::length_along')
M('C01', 'lengths3-not-cumulative', C3F, "            lengths.push(lengths[i] + d);", "            lengths.push(lengths[0] + d);", 'Curve3::from_points:lengths')
M('C01', 'lengths2-signed-increment', C2F, "            let d = dist(&v[i + 1], &v[i]);\n            lengths.push(d + lengths.last().unwrap_or(&0.0));", "            let d = v[i + 1].x - v[i].x;\n            lengths.push(d + lengths.last().unwrap_or(&0.0));", 'Curve2::from_points:lengths')
M('C01', 'closed-before-push', C2F, """        if let (true, Some(start), Some(end)) = (force_closed, pts.first(), pts.last()) {
            if dist(start, end) > tol {
                pts.push(*start);
            }
        }

        let is_closed = pts.len() >= 2 && dist(&pts[0], pts.last().unwrap()) <= tol;
""", """        let is_closed = pts.len() >= 2 && dist(&pts[0], pts.last().unwrap()) <= tol;
        if let (true, Some(start), Some(end)) = (force_closed, pts.first(), pts.last()) {
            if dist(start, end) > tol {
                pts.push(*start);
            }
        }
""", 'Curve2::from_points:is_closed')
M('C01', 'lengths-mut-accessor', C2F, "    pub fn tol(&self) -> f64 {\n        self.tol\n    }\n\n    fn dir_of_edge", "    pub fn tol(&self) -> f64 {\n        self.tol\n    }\n\n    pub fn lengths_mut(&mut self) -> &mut Vec<f64> {\n        &mut self.lengths\n    }\n\n    fn dir_of_edge", 'no-mut-handout')
M('C01', 'at_fraction3-no-scale', C3F, "        self.at_length(fraction * self.length())", "        self.at_length(fraction)", 'Curve3::at_fraction')
M('C01', 'dir_of_vertex-seam-wrong-edge', C2F, "            let d1 = self.dir_of_edge(v.len() - 2).into_inner();\n            // TODO: this will fail on a curve that doubles back, use angles?\n            Unit::new_normalize(d0 + d1)\n        } else if is_first {", "            let d1 = self.dir_of_edge(1).into_inner();\n            // TODO: this will fail on a curve that doubles back, use angles?\n            Unit::new_normalize(d0 + d1)\n        } else if is_first {", 'Curve2::dir_of_vertex')
M('C01', 'search-comparator-reversed', C2F, "                .binary_search_by(|a| a.partial_cmp(&length).unwrap());\n            match search {\n                Ok(index) => Some(self.at_vertex(index)),", "                .binary_search_by(|a| length.partial_cmp(a).unwrap());\n            match search {\n                Ok(index) => Some(self.at_vertex(index)),", 'Curve2::at_length:comparator')
M('C01', 'neutral-at_length-temps', C3F, "                    let index = next_index - 1;\n                    let dir = self.dir_of_edge(index);\n                    let remaining = length - self.lengths[index];\n                    let f = remaining / (self.lengths[index + 1] - self.lengths[index]);", "                    let index = next_index - 1;\n                    let l0 = self.lengths[index];\n                    let l1 = self.lengths[index + 1];\n                    let dir = self.dir_of_edge(index);\n                    let remaining = length - l0;\n                    let f = remaining / (l1 - l0);", kind='neutral')

# ---------------------------------------------------------------- C05
PTF = 'src/common/points.rs'
M('C05', 'by-count-3d-fraction-only', C3F, "        positions.push(f * curve.length());", "        positions.push(f);", 'Curve3::resample_by_count')
M('C05', 'by-count-2d-n-denominator', C2F, "        let f = i as f64 / (count - 1) as f64;\n        positions.push(f * curve.length());", "        let f = i as f64 / count as f64;\n        positions.push(f * curve.length());", 'Curve2::resample_by_count')
M('C05', 'max-spacing-3d-off-by-one', C3F, "    let n = (curve.length() / max_spacing).ceil() as usize + 1;", "    let n = (curve.length() / max_spacing).ceil() as usize;", 'Curve3::resample_by_max_spacing')
M('C05', 'max-spacing-2d-floor', C2F, "    let n = (curve.length() / max_spacing).ceil() as usize + 1;", "    let n = (curve.length() / max_spacing).floor() as usize + 1;", 'Curve2::resample_by_max_spacing')
M('C05', 'by-spacing-start-offset', C2F, "    let mut positions = Vec::new();\n    let mut length = 0.0;\n    while length < curve.length() {\n        positions.push(length);\n        length += spacing;\n    }\n\n    let padding", "    let mut positions = Vec::new();\n    let mut length = spacing;\n    while length < curve.length() {\n        positions.push(length);\n        length += spacing;\n    }\n\n    let padding", 'Curve2::resample_by_spacing')
M('C05', 'by-spacing-no-centre-3d', C3F, "    let padding = (curve.length() - positions.last().unwrap()) / 2.0;", "    let padding = (curve.length() - positions.last().unwrap()) / 4.0;", 'Curve3::resample_by_spacing:centred')
M('C05', 'positions-lose-closedness', C2F, "    Curve2::from_points(&points, curve.tol, curve.is_closed)\n}", "    Curve2::from_points(&points, curve.tol, false)\n}", 'Curve2::resample_at_positions:rebuild')
M('C05', 'simplify2-loses-closedness', C2F, "        Curve2::from_points(&new_points, self.tol, self.is_closed).unwrap()\n    }\n\n    pub fn resample", "        Curve2::from_points(&new_points, self.tol, false).unwrap()\n    }\n\n    pub fn resample", 'Curve2::simplify')
M('C05', 'rdp-endpoint-after-return', PTF, "        self.keep[i0] = true;\n        self.keep[i1] = true;\n        if i1 - i0 < 2 {\n            return;\n        }\n", "        self.keep[i0] = true;\n        if i1 - i0 < 2 {\n            return;\n        }\n        self.keep[i1] = true;\n", 'Rdp::simplify:endpoints-kept')
M('C05', 'rdp-recursion-unconditional', PTF, "        if max_dist > self.tol {\n            self.simplify(i0, max_i);", "        if max_dist > 0.0 {\n            self.simplify(i0, max_i);", 'Rdp::simplify:recursion')
M('C05', 'fill-gaps-skip-original', PTF, "            for x in evenly_spaced_points_between(result.last().unwrap(), p, n) {\n                result.push(x);\n            }\n        }\n        result.push(*p);", "            for x in evenly_spaced_points_between(result.last().unwrap(), p, n) {\n                result.push(x);\n            }\n        } else {\n            result.push(*p);\n        }", 'fill_gaps:originals-kept')
M('C05', 'fill-gaps-fixed-n', PTF, "            for x in evenly_spaced_points_between(result.last().unwrap(), p, n) {", "            for x in evenly_spaced_points_between(result.last().unwrap(), p, 1) {", 'fill_gaps:insertion')
M('C05', 'evenly-between-includes-end', PTF, "    let step = (end - start) / (num_points + 1) as f64;\n    for i in 1..num_points + 1 {", "    let step = (end - start) / (num_points + 1) as f64;\n    for i in 1..num_points + 2 {", 'evenly_spaced_points_between')
M('C05', 'resampled_x-off-by-one', S1F, "        let n = 1.0 + (self.x_max() - self.x_min()) / x_spacing;", "        let n = (self.x_max() - self.x_min()) / x_spacing;", 'Series1::resampled_x')

# ---------------------------------------------------------------- C09
POF = 'src/func1/polynomial.rs'
CIF = 'src/geom2/circle2.rs'
M('C09', 'lsq-skip-k-plus-1', POF, ".take(2 * K + 1).skip(K)", ".take(2 * K + 1).skip(K + 1)", 'INDEXCOV')
M('C09', 'lsq-take-too-few', POF, ".take(2 * K + 1).skip(K)", ".take(2 * K - 2).skip(K)", 'INDEXCOV')
M('C09', 'lsq-hankel-wrong-index', POF, "                matrix[(r, c)] = sums[r + c];", "                matrix[(r, c)] = sums[r + r];", 'hankel')
M('C09', 'lsq-tail-unweighted', POF, "                *sums_k += w * xs[i].powi(k as i32);", "                *sums_k += xs[i].powi(k as i32);", 'least_squares:term')
M('C09', 'circlefit-stale-residuals', CIF, "        compute_residuals_mut(self.points, &self.circle, &mut self.base_residuals);\n        compute_weights_mut(&self.base_residuals, &mut self.weights, self.mode);\n    }\n\n    fn params", "        compute_weights_mut(&self.base_residuals, &mut self.weights, self.mode);\n        compute_residuals_mut(self.points, &self.circle, &mut self.base_residuals);\n    }\n\n    fn params", 'set_params')
M('C09', 'circlefit-forget-circle', CIF, "        self.x = *x;\n        self.circle = Circle2::new(x[0], x[1], x[2]);\n", "        self.x = *x;\n", 'set_params')
M('C09', 'circlefit-jac-unweighted-col', CIF, "            jac[(i, 1)] = -n.y * self.weights[i];", "            jac[(i, 1)] = -n.y;", 'CircleFit::jacobian')
M('C09', 'fit-circle-returns-initial', CIF, "        Ok(result.circle)\n    } else {\n        let text = format!(\"Failed to fit circle", "        Ok(*initial)\n    } else {\n        let text = format!(\"Failed to fit circle", 'fit_circle')
M('C09', 'three-points-no-collinear-check', CIF, "        if det.abs() < 1.0e-6 {\n            Err(\"Points are collinear\".into())", "        if det.abs() < 0.0 {\n            Err(\"Points are collinear\".into())", 'from_3_points:collinear')
M('C09', 'ransac-unseeded', CIF, "        let mut rng = StdRng::seed_from_u64(24601);", "        let mut rng = StdRng::seed_from_u64(rand::random::<u64>());", 'ransac:seeded')
M('C09', 'ransac-accept-equal', CIF, "                if count > best_count {", "                if count >= best_count {", 'ransac:improve-only')

# ---------------------------------------------------------------- C04
M('C04', 'trim-back-wrong-end', C2F, "        self.between_lengths(0.0, self.length() - length)", "        self.between_lengths(length, self.length())", 'trim_back')
M('C04', 'split-open-gap', C2F, "            let b = self.between_lengths(length, self.length()).ok_or(format!(", "            let b = self.between_lengths(length + self.tol, self.length()).ok_or(format!(", 'split_open_at_length:pieces')
M('C04', 'split-closed-same-piece-twice', C2F, "            let b = self.between_lengths(length1, length0).ok_or(format!(", "            let b = self.between_lengths(length0, length1).ok_or(format!(", 'split_closed_at_lengths:pieces')
M('C04', 'between-allows-reversed-open', C2F, "        if (l1 - l0).abs() < self.tol || (!self.is_closed && wrap) {", "        if (l1 - l0).abs() < self.tol || (!self.is_closed && wrap && l0 < 0.0) {", 'between_lengths:ill-posed')
M('C04', 'between-no-tol-check', C2F, "        if (l1 - l0).abs() < self.tol || (!self.is_closed && wrap) {", "        if (!self.is_closed && wrap) {", 'between_lengths:ill-posed')
M('C04', 'between-last-index-closed', C2F, "        let last_index = if self.is_closed {\n            self.count() - 2", "        let last_index = if self.is_closed {\n            self.count() - 1", 'between_lengths:last_index')
M('C04', 'between-end-always-appended', C2F, "            if dist(&end.point, points.last().unwrap()) > self.tol {\n                points.push(end.point);\n            }", "            points.push(end.point);", 'between_lengths:end-point')
M('C04', 'between-wrap-not-cleared', C2F, "                        wrap = false;\n                        working = self.at_front();", "                        working = self.at_front();", 'between_lengths:walk')
M('C04', 'between-force-closed', C2F, "            if let Ok(c) = Curve2::from_points(&points, self.tol, false) {", "            if let Ok(c) = Curve2::from_points(&points, self.tol, self.is_closed) {", 'between_lengths:rebuild')
M('C04', 'control-swapped-call', C2F, "        if lower < control && control < upper {\n            self.between_lengths(lower, upper)", "        if lower < control && control < upper {\n            self.between_lengths(upper, lower)", 'between_lengths_by_control')
M('C04', 'control-open-wraps', C2F, "        } else if control < lower || control > upper && self.is_closed {", "        } else if control < lower || control > upper {", 'between_lengths_by_control')
M('C04', 'reversed-twice', C2F, "        let mut points = self.clone_points();\n        points.reverse();\n        Curve2::from_points(&points, self.tol, false).unwrap()", "        let mut points = self.clone_points();\n        points.reverse();\n        points.reverse();\n        Curve2::from_points(&points, self.tol, false).unwrap()", 'reversed')
M('C05', 'rdp-degenerate-chord-unguarded', PTF, "        let sp = if chord.norm() > 0.0 {\n            Some(SurfacePoint::new_normalize(self.points[i0], chord))\n        } else {\n            None\n        };", "        let sp = if chord.norm() >= 0.0 {\n            Some(SurfacePoint::new_normalize(self.points[i0], chord))\n        } else {\n            None\n        };", 'degenerate-chord')
M('C05', 'rdp-squared-deviation', PTF, "                Some(sp) => (sp.projection(&self.points[i]) - self.points[i]).norm(),", "                Some(sp) => (sp.projection(&self.points[i]) - self.points[i]).norm_squared(),", 'deviation-is-a-distance')
M('C05', 'positions-skip-missing', C2F, "        points.push(curve.at_length(*p).unwrap().point);", "        if let Some(st) = curve.at_length(*p) {\n            points.push(st.point);\n        }", 'every-position')

# ---------------------------------------------------------------- C03
SPF = 'src/common/surface_point.rs'
M('C03', 'sp-transformed-normal-untouched', SPF, "        Self::new(t * self.point, t * self.normal)", "        Self::new(t * self.point, self.normal)", 'SurfacePoint::transformed')
M('C03', 'cloud-transform-forgets-normals', PCF, """        if let Some(normals) = &mut self.normals {
            for n in normals {
                *n = transform * *n;
            }
        }
""", "", 'PointCloud::transform')
M('C03', 'cloud-transform-rotation-only', PCF, "            *p = transform * *p;", "            *p = transform.rotation * *p;", 'PointCloud::transform')
M('C03', 'curve2-transformed-opens', C2F, "        let points = transform_points(self.line.vertices(), transform);\n        Curve2::from_points(&points, self.tol, self.is_closed).unwrap()", "        let points = transform_points(self.line.vertices(), transform);\n        Curve2::from_points(&points, self.tol, false).unwrap()", 'Curve2::transformed_by')
M('C03', 'curve3-transformed-tol', C3F, "        Self::from_points(&points, self.tol).unwrap()\n    }\n\n    pub fn from_points", "        Self::from_points(&points, 1e-6).unwrap()\n    }\n\n    pub fn from_points", 'Curve3::transformed_by')
M('C03', 'plane-transform-point-only', P3F, "        let repr = SurfacePoint3::new(pos.into(), self.normal);\n\n        let new_repr = repr.transformed(iso);\n        Self::from(&new_repr)", "        let repr = SurfacePoint3::new(pos.into(), self.normal);\n\n        let new_repr = SurfacePoint3::new(iso * repr.point, repr.normal);\n        Self::from(&new_repr)", 'Plane3::transform_by')
M('C03', 'segment-transform-one-end', 'src/geom2/line2.rs', "            b: t.transform_point(&self.b),", "            b: self.b,", 'Segment2::transform_by')
M('C03', 'distance-to3d-direction-unrotated', 'src/metrology.rs', "        let direction = iso * self.direction.to_3d();", "        let direction = self.direction.to_3d();", 'Distance2::to_3d')
M('C03', 'sp-reversed-keeps-normal', SPF, "        Self::new(self.point, -self.normal)", "        Self::new(self.point, self.normal)", 'SurfacePoint::reversed')
M('C03', 'mul-surface-point-identity', 'src/geom3.rs', "    fn mul(self, rhs: &SurfacePoint3) -> Self::Output {\n        rhs.transformed(self)", "    fn mul(self, rhs: &SurfacePoint3) -> Self::Output {\n        let _ = self;\n        *rhs", 'Mul<SurfacePoint>')

# ---------------------------------------------------------------- C07
P2CF = 'src/geom2/align2/points_to_curve.rs'
P2MF = 'src/geom3/align3/points_to_mesh.rs'
M('C07', 'set-params-no-refresh-3d', P2MF, "        self.params.set(x);\n        self.move_points();", "        self.params.set(x);", 'PointsToMesh::set_params')
M('C07', 'set-params-refresh-first-2d', P2CF, "        self.params.set(x);\n        self.move_points();", "        self.move_points();\n        self.params.set(x);", 'PointsToCurve::set_params')
M('C07', 'move-points-stale-closest-3d', P2MF, "        self.moved.clear();\n        self.closest.clear();", "        self.moved.clear();", 'PointsToMesh::move_points')
M('C07', 'move-points-closest-of-unmoved', P2MF, "            self.closest.push(self.mesh.surf_closest_to(&m));", "            self.closest.push(self.mesh.surf_closest_to(p));", 'PointsToMesh::move_points:closest')
M('C07', 'centre-not-mean', P2CF, "        let params = RcParams2::from_initial(initial, &mp);", "        let params = RcParams2::from_initial(initial, &points[0]);", 'PointsToCurve::new')
M('C07', 'residual-mode-swapped', P2MF, "                DistMode::ToPoint => dist(p, &c.point),\n                DistMode::ToPlane => c.scalar_projection(p).abs(),", "                DistMode::ToPlane => dist(p, &c.point),\n                DistMode::ToPoint => c.scalar_projection(p).abs(),", 'PointsToMesh::residuals')
M('C07', 'jacobian-mode-mismatch', P2MF, "                DistMode::ToPoint => point_point_jacobian(p, &c.point, &self.params),\n                DistMode::ToPlane => point_plane_jacobian(p, c, &self.params),", "                DistMode::ToPoint => point_plane_jacobian(p, c, &self.params),\n                DistMode::ToPlane => point_plane_jacobian(p, c, &self.params),", 'PointsToMesh::jacobian')
M('C07', 'result-initial-transform', P2MF, "        Ok(Align3::new(result.current_transform(), residuals))", "        Ok(Align3::new(*initial, residuals))", 'points_to_mesh:result')
M('C07', 'result-ignores-failure-2d', P2CF, "    if report.termination.was_successful() {\n        let residuals", "    if report.termination.was_successful() || true {\n        let residuals", 'points_to_curve:result')
M('C07', 'residual-unpaired-2d', P2CF, "        for (i, (p, c)) in self.moved.iter().zip(self.closest.iter()).enumerate() {\n            res[i] = c.scalar_projection(p);", "        for (i, (p, c)) in self.moved.iter().zip(self.closest.iter().rev()).enumerate() {\n            res[i] = c.scalar_projection(p);", 'PointsToCurve::residuals')

# ---------------------------------------------------------------- C08
R2F = 'src/geom2/align2/rc_params2.rs'
A3F = 'src/geom3/align3.rs'
J3F = 'src/geom3/align3/jacobian.rs'
M('C08', 'rc3-set-no-compute', A3F, "    pub fn set(&mut self, x: &T3Storage) {\n        self.x = *x;\n        self.compute();", "    pub fn set(&mut self, x: &T3Storage) {\n        self.x = *x;", 'RcParams3:x-writer')
M('C08', 'rc2-stale-inverse', R2F, "        self.transform = as_iso_about_origin(&self.rc, &t);\n        self.inverse = self.transform.inverse();", "        self.inverse = self.transform.inverse();\n        self.transform = as_iso_about_origin(&self.rc, &t);", 'RcParams2::compute:inverse')
M('C08', 'rc3-current-rc-not-updated', A3F, "        self.inverse = self.transform.inverse();\n        self.current_rc = self.transform * self.rc;\n    }\n\n    pub fn transform", "        self.inverse = self.transform.inverse();\n    }\n\n    pub fn transform", 'RcParams3::compute:writes-all')
M('C08', 'rc2-conjugation-swapped', R2F, "    let back = Iso2::translation(-rc.x, -rc.y);\n\n    fwd * t * back", "    let back = Iso2::translation(-rc.x, -rc.y);\n\n    back * t * fwd", 'as_iso_about_origin')
M('C08', 'rc3-shift-order', A3F, "        self.transform = self.shift1 * p * self.shift0;", "        self.transform = self.shift0 * p * self.shift1;", 'RcParams3::compute:transform')
M('C08', 'jac2-lever-from-fixed-rc', 'src/geom2/align2/jacobian.rs', "    let from_rc = p - params.current_rc();", "    let from_rc = p - params.rc();", 'point_surface_jacobian')
M('C08', 'jac3-rows-swapped', J3F, "    result[3] = n.dot(&(params.rotations().rd.x * from_rc).coords);\n    result[4] = n.dot(&(params.rotations().rd.y * from_rc).coords);", "    result[3] = n.dot(&(params.rotations().rd.y * from_rc).coords);\n    result[4] = n.dot(&(params.rotations().rd.x * from_rc).coords);", 'point_plane_core:rows')
M('C08', 'jac3-rev-not-negated', J3F, "    point_plane_core(-s, c, from_rc, params)", "    point_plane_core(s, c, from_rc, params)", 'point_plane_jacobian_rev')
M('C08', 'jac3-plane-unsigned', J3F, "    let s = c.scalar_projection(p).signum();\n\n    // The point with relation to the current center of rotation\n    let from_rc = Point3::from(p - params.current_rc());", "    let s = 1.0;\n\n    // The point with relation to the current center of rotation\n    let from_rc = Point3::from(p - params.current_rc());", 'point_plane_jacobian')
M('C08', 'handler-set-no-compute', 'src/geom3/align3/multi_param.rs', "        self.raw_params.copy_from(x);\n        self.compute();", "        self.raw_params.copy_from(x);", 'ParamHandler::set_param')
M('C08', 'handler-wrong-slice', 'src/geom3/align3/multi_param.rs', "                let param = self.raw_params.fixed_rows::<6>(p_index * 6);", "                let param = self.raw_params.fixed_rows::<6>(i * 6);", 'ParamHandler::compute')

# ---------------------------------------------------------------- C15
KDF = 'src/common/kd_tree.rs'
PDF = 'src/common/poisson_disk.rs'
SAF = 'src/geom3/mesh/sampling.rs'
M('C15', 'kd-within-unsquared', KDF, ".within::<SquaredEuclidean>(&point.coords.into(), radius * radius);", ".within::<SquaredEuclidean>(&point.coords.into(), radius);", 'KdTree::within')
M('C15', 'kd-nearest-no-sqrt', KDF, "            .nearest_n::<SquaredEuclidean>(&point.coords.into(), count);\n        result\n            .iter()\n            .map(|r| (r.item, r.distance.sqrt()))", "            .nearest_n::<SquaredEuclidean>(&point.coords.into(), count);\n        result\n            .iter()\n            .map(|r| (r.item, r.distance))", 'KdTree::nearest:unpack')
M('C15', 'partial-within-no-remap', KDF, "        let result = self.tree.within(point, radius);\n        result\n            .iter()\n            .map(|(i, d)| (self.index_map[*i], *d))", "        let result = self.tree.within(point, radius);\n        result\n            .iter()\n            .map(|(i, d)| (*i, *d))", 'PartialKdTree::within')
M('C15', 'partial-nearest-one-no-remap', KDF, "        (self.index_map[i], d)", "        (i, d)", 'PartialKdTree::nearest_one')
M('C15', 'poisson-push-inner-index', PDF, "        results.push(i);", "        results.push(m);", 'sample_poisson_disk:keep')
M('C15', 'poisson-mask-ignored', PDF, "        if !mask[m] {\n            continue;\n        }\n", "", 'sample_poisson_disk:keep')
M('C15', 'poisson-wrong-centre', PDF, "        let within = tree.within(&working_points[m], radius);", "        let within = tree.within(&all_points[m], radius);", 'sample_poisson_disk:mask-neighbours')
M('C15', 'uniform-weights-not-affine', SAF, "            let b = r1.sqrt() * (1.0 - r2);", "            let b = r1 * (1.0 - r2);", 'weights-sum-to-one')
M('C15', 'poisson-mesh-radius', SAF, "        let to_take = sample_poisson_disk(&points, &indices, radius);", "        let to_take = sample_poisson_disk(&points, &indices, radius * 0.5);", 'sample_poisson')
M('C15', 'order-vote-threshold', 'src/geom2/hull.rs', "    if d_sum > 0 {\n        AngleDir::Ccw", "    if d_sum >= 0 {\n        AngleDir::Ccw", 'order-vote')

# ---------------------------------------------------------------- C11
M('C11', 'circle-box-wrong-radius', CIF, "        let aabb = circle_aabb2(&center, r);\n        Circle2 {\n            center,\n            ball: Ball::new(r),", "        let aabb = circle_aabb2(&center, r);\n        Circle2 {\n            center,\n            ball: Ball::new(r * 2.0),", 'aabb:from_point')
M('C11', 'partial-arc-stale-box', CIF, "        let aabb = arc_aabb2(self, angle0, angle);\n        Arc2 {\n            circle: *self,\n            angle0,\n            angle,\n            aabb,", "        let aabb = self.aabb;\n        Arc2 {\n            circle: *self,\n            angle0,\n            angle,\n            aabb,", 'aabb:to_partial_arc')
M('C11', 'arc-box-three-quadrants', 'src/geom2/aabb2.rs', "    for i in 0..4 {", "    for i in 0..3 {", 'arc_aabb2')
M('C11', 'intersections-nested-unguarded', CIF, "        if d < r_diff - TOL {\n            // One circle is inside the other\n            return result;\n        }\n", "", 'intersections_with')
M('C11', 'tangent-asin', CIF, "        let angle = f64::acos(self.ball.radius / d);", "        let angle = f64::asin(self.ball.radius / d);", 'tangent_points_to:centre-angle')
M('C11', 'tangent-inside-allowed', CIF, "        if d <= self.ball.radius {\n            return None;\n        }\n\n        // The half angle", "        if d < 0.0 {\n            return None;\n        }\n\n        // The half angle", 'tangent_points_to:inside')
M('C11', 'three-points-centre-sign', CIF, "            let cy = ((p0.x - p1.x) * cd - (p1.x - p2.x) * bc) / det;", "            let cy = ((p0.x - p1.x) * cd + (p1.x - p2.x) * bc) / det;", 'from_3_points:equidistant')
M('C11', 'arc-length-signed', CIF, "        self.circle.ball.radius * self.angle.abs()", "        self.circle.ball.radius * self.angle", 'Arc2::length')
M('C11', 'arc-point-at-angle-no-offset', CIF, "        self.circle.point_at_angle(self.angle0 + angle)", "        self.circle.point_at_angle(angle)", 'Arc2::point_at_angle')
M('C11', 'segment-accepts-degenerate', 'src/geom2/line2.rs', "dist(&a, &b) < 1e-12", "dist(&a, &b) < 0.0", 'Segment2::try_new')

# ---------------------------------------------------------------- C06
PLF = 'src/geom2/polyline2.rs'
L2F = 'src/geom2/line2.rs'
M('C06', 'intersections-unsorted', PLF, "    results.sort_by(|a, b| a.0.partial_cmp(&b.0).unwrap());\n    results.dedup_by(|a, b| (a.0 - b.0).abs() < 1e-8);\n\n    results", "    results.dedup_by(|a, b| (a.0 - b.0).abs() < 1e-8);\n\n    results", 'sort-dedup')
M('C06', 'intersections-no-retest', PLF, "        if let Some(t) = ray_intersect_with_edge(polyline, ray, *i as usize) {\n            results.push((t, *i as usize));\n        }", "        if let Some(t) = ray_intersect_with_edge(polyline, ray, *i as usize) {\n            results.push((t, *i as usize + 1));\n        }", 'retest')
M('C06', 'edge-param-half-open', PLF, "        if (0.0..=1.0).contains(&t1) {", "        if (0.0..1.0).contains(&t1) {", 'ray_intersect_with_edge')
M('C06', 'edge-returns-edge-param', PLF, "        if (0.0..=1.0).contains(&t1) {\n            Some(t0)", "        if (0.0..=1.0).contains(&t1) {\n            Some(t1)", 'ray_intersect_with_edge')
M('C06', 'edge-tests-ray-param', PLF, "        if (0.0..=1.0).contains(&t1) {", "        if (0.0..=1.0).contains(&t0) {", 'ray_intersect_with_edge')
M('C06', 'param-sign-slip', L2F, "    Some(((dy * bd.x - dx * bd.y) / det, (dy * ad.x - dx * ad.y) / det))", "    Some(((dy * bd.x - dx * bd.y) / det, (dx * ad.y - dy * ad.x) / det))", 'intersection_param:identity')
M('C06', 'param-parallel-unchecked', L2F, "    if det.abs() < 1e-12 {\n        return None;\n    }\n\n    let dx", "    if det.abs() < 0.0 {\n        return None;\n    }\n\n    let dx", 'intersection_param:parallel')
M('C06', 'spanning-needs-at-least-two', PLF, "    if results.len() == 2 {", "    if results.len() >= 2 {", 'spanning_ray')
M('C06', 'spanning-reversed', PLF, "            ray.point_at(results[0].0),\n            ray.point_at(results[1].0),", "            ray.point_at(results[1].0),\n            ray.point_at(results[0].0),", 'spanning_ray')
M('C06', 'cast-ray-positive-only', PLF, "    let mut tmin = SimdReal::splat(f64::MIN);", "    let mut tmin = SimdReal::splat(0.0);", 'cast_ray:admits-negative')
M('C06', 'visitor-collects-all', PLF, "                if mask.extract(i) {\n                    if let Some(d) = d_opt {\n                        self.collector.push(*d);\n                    }\n                }", "                if let Some(d) = d_opt {\n                    self.collector.push(*d);\n                }", 'RayVisitor::visit:collect', kind='mutant')

# ---------------------------------------------------------------- C18
ANF = 'src/common/angles.rs'
IVF = 'src/common/interval.rs'
M('C18', 'to2pi-wrong-period', ANF, "    let mut angle = radians % (2.0 * PI);\n    if angle < 0.0 {\n        angle += 2.0 * PI;", "    let mut angle = radians % (2.0 * PI);\n    if angle < 0.0 {\n        angle += PI;", 'angle_to_2pi')
M('C18', 'to2pi-mod-pi', ANF, "pub fn angle_to_2pi(radians: f64) -> f64 {\n    let mut angle = radians % (2.0 * PI);", "pub fn angle_to_2pi(radians: f64) -> f64 {\n    let mut angle = radians % PI;", 'angle_to_2pi:congruent')
M('C18', 'signed-pi-one-sided', ANF, "    if angle > PI {\n        angle -= 2.0 * PI;\n    } else if angle < -PI {\n        angle += 2.0 * PI;\n    }", "    if angle > PI {\n        angle -= 2.0 * PI;\n    }", 'angle_signed_pi:range')
M('C18', 'in-direction-cw-no-wrap', ANF, "            let t1 = if t1 > t0 { t1 - 2.0 * PI } else { t1 };\n            t0 - t1", "            t0 - t1", 'angle_in_direction:range')
M('C18', 'in-direction-ccw-wrong-cmp', ANF, "            let t1 = if t1 < t0 { t1 + 2.0 * PI } else { t1 };", "            let t1 = if t1 > t0 { t1 + 2.0 * PI } else { t1 };", 'angle_in_direction:range')
M('C18', 'directed-angle-sign-slip', 'src/geom2/angles2.rs', "    if a < 0.0 {\n        a + 2.0 * PI", "    if a > 0.0 {\n        a + 2.0 * PI", 'directed_angle:range')
M('C18', 'angle-interval-no-clamp', ANF, "                angle: angle.abs().min(2.0 * PI),", "                angle: angle.abs(),", 'AngleInterval::new:angle')
M('C18', 'angle-interval-neg-start', ANF, "            let start = angle_to_2pi(start + angle);", "            let start = angle_to_2pi(start);", 'AngleInterval::new:shape')
M('C18', 'interval-new-shadow', IVF, "        assert!(!max.is_nan());\n        Self {\n            min: min.min(max),\n            max: min.max(max),", "        assert!(!max.is_nan());\n        let min = min.min(max);\n        Self {\n            min,\n            max: min.max(max),", 'Interval::new:normalised-pair')
M('C18', 'interval-try-new-no-nan-check', IVF, "        if min.is_nan() || max.is_nan() {", "        if min.is_nan() {", 'Interval::try_new:nan')
M('C18', 'interval-contains-open', IVF, "        x >= self.min && x <= self.max", "        x >= self.min && x < self.max", 'Interval::contains')
M('C18', 'interval-overlaps-one-sided', IVF, "        self.contains(other.min) || other.contains(self.min)", "        self.contains(other.min) || self.contains(other.max)", 'Interval::overlaps')
M('C18', 'interval-intersection-swapped', IVF, "                self.min.max(other.min),\n                self.max.min(other.max),", "                self.min.min(other.min),\n                self.max.max(other.max),", 'Interval::intersection')
M('C18', 'compliment-sign', ANF, "    if radians >= 0.0 {\n        (-2.0 * PI) + radians", "    if radians >= 0.0 {\n        (2.0 * PI) - radians", 'signed_compliment_2pi')
# ---------------------------------------------------------------- C20
CFM = 'src/geom3/mesh/conformal.rs'
UVM = 'src/geom3/mesh/uv_mapping.rs'
MSH = 'src/geom3/mesh.rs'
M('C20', 'flatten-accepts-many-loops', CFM, "        if self.boundary_loops.len() != 1 {", "        if self.boundary_loops.is_empty() {", 'boundary_first_flatten')
M('C20', 'flatten-check-after-solve', CFM, """        if self.boundary_loops.len() != 1 {
            return Err("Mesh must have a single boundary loop".into());
        }
        let i_bound = self.boundary_loops[0].as_slice();
""", """        let face_angles0 = calc_face_angles(self)?;
        if self.boundary_loops.len() != 1 {
            return Err(format!("Mesh must have a single boundary loop {}", face_angles0.len()).into());
        }
        let i_bound = self.boundary_loops[0].as_slice();
""", 'solver-after-check')
M('C20', 'cos_a-wrong-opposite', CFM, "let cos_a = (b.powi(2) + c.powi(2) - a.powi(2)) / (2.0 * b * c);", "let cos_a = (a.powi(2) + c.powi(2) - b.powi(2)) / (2.0 * b * c);", 'law-of-cosines')
M('C20', 'cos_c-denominator', CFM, "let cos_c = (a.powi(2) + b.powi(2) - c.powi(2)) / (2.0 * a * b);", "let cos_c = (a.powi(2) + b.powi(2) - c.powi(2)) / (2.0 * a * c);", 'law-of-cosines')
M('C20', 'angles-array-order', CFM, "[cos_a.acos(), cos_b.acos(), cos_c.acos()]", "[cos_b.acos(), cos_a.acos(), cos_c.acos()]", 'law-of-cosines')
M('C20', 'defect-angle-to-wrong-vertex', CFM, "        thetas[face[1] as usize] -= angles[1];\n        thetas[face[2] as usize] -= angles[2];", "        thetas[face[1] as usize] -= angles[2];\n        thetas[face[2] as usize] -= angles[1];", 'calc_angle_defects')
M('C20', 'defect-boundary-init', CFM, "        thetas[i as usize] = PI;", "        thetas[i as usize] = 2.0 * PI;", 'calc_angle_defects')
M('C20', 'cotan-wrong-edge', CFM, "            values[edge as usize] += cotan[i];", "            values[edge as usize] += cotan[(i + 1) % 3];", 'cotan_laplacian_triplets')
M('C20', 'cotan-no-half', CFM, "        *value *= 0.5;", "        *value *= 1.0;", 'cotan_laplacian_triplets')
M('C20', 'cotan-diag-one-end', CFM, "        diagonals[edge[1] as usize] += value;", "        diagonals[edge[0] as usize] += value;", 'cotan_laplacian_triplets')
M('C20', 'cotan-asymmetric', CFM, "        triplets.push(Triplet::new(edge[1], edge[0], -value));", "        triplets.push(Triplet::new(edge[0], edge[1], -value));", 'cotan_laplacian_triplets')
M('C20', 'cotan-tan', CFM, "                1.0 / angles[1].tan(),", "                1.0 / angles[2].tan(),", 'cotan_laplacian_triplets')
M('C20', 'inner-includes-boundary', CFM, ".filter(|&i| !boundary_set.contains(&i))", ".filter(|&i| boundary_set.contains(&i))", 'inner_vertices')
M('C20', 'uv-point-bary-order', UVM, "            + tri.b.coords * barycentric[1]\n            + tri.c.coords * barycentric[2];", "            + tri.b.coords * barycentric[2]\n            + tri.c.coords * barycentric[1];", 'UvMapping::point')
M('C20', 'uv_to_3d-bary-order', MSH, "let coords = t.a.coords * bc[0] + t.b.coords * bc[1] + t.c.coords * bc[2];", "let coords = t.a.coords * bc[1] + t.b.coords * bc[0] + t.c.coords * bc[2];", 'Mesh::uv_to_3d')
M('C20', 'uv_with_tol-depth-untransformed', MSH, """            let point = if let Some(transform) = transform {
                transform * point
            } else {
                *point
            };

            if let Some((prj, id, loc)) = self.project_with_tol(&point, max_dist, max_angle, None) {
                let triangle = self.shape.triangle(id);""", """            let point0 = *point;
            let point = if let Some(transform) = transform {
                transform * point
            } else {
                *point
            };

            if let Some((prj, id, loc)) = self.project_with_tol(&point, max_dist, max_angle, None) {
                let point = point0;
                let triangle = self.shape.triangle(id);""", 'Mesh::uv_with_tol')
M('C20', 'uv-new-swallow-error', UVM, "        let tri_map = TriMesh::new(vertices, faces)?;", "        let tri_map = TriMesh::new(vertices, faces).unwrap();", 'UvMapping::new')
M('C20', 'neutral-rename', CFM, "        let i_inner = inner_vertices(self, i_bound)?;", "        let i_inner = inner_vertices(self, i_bound)?; // interior", '', kind='neutral')
M('C20', 'neutral-cos-order', CFM, "let cos_b = (a.powi(2) + c.powi(2) - b.powi(2)) / (2.0 * a * c);", "let cos_b = (c.powi(2) + a.powi(2) - b.powi(2)) / (2.0 * c * a);", '', kind='neutral')
M('C20', 'neutral-bary-term-order', UVM, "        let p = tri.a.coords * barycentric[0]\n            + tri.b.coords * barycentric[1]\n            + tri.c.coords * barycentric[2];", "        let p = tri.c.coords * barycentric[2]\n            + tri.a.coords * barycentric[0]\n            + tri.b.coords * barycentric[1];", '', kind='neutral')
M('C20', 'uv_to_3d-wrong-triangle', MSH, "        let t = self.shape.triangle(i as u32);\n        let coords = t.a.coords * bc[0]", "        let t = self.shape.triangle(bc.len() as u32 - 3 + i as u32 / 2);\n        let coords = t.a.coords * bc[0]", 'Mesh::uv_to_3d')
M('C13', 'curve3-dedup-squared', 'src/geom3/curve3.rs', "        points.dedup_by(|a, b| dist(a, b) <= tol);", "        points.dedup_by(|a, b| (*a - *b).norm_squared() <= tol);", 'Curve3::from_points:dedup-predicate')
M('C19', 'neutral-xy-gram-schmidt', I3F, """        let e0 = e0.try_normalize(1e-10).ok_or("Could not normalize e0")?;
        let e2 = e0.cross(e1).try_normalize(1e-10).ok_or("Could not normalize e2")?;
        let e1 = e2.cross(&e0).try_normalize(1e-10).ok_or("Could not normalize e1")?;

        from_bases(e0, e1, e2, origin)""", """        let e0 = e0.try_normalize(1e-10).ok_or("Could not normalize e0")?;
        let e1 = (e1 - e0 * e0.dot(e1)).try_normalize(1e-10).ok_or("Could not normalize e1")?;
        let e2 = e0.cross(&e1).try_normalize(1e-10).ok_or("Could not normalize e2")?;

        from_bases(e0, e1, e2, origin)""", '', kind='neutral')
M('C19', 'xy-gram-schmidt-unnormalised-primary', I3F, """        let e0 = e0.try_normalize(1e-10).ok_or("Could not normalize e0")?;
        let e2 = e0.cross(e1).try_normalize(1e-10).ok_or("Could not normalize e2")?;
        let e1 = e2.cross(&e0).try_normalize(1e-10).ok_or("Could not normalize e1")?;

        from_bases(e0, e1, e2, origin)""", """        let e1 = (e1 - e0 * e0.dot(e1)).try_normalize(1e-10).ok_or("Could not normalize e1")?;
        let e0 = e0.try_normalize(1e-10).ok_or("Could not normalize e0")?;
        let e2 = e0.cross(&e1).try_normalize(1e-10).ok_or("Could not normalize e2")?;

        from_bases(e0, e1, e2, origin)""", 'try_from_basis_xy:right-handed')
SVF = 'src/common/svd_basis.rs'
M('C19', 'rank-position', SVF, """        let mut rank = 0;
        for s in self.sv.iter() {
            if *s > tol {
                rank += 1;
            }
        }
        rank""", "        self.sv.iter().position(|s| *s < tol).unwrap_or(D)", 'SvdBasis::rank')
M('C19', 'rank-ge', SVF, "            if *s > tol {", "            if *s >= tol {", 'SvdBasis::rank')
M('C19', 'rank-skip-first', SVF, "        for s in self.sv.iter() {\n            if *s > tol {", "        for s in self.sv.iter().skip(1) {\n            if *s > tol {", 'SvdBasis::rank')
M('C19', 'neutral-rank-filter-count', SVF, """        let mut rank = 0;
        for s in self.sv.iter() {
            if *s > tol {
                rank += 1;
            }
        }
        rank""", "        self.sv.iter().filter(|s| **s > tol).count()", '', kind='neutral')
M('C19', 'from_bases-iterative-extraction', I3F, "    let r = UnitQuaternion::from_rotation_matrix(&Rotation3::from_matrix_unchecked(rot_m));\n    let t = if let Some(o) = origin {", "    let r = UnitQuaternion::from_matrix(&rot_m);\n    let _ = Rotation3::<f64>::identity();\n    let t = if let Some(o) = origin {", 'from_bases')
M('C19', 'iso2-iterative-extraction', SVF, "    let r = UnitComplex::from_rotation_matrix(&Rotation2::from_matrix_unchecked(rot_m));", "    let r = UnitComplex::from_matrix(&rot_m);", 'iso2_from_basis:exact-rotation')
# ---------------------------------------------------------------- thorough tier: type-level witnesses
M('C17', 'witness-derefmut', 'src/common/discrete_domain.rs', "impl Deref for DiscreteDomain {", "impl std::ops::DerefMut for DiscreteDomain {\n    fn deref_mut(&mut self) -> &mut [f64] {\n        &mut self.values\n    }\n}\n\nimpl Deref for DiscreteDomain {", 'WITNESS:C17DomainNoIndexMut', tier='thorough')
M('C01', 'witness-lengths-pub', 'src/geom2/curve2.rs', "    lengths: Vec<f64>,", "    pub lengths: Vec<f64>,", 'WITNESS:C01LengthsPrivate', tier='thorough')
ROTF = 'src/geom3/align3/rotations.rs'
M('C08', 'to_wpr-neg-lock-unreachable', ROTF, "    } else if sin_y < EPSILON - 1.0 {", "    } else if sin_y < -1.0 - EPSILON {", 'to_wpr:generic-branch-away-from-lock')
M('C08', 'to_wpr-neg-lock-sign', ROTF, "        let rx = -(m[(1, 0)].atan2(m[(1, 1)]));", "        let rx = m[(1, 0)].atan2(m[(1, 1)]);", 'to_wpr:branches')
M('C08', 'to_wpr-rz-entries', ROTF, "        let rz = (-m[(0, 1)]).atan2(m[(0, 0)]);", "        let rz = (-m[(1, 0)]).atan2(m[(0, 0)]);", 'to_wpr:branches')
M('C08', 'neutral-to_wpr-threshold-form', ROTF, "    } else if sin_y < EPSILON - 1.0 {", "    } else if sin_y < -(1.0 - EPSILON) {", '', kind='neutral')
M('C06', 'dedup-relative-tolerance', 'src/geom2/polyline2.rs', "    results.dedup_by(|a, b| (a.0 - b.0).abs() < 1e-8);", "    results.dedup_by(|a, b| (a.0 - b.0).abs() < 1e-8 * a.0.abs().max(b.0.abs()));", 'dedup-predicate')
MEAS = 'src/geom3/mesh/measurement.rs'
M('C03', 'deviation-sign-from-raw-position', MEAS, "                } else if closest.normal.dot(&v) > 0.0 {", "                } else if closest.normal.dot(&point.coords) > 0.0 {", 'POSDOT')
M('C03', 'plane-distance-drops-offset', 'src/geom3/plane3.rs', "        self.normal.dot(&point.coords) - self.d", "        self.normal.dot(&point.coords) - self.d.min(0.0)", 'POSDOT')
M('C03', 'neutral-plane-distance-temp', 'src/geom3/plane3.rs', "        self.normal.dot(&point.coords) - self.d", "        let proj = self.normal.dot(&point.coords);\n        proj - self.d", '', kind='neutral')
M('C07', 'to_wpr-neg-lock-sign', ROTF, "        let rx = -(m[(1, 0)].atan2(m[(1, 1)]));", "        let rx = m[(1, 0)].atan2(m[(1, 1)]);", 'to_wpr:branches')
M('C07', 'point_point_jacobian-d-for-rd', 'src/geom3/align3/jacobian.rs', "        result.a = n.dot(&(params.rotations().rd.y * from_rc).coords);", "        result.a = n.dot(&(params.rotations().d.y * from_rc).coords);", 'point_point_jacobian:rows')
IVF = 'src/common/interval.rs'
_IV_OLD = """        if self.overlaps(other) {
            Some(Interval::new(
                self.min.max(other.min),
                self.max.min(other.max),
            ))
        } else {
            None
        }"""
M('C18', 'intersection-strict-bounds', IVF, _IV_OLD, """        let min = self.min.max(other.min);
        let max = self.max.min(other.max);
        if min < max {
            Some(Interval::new_unchecked(min, max))
        } else {
            None
        }""", 'Interval::intersection')
M('C18', 'neutral-intersection-closed-bounds', IVF, _IV_OLD, """        let min = self.min.max(other.min);
        let max = self.max.min(other.max);
        if min <= max {
            Some(Interval::new_unchecked(min, max))
        } else {
            None
        }""", '', kind='neutral')
HULLF = 'src/geom2/hull.rs'
M('C15', 'hull-diameter-early-break', HULLF, """            if d > max_dist {
                max_dist = d;
                max_pair = (i, j);
            }
        }""", """            if d > max_dist {
                max_dist = d;
                max_pair = (i, j);
            } else if d < 0.5 * max_dist {
                break;
            }
        }""", 'farthest_pair_indices:exhaustive')
M('C15', 'hull-diameter-inner-range', HULLF, "        for j in i + 1..hull.points().len() {", "        for j in i + 2..hull.points().len() {", 'farthest_pair_indices:running-maximum')
M('C15', 'hull-diameter-pair-not-updated', HULLF, "                max_pair = (i, j);", "                max_pair = (j, j);", 'farthest_pair_indices:running-maximum')
M('C15', 'neutral-hull-diameter-temps', HULLF, "            let d = dist(&hull.points()[i], &hull.points()[j]);", "            let pi = &hull.points()[i];\n            let pj = &hull.points()[j];\n            let d = dist(pi, pj);", '', kind='neutral')
M('C11', 'angle-interval-wrap-extent', 'src/common/angles.rs', "                angle: angle.min(2.0 * PI),", "                angle: angle_to_2pi(angle),", 'AngleInterval::new:shape')
EDF = 'src/geom3/mesh/edges.rs'
M('C20', 'invert-absolute-threshold', CFM, "    if det == 0.0 {", "    if det.abs() < 1.0e-6 {", 'invert_2x2:singular')
M('C20', 'invert-adjugate-sign', CFM, "    result[(0, 1)] = -m[(0, 1)] * inv_det;", "    result[(0, 1)] = m[(0, 1)] * inv_det;", 'invert_2x2:adjugate')
M('C20', 'invert-adjugate-transposed', CFM, "    result[(0, 1)] = -m[(0, 1)] * inv_det;\n    result[(1, 0)] = -m[(1, 0)] * inv_det;", "    result[(0, 1)] = -m[(1, 0)] * inv_det;\n    result[(1, 0)] = -m[(0, 1)] * inv_det;", 'invert_2x2:adjugate')
M('C20', 'neutral-invert-divide', CFM, "    result[(0, 0)] = m[(1, 1)] * inv_det;", "    result[(0, 0)] = m[(1, 1)] / det;", '', kind='neutral')
_EE_OLD = """        if unique_edge_count[i1].1 == 1 {
            boundary_map.insert(face_chunk[1][0], face_chunk[1][1]);
        }
        if unique_edge_count[i2].1 == 1 {"""
_EE_NEW = """        if unique_edge_count[i1].1 == 1 {
            boundary_map.insert(face_chunk[1][0], face_chunk[1][1]);
        } else if unique_edge_count[i2].1 == 1 {"""
M('C20', 'ear-triangle-else-if', EDF, _EE_OLD, _EE_NEW, 'identify_edges:boundary-entry')
M('C12', 'ear-triangle-else-if', EDF, _EE_OLD, _EE_NEW, 'identify_edges:boundary-entry')
M('C20', 'uv-lookup-not-solid', UVM, "            .project_local_point_and_get_location(point, true);", "            .project_local_point_and_get_location(point, false);", 'UvMapping::triangle:solid')
M('C20', 'interior-bary-swapped-weights', UVM, "    Some([1.0 - w1 - w2, w1, w2])", "    Some([1.0 - w1 - w2, w2, w1])", 'interior_barycentric')
M('C20', 'interior-bary-wrong-numerator', UVM, "    let w2 = (v0.x * v2.y - v2.x * v0.y) / det;", "    let w2 = (v0.x * v2.y - v2.y * v0.x) / det;", 'interior_barycentric')
M('C20', 'interior-bary-other-triangle', UVM, "                let tri = self.tri_map.triangle(t_id);", "                let tri = self.tri_map.triangle(0);", 'UvMapping::triangle')
M('C20', 'neutral-interior-bary-w0-order', UVM, "    Some([1.0 - w1 - w2, w1, w2])", "    let w0 = 1.0 - (w1 + w2);\n    Some([w0, w1, w2])", '', kind='neutral')
# ---------------------------------------------------------------- renamed parameters / locals (behaviour preserving)
import re as _re
def _rename_in_fn(path, start_marker, end_marker, renames):
    src = open('/repo/' + path).read()
    i = src.index(start_marker)
    j = src.index(end_marker, i + 10)
    body = src[i:j]
    new = body
    for a, b_ in renames:
        new = _re.sub(r'\b%s\b' % a, b_, new)
    return body, new
try:
    _o, _n = _rename_in_fn('src/geom2/curve2.rs', '    pub fn between_lengths(&self', '\n    pub fn ', [('l0', 'from_len'), ('l1', 'to_len'), ('working', 'station'), ('wrap', 'goes_around'), ('last_index', 'final_vertex')])
    M('C04', 'neutral-rename-params-and-locals', 'src/geom2/curve2.rs', _o, _n, '', kind='neutral')
    _o, _n = _rename_in_fn('src/func1/polynomial.rs', '    pub fn least_squares(', '\n    }\n}', [('sums', 'moments'), ('rhs', 'b_vec'), ('matrix', 'hankel'), ('xs', 'abscissae')])
    M('C09', 'neutral-rename-least-squares', 'src/func1/polynomial.rs', _o, _n, '', kind='neutral')
    _o, _n = _rename_in_fn('src/common/indices.rs', 'pub fn chained_indices(', '\n}\n', [('pairs', 'remaining'), ('working', 'chain'), ('forward', 'at_tail')])
    M('C13', 'neutral-rename-chained-indices', 'src/common/indices.rs', _o, _n, '', kind='neutral')
    _o, _n = _rename_in_fn('src/geom3/mesh/conformal.rs', 'fn cotan_laplacian_triplets(', '\n}\n', [('values', 'edge_weights'), ('diagonals', 'vertex_sums'), ('cotans', 'cot')])
    M('C20', 'neutral-rename-cotan', 'src/geom3/mesh/conformal.rs', _o, _n, '', kind='neutral')
except Exception as _ex:      # the anchor text moved: the drill reports BROKEN-MUTANT for the entries above instead
    pass
FILF = 'src/geom3/mesh/filtering.rs'
M('C14', 'near-any-vertex-index-twice', FILF, "                        || check.near_check(tri[1], face.normal())\n                        || check.near_check(tri[2], face.normal())", "                        || check.near_check(tri[1], face.normal())\n                        || check.near_check(tri[1], face.normal())", 'near_mesh:mode')
M('C14', 'near-all-mode-uses-or', FILF, "                        && check.near_check(tri[1], face.normal())\n                        && check.near_check(tri[2], face.normal())", "                        && check.near_check(tri[1], face.normal())\n                        || check.near_check(tri[2], face.normal())", 'near_mesh:mode')
M('C14', 'neutral-near-hoist-normal', FILF, """                let face = self.mesh.shape.triangle(i as u32);

                if all_points {
                    check.near_check(tri[0], face.normal())
                        && check.near_check(tri[1], face.normal())
                        && check.near_check(tri[2], face.normal())
                } else {
                    check.near_check(tri[0], face.normal())
                        || check.near_check(tri[1], face.normal())
                        || check.near_check(tri[2], face.normal())
                }""", """                let normal = self.mesh.shape.triangle(i as u32).normal();

                if all_points {
                    check.near_check(tri[0], normal)
                        && check.near_check(tri[1], normal)
                        && check.near_check(tri[2], normal)
                } else {
                    check.near_check(tri[0], normal)
                        || check.near_check(tri[1], normal)
                        || check.near_check(tri[2], normal)
                }""", '', kind='neutral')
S1F = 'src/func1/series1.rs'
C2F = 'src/geom2/circle2.rs'
M('C09', 'best-fit-line-threshold', S1F, "        let m = (n * sum_xy - sum_x * sum_y) / (n * sum_xx - sum_x * sum_x);", "        let det = n * sum_xx - sum_x * sum_x;\n        if det.abs() < 1.0e-6 {\n            return Line1::new_mxb(0.0, sum_y / n);\n        }\n        let m = (n * sum_xy - sum_x * sum_y) / det;", 'best_fit_line')
M('C09', 'best-fit-line-intercept', S1F, "        let b = (sum_y - m * sum_x) / n;", "        let b = (sum_y - m * sum_xx) / n;", 'best_fit_line')
M('C09', 'neutral-best-fit-line-det', S1F, "        let m = (n * sum_xy - sum_x * sum_y) / (n * sum_xx - sum_x * sum_x);", "        let det = n * sum_xx - sum_x * sum_x;\n        let m = (n * sum_xy - sum_x * sum_y) / det;", '', kind='neutral')
M('C09', 'ransac-count-early-exit', C2F, "                for p in points {\n                    if c.distance_to(p).abs() < tol {", "                for (k, p) in points.iter().enumerate() {\n                    if count + (points.len() - k - 1) <= best_count {\n                        break;\n                    }\n                    if c.distance_to(p).abs() < tol {", 'ransac:exhaustive')
CV2F = 'src/geom2/curve2.rs'
M('C11', 'curve-circle-quick-reject', CV2F, "        for i in 0..self.count() - 1 {\n            if let Ok(seg) = Segment2::try_new(self.vtx(i), self.vtx(i + 1)) {\n                for p in other.intersection(&seg) {", "        for i in 0..self.count() - 1 {\n            let d0 = other.distance_to(&self.vtx(i));\n            let d1 = other.distance_to(&self.vtx(i + 1));\n            if d0 * d1 > 0.0 {\n                continue;\n            }\n            if let Ok(seg) = Segment2::try_new(self.vtx(i), self.vtx(i + 1)) {\n                for p in other.intersection(&seg) {", 'every-edge')
M('C11', 'curve-circle-first-hit-only', CV2F, "                for p in other.intersection(&seg) {\n                    points.push(p);\n                }", "                for p in other.intersection(&seg) {\n                    points.push(p);\n                    break;\n                }", 'every-edge')
M('C12', 'cluster-skip-tests-x-twice', 'src/raster3.rs', "                        if x == 0 && y == 0 && z == 0 {", "                        if x == 0 && y == 0 && x == 0 {", 'skip-origin-only')
SAMF = 'src/geom3/mesh/sampling.rs'
M('C15', 'dense-lattice-wrong-anchor', SAMF, "                (ub, vb, face.b)", "                (ub, vb, face.a)", 'sample_dense:lattice')
M('C15', 'dense-lattice-mixed-edges', SAMF, "                (uc, vc, face.c)", "                (uc, vb, face.c)", 'sample_dense:lattice')
M('C10', 'bisection-bracket-as-fraction', 'src/airfoil/helpers.rs', "    while (positive.fraction - negative.fraction) * ray.dir().norm() > tol {", "    while positive.fraction - negative.fraction > tol {", 'bracket-is-a-length')
M('C10', 'converge-tangent-signed-distance', 'src/airfoil/edges.rs', "                measured.push(((x - x0).abs(), camber_dir, max_point));", "                measured.push((x - x0, camber_dir, max_point));", 'ConvergeTangentEdge::find_edge:nearest')
M('C20', 'extend-xs-early-return', CFM, "    let mut uv = Mat::zeros(n_vert, 2);\n\n    // Copy the boundary vertex x values", "    let mut uv = Mat::zeros(n_vert, 2);\n\n    if i_inner.is_empty() {\n        return uv;\n    }\n\n    // Copy the boundary vertex x values", 'calc_extend_uv_xs:every-vertex')
M('C20', 'extend-xs-wrong-column', CFM, "    for (&i, &v) in i_inner.iter().zip(uv_inner.col_as_slice(0)) {\n        uv[(i as usize, 0)] = v;", "    for (&i, &v) in i_inner.iter().zip(uv_inner.col_as_slice(0)) {\n        uv[(i as usize, 1)] = v;", 'calc_extend_uv_xs:every-vertex')
M('C18', 'directed-angle-wraps-zero', 'src/geom2/angles2.rs', "    if a < 0.0 {\n        a + 2.0 * PI", "    if a <= 0.0 {\n        a + 2.0 * PI", 'directed_angle:zero-stays-zero')
M('C09', 'gaussian-weights-nan-polarity', C2F, "                if d > sigma {\n                    weights[i] = 0.0;\n                } else {\n                    weights[i] = 1.0;\n                }", "                weights[i] = if d <= sigma { 1.0 } else { 0.0 };", 'compute_weights_mut:outlier-test')
M('C09', 'neutral-gaussian-weights-expr', C2F, "                if d > sigma {\n                    weights[i] = 0.0;\n                } else {\n                    weights[i] = 1.0;\n                }", "                weights[i] = if d > sigma { 0.0 } else { 1.0 };", '', kind='neutral')
M('C14', 'facing-dot-vs-cos', FILF, "                nv.angle(normal) < angle", "                nv.dot(normal) > angle.cos()", 'facing:criterion')
M('C14', 'neutral-facing-is-some-and', FILF, """            let n = m.shape.triangle(i as u32).normal();
            if let Some(nv) = n {
                nv.angle(normal) < angle
            } else {
                false
            }""", """            m.shape
                .triangle(i as u32)
                .normal()
                .is_some_and(|nv| nv.angle(normal) < angle)""", '', kind='neutral')
M('C20', 'boundary-loops-drop-triangles', EDF, "        working.reverse();\n        all_loops.push(working);", "        if working.len() > 3 {\n            working.reverse();\n            all_loops.push(working);\n        }", 'boundary_loops:every-walk-recorded')
M('C12', 'boundary-loops-drop-triangles', EDF, "        working.reverse();\n        all_loops.push(working);", "        if working.len() > 3 {\n            working.reverse();\n            all_loops.push(working);\n        }", 'boundary_loops:every-walk-recorded')
HLPF = 'src/airfoil/helpers.rs'
M('C10', 'refine-midway-before-orientation', HLPF, """            let n = if next.spanning_ray.dir().dot(&last.spanning_ray.dir()) < 0.0 {
                next.reversed()
            } else {
                next
            };

            let test_ray = n.spanning_ray.symmetry(&last.spanning_ray);
""", """            let test_ray = next.spanning_ray.symmetry(&last.spanning_ray);

            let n = if next.spanning_ray.dir().dot(&last.spanning_ray.dir()) < 0.0 {
                next.reversed()
            } else {
                next
            };
""", 'midway-ray-after-orientation')
M('C10', 'radius-gauge-wrong-edge', 'src/airfoil.rs', """                    Circle2::from_point(
                        self.trailing_edge
                            .as_ref()
                            .ok_or("Trailing edge not found")?
                            .point,
                        -r,""", """                    Circle2::from_point(
                        self.leading_edge
                            .as_ref()
                            .ok_or("Trailing edge not found")?
                            .point,
                        -r,""", 'get_thickness:radius-gauge')
# ---------------------------------------------------------------- round-3 third batch: own variants of the new obligations
CIRF = 'src/geom2/circle2.rs'
M('C11', 'line-circle-tangency-one-sided', CIRF, "    if (d - circle.ball.radius).abs() < 1.0e-10 {\n        // If the distance from the center to the line", "    if (d - circle.ball.radius) < 1.0e-10 && d >= circle.ball.radius {\n        // If the distance from the center to the line", 'intersection_line_circle:classification')
M('C11', 'line-circle-th-unscaled', CIRF, "        let th = h / line.dir().norm();", "        let th = h;", 'intersection_line_circle:classification')
M('C11', 'three-points-det-sign', CIRF, "        let angle = if det < 0.0 {\n            directed_angle(&v0, &v2, Ccw)", "        let angle = if det > 0.0 {\n            directed_angle(&v0, &v2, Ccw)", 'three_points:sweep')
M('C11', 'neutral-three-points-cross-form', CIRF, """        let det = (p1.x - p0.x) * (p1.y + p0.y)
            + (p2.x - p1.x) * (p2.y + p1.y)
            + (p0.x - p2.x) * (p0.y + p2.y);
        let angle = if det < 0.0 {""", """        let turn = (p1.x - p0.x) * (p2.y - p1.y) - (p1.y - p0.y) * (p2.x - p1.x);
        let angle = if turn > 0.0 {""", '', kind='neutral')
M('C06', 'farthest-starts-at-zero', 'src/geom2/polyline2.rs', "    let mut farthest = f64::MIN;\n    let n = ray.dir.normalize();", "    let mut farthest = 0.0_f64;\n    let n = ray.dir.normalize();", 'farthest_point_direction_distance')
M('C06', 'farthest-unnormalised', 'src/geom2/polyline2.rs', "    let mut farthest = f64::MIN;\n    let n = ray.dir.normalize();", "    let mut farthest = f64::MIN;\n    let n = ray.dir;", 'farthest_point_direction_distance')
M('C03', 'plane-intersection-distance-other-denominator', 'src/geom3/plane3.rs', "            Some((p0 - sp.point).dot(&self.normal) / denom)", "            Some((p0 - sp.point).dot(&sp.normal) / denom)", 'Plane3::intersection_distance')
M('C03', 'neutral-plane-intersection-temp', 'src/geom3/plane3.rs', "            Some((p0 - sp.point).dot(&self.normal) / denom)", "            let gap = (p0 - sp.point).dot(&self.normal);\n            Some(gap / denom)", '', kind='neutral')
M('C04', 'between-stop-or', 'src/geom2/curve2.rs', "} else if working.length_along() <= end.length_along() && next_index > end.index {", "} else if working.length_along() <= end.length_along() || next_index > end.index {", 'between_lengths:stop')
M('C07', 'params-3d-recomputed', 'src/geom3/align3/points_to_mesh.rs', "    fn params(&self) -> Vector<f64, U6, Self::ParameterStorage> {\n        self.params.x\n", "    fn params(&self) -> Vector<f64, U6, Self::ParameterStorage> {\n        self.params.x * 1.0\n", 'PointsToMesh::params')
M('C13', 'mesh-transform-skip-identity-translation', 'src/geom3/mesh.rs', "        self.shape.transform_vertices(transform);", "        if transform.translation.vector.norm() > 0.0 {\n            self.shape.transform_vertices(transform);\n        }", 'Mesh::transform')
M('C12', 'create-box-swapped', 'src/geom3/mesh.rs', "box_geom(width, height, depth)", "box_geom(height, width, depth)", 'Mesh::create_box')
M('C15', 'poisson-squared-radius', 'src/common/poisson_disk.rs', "tree.within(&working_points[m], radius)", "tree.within(&working_points[m], radius * radius)", 'callers-plain-distance')
M('C15', 'sample-uniform-total-before-push', 'src/geom3/mesh/sampling.rs', "            total_area += tri.area();\n            cumulative_areas.push(total_area);", "            cumulative_areas.push(total_area);\n            total_area += tri.area();", 'sample_uniform:area-table')
M('C17', 'between-closing-le', 'src/func1/series1.rs', "        if xs[xs.len() - 1] < x1 {", "        if xs[xs.len() - 1] < x1 && !ys.is_empty() && ys[0] >= 0.0 {", 'between:x1:closing-test')
M('C19', 'mean-point-weighted-skip-first', 'src/common/points.rs', "    for (p, w) in points.iter().zip(weights) {\n        sum += p.coords * *w;", "    for (p, w) in points.iter().zip(weights).skip(1) {\n        sum += p.coords * *w;", 'mean_point_weighted')
M('C08', 'from-rotation-angle-order', 'src/geom3/align3/rotations.rs', "        let (w, p, r) = to_wpr(&m);\n        Self::from_euler(w, p, r)", "        let (w, p, r) = to_wpr(&m);\n        Self::from_euler(r, p, w)", 'RotationMatrices::from_rotation')
M('C05', 'resampled_n-no-clamp', 'src/func1/series1.rs', ".map(|i| (self.x_min() + (i as f64) * step_size).min(self.x_max()))", ".map(|i| self.x_min() + (i as f64) * step_size)", 'resampled_n:contract')
M('C14', 'create-from-vertex-by-position', 'src/geom3/mesh/filtering.rs', "            .map(|i| self.vertices()[*i as usize])", "            .map(|i| self.vertices()[(*i as usize).min(self.vertices().len() - 1)])", 'create_from_indices:vertex-copy')
# ---------------------------------------------------------------- seeding round 4: own variants of the new obligations
M('C13', 'section-epsilon-large', 'src/geom3/mesh/queries.rs', ".intersection_with_local_plane(&plane.normal, plane.d, 1.0e-6);", ".intersection_with_local_plane(&plane.normal, plane.d, 1.0e-3);", 'section:on-plane-epsilon')
M('C14', 'vertex-check-angle-only', 'src/geom3/mesh/filtering.rs', "            if self.planar_tol.is_none() && self.angle_tol.is_none() {", "            if self.planar_tol.is_none() || self.angle_tol.is_none() {", 'vertex_check:no-further-test')
M('C15', 'poisson-mask-skips-self', 'src/common/poisson_disk.rs', "        for w in within {\n            mask[w.0] = false;\n        }", "        for w in within {\n            if w.0 != m {\n                mask[w.0] = false;\n            }\n        }", 'mask-every-neighbour')
M('C20', 'append-only-self-uv-checked', 'src/geom3/mesh.rs', "        if self.uv.is_some() || other.uv.is_some() {", "        if self.uv.is_some() {", 'shape/uv:in-step')
M('C20', 'interior-barycentric-abs-det', 'src/geom3/mesh/uv_mapping.rs', "    if det == 0.0 {\n        return None;\n    }", "    if det.abs() < 1.0e-3 {\n        return None;\n    }", 'interior_barycentric:degenerate-only')
M('C09', 'fit-circle-loose-ftol', 'src/geom2/circle2.rs', "    let (result, report) = LevenbergMarquardt::new().minimize(problem);", "    let (result, report) = LevenbergMarquardt::new().with_ftol(1.0e-4).minimize(problem);", 'default-tolerances')
M('C11', 'arc-set-angle-in-place', 'src/geom2/circle2.rs', "    pub fn length(&self) -> f64 {\n        self.circle.ball.radius * self.angle.abs()\n    }", "    pub fn length(&self) -> f64 {\n        self.circle.ball.radius * self.angle.abs()\n    }\n\n    pub fn set_sweep(&mut self, angle: f64) {\n        self.angle = angle;\n    }", 'immutable')
M('C10', 'open-gap-max-instead-of-min', 'src/airfoil/edges.rs', "                .min(end_sp.scalar_projection(&end_cap.b));", "                .max(end_sp.scalar_projection(&end_cap.b));", 'find_edge:step')
M('C18', 'angle-interval-contains-no-wrap-branch', 'src/common/angles.rs', "            angle + 2.0 * PI <= self.start + self.angle + ANGLE_TOL", "            angle <= self.start + self.angle - 2.0 * PI", 'AngleInterval::contains')
# ---------------------------------------------------------------- round-5 obligations (mutants spelled differently from the seeds that prompted them)
M('C18', 'signed-angle-abs-cross', 'src/geom2/angles2.rs', "    (v1.x * v2.y - v1.y * v2.x).atan2(v1.x * v2.x + v1.y * v2.y)", "    (v1.x * v2.y - v1.y * v2.x).abs().atan2(v1.x * v2.x + v1.y * v2.y)", 'signed_angle:formula')
M('C17', 'sort-and-dedup-loose-constant', 'src/func1/series1.rs', "    xs.dedup_by(|a, b| (*a - *b).abs() < 1e-10);", "    xs.dedup_by(|a, b| (*a - *b).abs() < 1e-3);", 'sort_and_dedup:predicate')
M('C17', 'series1-f-clamps', 'src/func1/series1.rs', "    fn f(&self, x: f64) -> f64 {\n        self.interpolate(x)\n    }", "    fn f(&self, x: f64) -> f64 {\n        self.interpolate(x.clamp(self.x_min(), self.x_max()))\n    }", 'Series1::f')
M('C09', 'try-from-sorts', 'src/common/discrete_domain.rs', "    fn try_from(values: Vec<f64>) -> Result<Self> {\n", "    fn try_from(values: Vec<f64>) -> Result<Self> {\n        let mut values = values;\n        values.retain(|v| v.is_finite());\n", 'try_from:stores-input')
M('C12', 'get-patches-empty-shortcut', 'src/geom3/mesh.rs', "        patches::compute_patch_indices(self)\n", "        if self.faces().len() == 1 {\n            return vec![vec![0]];\n        }\n        patches::compute_patch_indices(self)\n", 'get_patches:delegates')
M('C15', 'hull-two-point-shortcut', 'src/geom2/hull.rs', "    convex_hull_idx(points)\n}", "    if points.len() == 2 {\n        return vec![1, 0];\n    }\n    convex_hull_idx(points)\n}", 'convex_hull_2d:delegates')
M('C13', 'mesh-new-merges-duplicates', 'src/geom3/mesh.rs', "        let shape = TriMesh::new(vertices, triangles).expect(\"Failed to create TriMesh\");\n        Self {\n            shape,\n            is_solid,\n            uv: None,", "        let shape = TriMesh::with_flags(vertices, triangles, TriMeshFlags::MERGE_DUPLICATE_VERTICES).expect(\"Failed to create TriMesh\");\n        Self {\n            shape,\n            is_solid,\n            uv: None,", 'plain-trimesh')
M('C07', 'rcparams3-set-zeroes-tiny', 'src/geom3/align3.rs', "        self.x = *x;\n        self.compute();", "        self.x = *x;\n        if self.x[4].abs() < 1e-12 {\n            self.x[4] = 0.0;\n        }\n        self.compute();", 'set:x-only-store')
M('C08', 'from-euler-negated-pitch', 'src/geom3/align3/rotations.rs', "        let y = UnitQuaternion::from_euler_angles(0.0, ry, 0.0);", "        let y = UnitQuaternion::from_euler_angles(0.0, ry % std::f64::consts::PI, 0.0);", 'from_euler:elementary')
M('C10', 'advance-first-jump-half', 'src/airfoil/camber.rs', "    let mut frac = 0.25;", "    let mut frac = 0.5;", 'first-jump-within-end-test')
M('C10', 'neutral-advance-smaller-first-jump', 'src/airfoil/camber.rs', "    let mut frac = 0.25;", "    let mut frac = 0.25_f64;", '', kind='neutral')
M('C10', 'caliper-skip-first-leg', 'src/airfoil.rs', "        let i2 = hull_indices[(i + 1) % hull_indices.len()];", "        let i2 = hull_indices[(i + 1).min(hull_indices.len() - 1)];", 'every-hull-leg')
M('C11', 'interval-picks-by-own-centre', 'src/geom2/circle2.rs', "        if i0.contains(self.angle_of_point(&other.center)) {\n            Some(i0)", "        if i1.contains(self.angle_of_point(&other.center)) {\n            Some(i0)", 'which-arc')
M('C20', 'face-angles-nonstrict', 'src/geom3/mesh/conformal.rs', "        let face_angles = if a > b + c {", "        let face_angles = if a >= b + c {", 'degenerate-test')
M('C20', 'uv-triangle-rejects-far', 'src/geom3/mesh/uv_mapping.rs', "        let (_, (t_id, loc)) = result;\n", "        let (prj, (t_id, loc)) = result;\n        if !prj.is_inside && (prj.point - point).norm() > 1e-9 {\n            return None;\n        }\n", 'none-only-degenerate')
M('C14', 'project-max-dist-halved', 'src/geom3/mesh/queries.rs', ".project_local_point_and_get_location_with_max_dist(point, self.is_solid, max_dist)", ".project_local_point_and_get_location_with_max_dist(point, self.is_solid, max_dist * 0.5)", 'project_with_max_dist')
M('C16', 'surf-closest-flips-normal', 'src/geom3/mesh/queries.rs', "        let normal = triangle.normal().unwrap(); // When could this fail? On a degenerate tri?", "        let normal = -triangle.normal().unwrap();", 'surf_closest_to')
M('C04', 'length-along-truncates', 'src/geom2/curve2.rs', "        l[self.index] + (l[self.index + 1] - l[self.index]) * self.fraction\n", "        l[self.index] + (l[self.index + 1] - l[self.index]) * self.fraction.min(0.999999)\n", 'length_along')
M('C03', 'plane-inverted-keeps-d', 'src/geom3/plane3.rs', "        Self::new(-self.normal, -self.d)", "        Self::new(-self.normal, self.d)", 'inverted_normal')
M('C02', 'curve3-lengths-from-zero-index', 'src/geom3/curve3.rs', "            lengths.push(lengths[i] + d);", "            lengths.push(lengths[0] + d);", 'from_points:lengths')
M('C14', 'neutral-pass-list-for-each', 'src/geom3/mesh/filtering.rs', "                for i in pass_list {\n                    self.indices.insert(i);\n                }", "                pass_list.into_iter().for_each(|i| {\n                    self.indices.insert(i);\n                });", '', kind='neutral')
M('C14', 'pass-list-for-each-removes', 'src/geom3/mesh/filtering.rs', "                for i in pass_list {\n                    self.indices.insert(i);\n                }", "                pass_list.into_iter().for_each(|i| {\n                    self.indices.remove(&i);\n                });", 'mutate_pass_list')
# ---------------------------------------------------------------- round-6 obligations
M('C03', 'station-normal-lerp', 'src/geom2/curve2.rs', "            let n1 = n1.normal();\n            let n = n0.slerp(&n1, self.fraction);", "            let n1 = n1.normal();\n            let n = UnitVec2::new_normalize(n0.into_inner() * (1.0 - self.fraction) + n1.into_inner() * self.fraction);", 'slerp')
M('C08', 'pp-jacobian-loose-cutoff', 'src/geom3/align3/jacobian.rs', "    if m.norm_squared() < 1e-16 {", "    if m.norm_squared() < 1e-10 {", 'coincident-cutoff')
M('C10', 'camber-second-half-loose', 'src/airfoil/camber.rs', "    let stations1 = extract_half_camber_line(section, &spanning.reversed(), tol)?;", "    let stations1 = extract_half_camber_line(section, &spanning, tol)?;", 'both-halves')
M('C10', 'analyze-closed-split-swapped', 'src/airfoil.rs', "                    Some(section.split_closed_at_lengths(l0, l1)?)", "                    Some(section.split_closed_at_lengths(l1, l0)?)", 'perimeter-split')
M('C14', 'near-check-angle-strict-acos', 'src/geom3/mesh/filtering.rs', "(Some(face_normal), Some(angle_tol)) => face_normal.angle(&rn) <= angle_tol,", "(Some(face_normal), Some(angle_tol)) => face_normal.dot(&rn).clamp(-1.0, 1.0).acos() < angle_tol,", 'angle-criterion')
M('C17', 'resampled-x-floor', 'src/func1/series1.rs', "        self.resampled_n(n.ceil() as usize)", "        self.resampled_n(n.floor() as usize)", 'resampled_x')
M('C17', 'bounds-at-y0-no-dedup', 'src/func1/series1.rs', "        let mut x_bounds = [self.y_crossings(0.0), vec![self.x_min(), self.x_max()]].concat();\n        sort_and_dedup(&mut x_bounds);", "        let mut x_bounds = [self.y_crossings(0.0), vec![self.x_min(), self.x_max()]].concat();\n        x_bounds.sort_by(|a, b| a.partial_cmp(b).unwrap());", 'bounds_at_y0')
M('C16', 'index-of-reversed-comparator', 'src/common/discrete_domain.rs', "self.binary_search_by(|v| v.partial_cmp(&value).unwrap());", "self.binary_search_by(|v| value.partial_cmp(v).unwrap().reverse());", 'index_of:comparator')
M('C20', 'extend-h-forward-difference', 'src/geom3/mesh/conformal.rs', "        h[(i_all as usize, 0)] = 0.5 * (uvb[(i_b_prev, 0)] - uvb[(i_b_next, 0)]);", "        h[(i_all as usize, 0)] = 0.5 * (uvb[(i_b, 0)] - uvb[(i_b_next, 0)]);", 'central-difference')
M('C20', 'boundary-lengths-open-end', 'src/geom3/mesh/conformal.rs', "            let next = i_bound[(i + 1) % i_bound.len()];", "            let next = i_bound[(i + 1).min(i_bound.len() - 1)];", 'boundary_edge_lengths')
M('C13', 'plane-from-point-abs-d', 'src/geom3/plane3.rs', "        Self::new(*normal, d)", "        Self::new(*normal, d.abs())", 'Plane3::from')
M('C11', 'from3-relative-collinear', 'src/geom2/circle2.rs', "        if det.abs() < 1.0e-6 {", "        if det.abs() < 1.0e-6 * (p0 - p1).norm() {", 'from_3_points')
