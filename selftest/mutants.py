"""Mutant table for the drill: (prop, name, edits[(file, old, new)], expect=substring of the obligation key)."""
MUTANTS = []


def M(prop, name, f, old, new, expect='', kind='mutant'):
    MUTANTS.append({'prop': prop, 'name': name, 'edits': [(f, old, new)], 'expect': expect, 'kind': kind})


PCF = 'src/geom3/point_cloud.rs'
SD = 'src/metrology/surface_deviation.rs'
# ---------------------------------------------------------------- C16
M('C16', 'merge-drop-colors', PCF, "            self.colors.as_mut().unwrap().extend(colors);\n", "            let _ = colors;\n", 'COMUT')
M('C16', 'merge-check-after-extend', PCF,
  """        if self.colors.is_some() != other.colors.is_some() {
            return Err("Cannot merge point clouds with inconsistent color data".into());
        }

        // Merge the points
        self.points.extend(other.points);
""", """        // Merge the points
        self.points.extend(other.points);
        if self.colors.is_some() != other.colors.is_some() {
            return Err("Cannot merge point clouds with inconsistent color data".into());
        }
""", 'TXN')
M('C16', 'try_new-colors-unchecked', PCF, "            if colors.len() != points.len() {", "            if colors.len() > points.len() {", 'GUARD:PointCloud::try_new:colors')
M('C16', 'push-after-values', SD, """        if self.min_index.is_none()
            || deviation.deviation < self.values[self.min_index.unwrap()].deviation
        {
            self.min_index = Some(self.values.len());
        }

        self.values.push(deviation);""", """        self.values.push(deviation);
        if self.min_index.is_none()
            || deviation.deviation < self.values[self.min_index.unwrap()].deviation
        {
            self.min_index = Some(self.values.len());
        }
""", 'push:min_index')
M('C16', 'push-max-cmp-flipped', SD, "|| deviation.deviation > self.values[self.max_index.unwrap()].deviation", "|| deviation.deviation < self.values[self.max_index.unwrap()].deviation", 'push:max_index')
M('C16', 'new-min-uses-max', SD, """            .min_by(|(_, a), (_, b)| a.deviation.partial_cmp(&b.deviation).unwrap())""", """            .min_by(|(_, a), (_, b)| b.deviation.partial_cmp(&a.deviation).unwrap())""", 'new:min_by')
M('C16', 'reversed-keeps-direction', 'src/metrology/dimension.rs', "            direction: -self.direction,", "            direction: self.direction,", 'Distance::reversed')
M('C16', 'deviation-normal-mismatch', 'src/metrology/line_profiles.rs', "        vector.dot(&normal),", "        vector.dot(&sp.normal),", 'point_curve2_deviation')
M('C16', 'measure-swapped', 'src/geom3/mesh/measurement.rs', "Distance3::new(closest.point, *point, Some(d))", "Distance3::new(*point, closest.point, Some(d))", 'measure_point_deviation')
M('C16', 'tolmap-index', 'src/metrology/tolerance_map.rs', "            Some(self.tol_zones[i])", "            Some(self.tol_zones[i.saturating_sub(1)])", 'DiscreteDomainTolMap::get')
M('C16', 'neutral-rename-locals', SD, """        if self.max_index.is_none()
            || deviation.deviation > self.values[self.max_index.unwrap()].deviation
        {
            self.max_index = Some(self.values.len());
        }
""", """        let n_now = self.values.len();
        let cur = self.max_index;
        if cur.is_none() || self.values[cur.unwrap()].deviation < deviation.deviation {
            self.max_index = Some(n_now);
        }
""", kind='neutral')
