#!/usr/bin/env python3
"""Confirm a seeded breaking change and run the registered check against it.

usage: selftest/seed.py <PROP> <a|b> [--wt DIR] [--src /tmp/seed/PROP]
  1. in the scratch worktree: apply the diff, run the library test suite (must stay green), run the demonstration
     (must fail), revert, run the demonstration again (must pass);
  2. apply the diff to /repo (git apply), run ./check PROP, undo it (git checkout -- .);
  3. on success store /verif/seeded/<PROP>-<x>/{patch.diff, demo.rs, meta.json}.
"""
import json, os, re, shutil, subprocess, sys

ROOT = os.path.dirname(os.path.dirname(os.path.abspath(__file__)))


sys.path.insert(0, ROOT)


def sh(cmd, cwd=None, env=None, timeout=3600):
    p = subprocess.run(cmd, cwd=cwd, env=env, shell=True, stdout=subprocess.PIPE, stderr=subprocess.STDOUT, text=True, timeout=timeout)
    return p.returncode, p.stdout


def main():
    prop, which = sys.argv[1], sys.argv[2]
    wt = f'/tmp/wt/{prop}'
    src = f'/tmp/seed/{prop}'
    extra_props = []
    store_as = None
    for i, a in enumerate(sys.argv):
        if a == '--wt':
            wt = sys.argv[i + 1]
        if a == '--src':
            src = sys.argv[i + 1]
        if a == '--as':
            store_as = sys.argv[i + 1]
        if a == '--also':
            extra_props = sys.argv[i + 1].split(',')
    diff = os.path.join(src, f'{which}.diff')
    demo = os.path.join(src, f'{which}_demo.rs')
    env = dict(os.environ, CARGO_TARGET_DIR=os.path.join(wt, 'target'), CARGO_NET_OFFLINE='true')
    res = {'property': prop, 'seed': which}
    sh('git checkout -- src', cwd=wt)
    os.makedirs(os.path.join(wt, 'tests'), exist_ok=True)
    shutil.copy(demo, os.path.join(wt, 'tests', f'seedv_{which}.rs'))
    rc, out = sh(f'git apply {diff}', cwd=wt)
    if rc != 0:
        print('patch does not apply in the worktree:', out)
        return 2
    rc, out = sh('cargo test --offline --lib 2>&1 | grep -E "^test result|error(\\[|:)" | head -5', cwd=wt, env=env)
    res['suite_with_change'] = out.strip()
    suite_ok = ' 0 failed' in out and 'passed' in out
    for _retry in range(3):
        # geom3::align3::rotations::tests::test_wpr_rot_mat_round_trip_stress draws random angles and fails about 2% of runs on the unchanged tree
        if suite_ok or '241 passed; 1 failed' not in out:
            break
        rc, out2 = sh('cargo test --offline --lib 2>&1 | grep -E "^test result|FAILED|error(\\[|:)" | head -8', cwd=wt, env=env)
        if 'test_wpr_rot_mat_round_trip_stress' in out2 or ' 0 failed' in out2:
            out = '\n'.join(l for l in out2.splitlines() if l.startswith('test result')) or out2
            res['suite_with_change'] = out.strip() + '   (re-run: the first run failed only in the randomised test_wpr_rot_mat_round_trip_stress, which also fails about 2% of runs on the unchanged tree)'
            suite_ok = ' 0 failed' in out and 'passed' in out
    rc, out = sh(f'cargo test --offline --test seedv_{which} 2>&1 | grep -E "^test result|^test |error(\\[|:)" | head -12', cwd=wt, env=env)
    res['demo_with_change'] = out.strip()
    demo_fails = 'FAILED' in out or 'failed' in out and ' 0 failed' not in out
    sh('git checkout -- src', cwd=wt)
    rc, out = sh(f'cargo test --offline --test seedv_{which} 2>&1 | grep -E "^test result|error(\\[|:)" | head -5', cwd=wt, env=env)
    res['demo_without_change'] = out.strip()
    demo_passes = ' 0 failed' in out and 'test result: ok' in out
    os.remove(os.path.join(wt, 'tests', f'seedv_{which}.rs'))
    print(json.dumps(res, indent=1))
    if not (suite_ok and demo_fails and demo_passes):
        print(f'NOT CONFIRMED: suite_ok={suite_ok} demo_fails_with={demo_fails} demo_passes_without={demo_passes}')
        return 3
    # run the checks against a scratch copy of /repo's current tree with the change applied (VERIF_REPO)
    from selftest.drill import scratch
    sc = scratch()
    caught = {}
    try:
        rc, out = sh(f'patch -p1 -s -i {diff}', cwd=sc)
        if rc != 0:
            print('patch does not apply to the current /repo tree:', out)
            return 5
        env2 = dict(os.environ, VERIF_REPO=sc, VERIF_SCRATCH='1')
        for p in [prop] + extra_props:
            rc, out = sh(f'./check {p}', cwd=ROOT, env=env2)
            fails = re.findall(r'FAIL (\S+)', out)
            caught[p] = {'exit': rc, 'violations': fails}
    finally:
        shutil.rmtree(sc, ignore_errors=True)
    res['checks'] = caught
    print(json.dumps(caught, indent=1))
    hit = any(v['exit'] == 1 and v['violations'] for v in caught.values())
    out_dir = os.path.join(ROOT, 'seeded', f'{prop}-{store_as or which}')
    os.makedirs(out_dir, exist_ok=True)
    shutil.copy(diff, os.path.join(out_dir, 'patch.diff'))
    shutil.copy(demo, os.path.join(out_dir, 'demo.rs'))
    notes = ''
    if os.path.exists(os.path.join(src, 'notes.md')):
        notes = open(os.path.join(src, 'notes.md')).read()
        shutil.copy(os.path.join(src, 'notes.md'), os.path.join(out_dir, 'agent_notes.md'))
    meta = {
        'breaks_property': prop,
        'origin': 'independent sub-agent given only the property text and a scratch worktree',
        'confirmed': {'existing_suite_with_change': res['suite_with_change'], 'demo_with_change': res['demo_with_change'], 'demo_without_change': res['demo_without_change']},
        'what_i_ran': [f'git apply patch.diff (scratch worktree) ; cargo test --offline --lib ; cargo test --offline --test <demo> ; git checkout -- src ; cargo test --offline --test <demo>',
                       'scratch copy of /repo + patch.diff ; VERIF_REPO=<scratch> ./check <prop>'],
        'detected_by': {p: v['violations'] for p, v in caught.items() if v['violations']},
        'detected': hit,
    }
    mp = os.path.join(out_dir, 'meta.json')
    if os.path.exists(mp):
        old = json.load(open(mp))
        for k in ('needs_to_manifest', 'summary', 'history'):
            if k in old:
                meta[k] = old[k]
    json.dump(meta, open(mp, 'w'), indent=1)
    print('DETECTED' if hit else 'MISSED', '->', out_dir)
    return 0 if hit else 1


if __name__ == '__main__':
    sys.exit(main())
