#!/usr/bin/env python3
"""Re-run every recorded seeded change (seeded/<PROP>-<x>/patch.diff) against the property's check on a scratch copy: each must still be
reported (regression test of the checks' sensitivity after engine changes).  usage: selftest/reseed.py [-k C05]"""
import glob, json, os, re, shutil, subprocess, sys

ROOT = os.path.dirname(os.path.dirname(os.path.abspath(__file__)))
sys.path.insert(0, ROOT)
from selftest.drill import scratch   # noqa: E402


def main():
    sel = sys.argv[sys.argv.index('-k') + 1] if '-k' in sys.argv else None
    bad = 0
    for d in sorted(glob.glob(os.path.join(ROOT, 'seeded', 'C??-?'))):
        name = os.path.basename(d)
        prop = name.split('-')[0]
        if sel and sel not in name:
            continue
        s = scratch()
        try:
            p = subprocess.run(['patch', '-p1', '-s', '-i', os.path.join(d, 'patch.diff')], cwd=s, stdout=subprocess.PIPE, stderr=subprocess.STDOUT, text=True)
            if p.returncode != 0:
                print(f'{name}: PATCH-FAILED {p.stdout[-200:]}')
                bad += 1
                continue
            env = dict(os.environ, VERIF_REPO=s, VERIF_SCRATCH='1')
            q = subprocess.run([os.path.join(ROOT, 'check'), prop], env=env, stdout=subprocess.PIPE, stderr=subprocess.STDOUT, text=True)
            fails = re.findall(r'FAIL (\S+)', q.stdout)
            ok = q.returncode == 1 and fails
            print(f'{name}: ' + ('DETECTED ' + ' '.join(fails[:3]) if ok else 'MISSED'))
            bad += (not ok)
        finally:
            shutil.rmtree(s, ignore_errors=True)
    sys.exit(1 if bad else 0)


if __name__ == '__main__':
    main()
