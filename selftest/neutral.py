#!/usr/bin/env python3
"""Run every check on a scratch copy of /repo with one behaviour-preserving diff applied; any VIOLATION is a false alarm to triage.

usage: selftest/neutral.py <dir with NN.diff files> [--props C01,C05] [--tier quick]
"""
import glob, os, re, shutil, subprocess, sys

ROOT = os.path.dirname(os.path.dirname(os.path.abspath(__file__)))
sys.path.insert(0, ROOT)
from selftest.drill import scratch   # noqa: E402

ALL = [f'C{i:02d}' for i in range(1, 21)]


def main():
    d = sys.argv[1]
    props = ALL
    tier = 'quick'
    for i, a in enumerate(sys.argv):
        if a == '--props':
            props = sys.argv[i + 1].split(',')
        if a == '--tier':
            tier = sys.argv[i + 1]
    bad = 0
    for f in sorted(glob.glob(os.path.join(os.path.abspath(d), '*.diff'))):
        s = scratch()
        try:
            p = subprocess.run(['patch', '-p1', '-s', '-i', f], cwd=s, stdout=subprocess.PIPE, stderr=subprocess.STDOUT, text=True)
            if p.returncode != 0:
                print(f'{os.path.basename(f)}: PATCH-FAILED {p.stdout[-200:]}')
                continue
            env = dict(os.environ, VERIF_REPO=s, VERIF_SCRATCH='1')
            fails = []
            if props == ALL:
                q = subprocess.run([os.path.join(ROOT, 'check'), 'all', '--tier', tier], env=env, stdout=subprocess.PIPE, stderr=subprocess.STDOUT, text=True)
                if 'cargo check failed' in q.stdout:
                    fails.append('DOES-NOT-COMPILE')
                fails += re.findall(r'FAIL (\S+)', q.stdout)
                if 'Traceback' in q.stdout and not fails:
                    fails.append('CRASH')
            else:
                for pr in props:
                    q = subprocess.run([os.path.join(ROOT, 'check'), pr, '--tier', tier], env=env, stdout=subprocess.PIPE, stderr=subprocess.STDOUT, text=True)
                    if 'cargo check failed' in q.stdout:
                        fails.append(f'{pr}:DOES-NOT-COMPILE')
                        break
                    fails += re.findall(r'FAIL (\S+)', q.stdout)
            print(f'{os.path.basename(f)}: ' + ('silent' if not fails else 'ALARM ' + ' '.join(fails)))
            bad += bool(fails)
        finally:
            shutil.rmtree(s, ignore_errors=True)
    sys.exit(1 if bad else 0)


if __name__ == '__main__':
    main()
