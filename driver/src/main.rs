#![feature(rustc_private)]
extern crate rustc_abi;
extern crate rustc_driver;
extern crate rustc_hir;
extern crate rustc_interface;
extern crate rustc_middle;
extern crate rustc_span;

use rustc_driver::Compilation;
use rustc_hir::def::DefKind;
use rustc_hir::def_id::DefId;
use rustc_middle::mir::{
    self, AggregateKind, Body, Operand, Place, ProjectionElem, Rvalue, StatementKind,
    TerminatorKind,
};
use rustc_middle::ty::{self, Ty, TyCtxt};
use std::fmt::Write as _;

fn esc(s: &str) -> String {
    let mut o = String::with_capacity(s.len() + 2);
    o.push('"');
    for c in s.chars() {
        match c {
            '"' => o.push_str("\\\""),
            '\\' => o.push_str("\\\\"),
            '\n' => o.push_str("\\n"),
            '\t' => o.push_str("\\t"),
            c if (c as u32) < 0x20 => { let _ = write!(o, "\\u{:04x}", c as u32); }
            c => o.push(c),
        }
    }
    o.push('"');
    o
}

struct Cx<'tcx> {
    tcx: TyCtxt<'tcx>,
}

impl<'tcx> Cx<'tcx> {
    fn span(&self, sp: rustc_span::Span) -> String {
        let sm = self.tcx.sess.source_map();
        let lo = sm.lookup_char_pos(sp.lo());
        let file = format!("{}", lo.file.name.prefer_local_unconditionally());
        format!("{{\"file\":{},\"line\":{},\"col\":{},\"exp\":{}}}", esc(&file), lo.line, lo.col.0 + 1, sp.from_expansion())
    }

    fn ty(&self, t: Ty<'tcx>) -> String { esc(&format!("{}", t)) }

    fn place(&self, body: &Body<'tcx>, p: &Place<'tcx>) -> String {
        let mut s = format!("{{\"l\":{},\"p\":[", p.local.as_u32());
        let mut pty = mir::PlaceTy::from_ty(body.local_decls[p.local].ty);
        for (i, elem) in p.projection.iter().enumerate() {
            if i > 0 { s.push(','); }
            match elem {
                ProjectionElem::Deref => s.push_str("\"deref\""),
                ProjectionElem::Field(f, _) => {
                    let mut name = String::new();
                    if let ty::Adt(def, _) = pty.ty.kind() {
                        let v = pty.variant_index.unwrap_or(rustc_abi::FIRST_VARIANT);
                        if def.is_enum() || def.is_struct() || def.is_union() {
                            if let Some(var) = def.variants().get(v) {
                                if let Some(fd) = var.fields.get(f) { name = fd.name.to_string(); }
                            }
                        }
                    }
                    if let ty::Closure(cdef, _) = pty.ty.kind() {
                        if let Some(l) = cdef.as_local() {
                            if let Some(cp) = self.tcx.closure_captures(l).get(f.as_usize()) { name = format!("cap:{}", cp.to_symbol()); }
                        }
                    }
                    let _ = write!(s, "{{\"f\":{},\"n\":{}}}", f.as_u32(), esc(&name));
                }
                ProjectionElem::Index(l) => { let _ = write!(s, "{{\"idx\":{}}}", l.as_u32()); }
                ProjectionElem::ConstantIndex { offset, from_end, .. } => { let _ = write!(s, "{{\"cidx\":{},\"from_end\":{}}}", offset, from_end); }
                ProjectionElem::Downcast(name, vi) => {
                    let n = name.map(|n| n.to_string()).unwrap_or_default();
                    let _ = write!(s, "{{\"dc\":{},\"n\":{}}}", vi.as_u32(), esc(&n));
                }
                _ => s.push_str("\"other\""),
            }
            pty = pty.projection_ty(self.tcx, elem);
        }
        s.push_str("]}");
        s
    }

    fn fn_ref(&self, caller: DefId, def: DefId, args: ty::GenericArgsRef<'tcx>) -> String {
        let tcx = self.tcx;
        let path = tcx.def_path_str(def);
        let full = tcx.def_path_str_with_args(def, args);
        let env = ty::TypingEnv::post_analysis(tcx, caller);
        let resolved = match ty::Instance::try_resolve(tcx, env, def, args) {
            Ok(Some(i)) => Some((tcx.def_path_str(i.def_id()), i.def_id().is_local())),
            _ => None,
        };
        let res_local = resolved.as_ref().map(|r| r.1).unwrap_or(false);
        let resolved = resolved.map(|r| r.0);
        let mut tr = String::from("null");
        if let Some(assoc) = tcx.opt_associated_item(def) {
            if let Some(t) = assoc.trait_container(tcx) { tr = esc(&tcx.def_path_str(t)); }
        }
        let self_ty = if args.len() > 0 { if let Some(t) = args[0].as_type() { self.ty(t) } else { "null".into() } } else { "null".into() };
        format!("{{\"path\":{},\"full\":{},\"res\":{},\"trait\":{},\"arg0\":{},\"local\":{},\"res_local\":{}}}",
            esc(&path), esc(&full), resolved.map(|r| esc(&r)).unwrap_or("null".into()), tr, self_ty, def.is_local(), res_local)
    }

    fn operand(&self, caller: DefId, body: &Body<'tcx>, o: &Operand<'tcx>) -> String {
        match o {
            Operand::Copy(p) => format!("{{\"k\":\"copy\",\"pl\":{}}}", self.place(body, p)),
            Operand::Move(p) => format!("{{\"k\":\"move\",\"pl\":{}}}", self.place(body, p)),
            Operand::Constant(c) => {
                let t = c.const_.ty();
                let mut s = format!("{{\"k\":\"const\",\"ty\":{}", self.ty(t));
                if let ty::FnDef(d, a) = t.kind() {
                    let _ = write!(s, ",\"fn\":{}", self.fn_ref(caller, *d, a));
                } else {
                    let env = ty::TypingEnv::post_analysis(self.tcx, caller);
                    if let Some(si) = c.const_.try_eval_scalar_int(self.tcx, env) {
                        let bits = si.to_bits_unchecked();
                        let _ = write!(s, ",\"bits\":\"{}\",\"size\":{}", bits, si.size().bytes());
                        if t.is_floating_point() && si.size().bytes() == 8 {
                            let _ = write!(s, ",\"f\":{}", esc(&format!("{:?}", f64::from_bits(bits as u64))));
                        }
                    }
                    let _ = write!(s, ",\"txt\":{}", esc(&format!("{}", c.const_)));
                }
                s.push('}');
                s
            }
            #[allow(unreachable_patterns)]
            _ => "{\"k\":\"other\"}".into(),
        }
    }

    fn rvalue(&self, caller: DefId, body: &Body<'tcx>, r: &Rvalue<'tcx>) -> String {
        let op = |o: &Operand<'tcx>| self.operand(caller, body, o);
        match r {
            Rvalue::Use(o, _) => format!("{{\"k\":\"use\",\"a\":{}}}", op(o)),
            Rvalue::Ref(_, bk, p) => format!("{{\"k\":\"ref\",\"mut\":{},\"pl\":{}}}", matches!(bk, mir::BorrowKind::Mut { .. }), self.place(body, p)),
            Rvalue::RawPtr(_, p) => format!("{{\"k\":\"rawptr\",\"pl\":{}}}", self.place(body, p)),
            Rvalue::BinaryOp(b, ops) => format!("{{\"k\":\"bin\",\"op\":{},\"a\":{},\"b\":{}}}", esc(&format!("{:?}", b)), op(&ops.0), op(&ops.1)),
            Rvalue::UnaryOp(u, o) => format!("{{\"k\":\"un\",\"op\":{},\"a\":{}}}", esc(&format!("{:?}", u)), op(o)),
            Rvalue::Cast(k, o, t) => format!("{{\"k\":\"cast\",\"ck\":{},\"a\":{},\"ty\":{}}}", esc(&format!("{:?}", k)), op(o), self.ty(*t)),
            Rvalue::Discriminant(p) => {
                let pt = p.ty(&body.local_decls, self.tcx).ty;
                let mut extra = String::new();
                if let ty::Adt(def, _) = pt.kind() {
                    if def.is_enum() {
                        let names: Vec<String> = def.variants().iter().map(|v| esc(&v.name.to_string())).collect();
                        extra = format!(",\"adt\":{},\"variants\":[{}]", esc(&self.tcx.def_path_str(def.did())), names.join(","));
                    }
                }
                format!("{{\"k\":\"discr\",\"pl\":{}{}}}", self.place(body, p), extra)
            }
            Rvalue::CopyForDeref(p) => format!("{{\"k\":\"use\",\"a\":{{\"k\":\"copy\",\"pl\":{}}}}}", self.place(body, p)),
            Rvalue::Repeat(o, n) => format!("{{\"k\":\"repeat\",\"a\":{},\"n\":{}}}", op(o), esc(&format!("{}", n))),
            Rvalue::Aggregate(kind, ops) => {
                let mut s = String::from("{\"k\":\"agg\",");
                match &**kind {
                    AggregateKind::Array(_) => s.push_str("\"ak\":\"array\""),
                    AggregateKind::Tuple => s.push_str("\"ak\":\"tuple\""),
                    AggregateKind::Adt(d, vi, _, _, _) => {
                        let def = self.tcx.adt_def(*d);
                        let var = def.variant(*vi);
                        let names: Vec<String> = var.fields.iter().map(|f| esc(&f.name.to_string())).collect();
                        let _ = write!(s, "\"ak\":\"adt\",\"adt\":{},\"variant\":{},\"fields\":[{}]", esc(&self.tcx.def_path_str(*d)), esc(&var.name.to_string()), names.join(","));
                    }
                    AggregateKind::Closure(d, _) => { let _ = write!(s, "\"ak\":\"closure\",\"def\":{}", esc(&self.tcx.def_path_str(*d))); }
                    _ => s.push_str("\"ak\":\"other\""),
                }
                s.push_str(",\"ops\":[");
                for (i, o) in ops.iter().enumerate() { if i > 0 { s.push(','); } s.push_str(&op(o)); }
                s.push_str("]}");
                s
            }
            other => format!("{{\"k\":\"other\",\"txt\":{}}}", esc(&format!("{:?}", other))),
        }
    }

    fn body(&self, did: DefId, out: &mut String) {
        let tcx = self.tcx;
        let body = tcx.optimized_mir(did);
        self.body_of(did, body, tcx.def_path_str(did), out);
        // promoted constants of this body (e.g. `0.0..=1.0`, `&0.0`): emitted as parameterless bodies
        for (i, pb) in tcx.promoted_mir(did).iter_enumerated() {
            out.push(',');
            self.body_of(did, pb, format!("{}::promoted[{}]", tcx.def_path_str(did), i.as_u32()), out);
        }
    }

    fn body_of(&self, did: DefId, body: &Body<'tcx>, path: String, out: &mut String) {
        let tcx = self.tcx;
        let kind = tcx.def_kind(did);
        let vis = match kind { DefKind::Fn | DefKind::AssocFn => format!("{:?}", tcx.visibility(did)), _ => "n/a".into() };
        let _ = write!(out, "{{\"path\":{},\"kind\":{},\"vis\":{},\"span\":{},\"argc\":{},", esc(&path), esc(&format!("{:?}", kind)), esc(&vis), self.span(tcx.def_span(did)), body.arg_count);
        // impl info
        if let Some(assoc) = tcx.opt_associated_item(did) {
            if let Some(imp) = assoc.impl_container(tcx) {
                let st = tcx.type_of(imp).instantiate_identity();
                let _ = write!(out, "\"impl_self\":{},", self.ty(st.skip_norm_wip()));
                if let Some(tr) = tcx.impl_opt_trait_ref(imp) {
                    let _ = write!(out, "\"impl_trait\":{},", esc(&tcx.def_path_str(tr.skip_binder().def_id)));
                }
            }
        }
        // locals
        out.push_str("\"locals\":[");
        let mut names: Vec<Option<String>> = vec![None; body.local_decls.len()];
        for v in &body.var_debug_info {
            if let mir::VarDebugInfoContents::Place(p) = &v.value {
                if p.projection.is_empty() { names[p.local.as_usize()] = Some(v.name.to_string()); }
            }
        }
        for (i, d) in body.local_decls.iter().enumerate() {
            if i > 0 { out.push(','); }
            let _ = write!(out, "{{\"ty\":{},\"n\":{}}}", self.ty(d.ty), names[i].as_ref().map(|n| esc(n)).unwrap_or("null".into()));
        }
        out.push_str("],\"blocks\":[");
        for (bi, bb) in body.basic_blocks.iter().enumerate() {
            if bi > 0 { out.push(','); }
            let _ = write!(out, "{{\"cleanup\":{},\"stmts\":[", bb.is_cleanup);
            let mut first = true;
            for st in &bb.statements {
                if let StatementKind::Assign(b) = &st.kind {
                    let (pl, rv) = &**b;
                    if !first { out.push(','); }
                    first = false;
                    let _ = write!(out, "{{\"pl\":{},\"rv\":{},\"sp\":{}}}", self.place(body, pl), self.rvalue(did, body, rv), self.span(st.source_info.span));
                }
            }
            out.push_str("],\"term\":");
            let t = bb.terminator();
            let sp = self.span(t.source_info.span);
            match &t.kind {
                TerminatorKind::Goto { target } => { let _ = write!(out, "{{\"k\":\"goto\",\"t\":{}}}", target.as_u32()); }
                TerminatorKind::SwitchInt { discr, targets } => {
                    let dty = discr.ty(&body.local_decls, tcx);
                    let _ = write!(out, "{{\"k\":\"switch\",\"dty\":{},\"d\":{},\"t\":[", self.ty(dty), self.operand(did, body, discr));
                    for (i, (v, b)) in targets.iter().enumerate() { if i > 0 { out.push(','); } let _ = write!(out, "[\"{}\",{}]", v, b.as_u32()); }
                    let _ = write!(out, "],\"else\":{},\"sp\":{}}}", targets.otherwise().as_u32(), sp);
                }
                TerminatorKind::Return => out.push_str("{\"k\":\"return\"}"),
                TerminatorKind::Unreachable => out.push_str("{\"k\":\"unreachable\"}"),
                TerminatorKind::Drop { place, target, .. } => { let _ = write!(out, "{{\"k\":\"drop\",\"pl\":{},\"t\":{}}}", self.place(body, place), target.as_u32()); }
                TerminatorKind::Assert { cond, expected, target, .. } => { let _ = write!(out, "{{\"k\":\"assert\",\"c\":{},\"exp\":{},\"t\":{}}}", self.operand(did, body, cond), expected, target.as_u32()); }
                TerminatorKind::Call { func, args, destination, target, .. } => {
                    let _ = write!(out, "{{\"k\":\"call\",\"f\":{},\"args\":[", self.operand(did, body, func));
                    for (i, a) in args.iter().enumerate() { if i > 0 { out.push(','); } out.push_str(&self.operand(did, body, &a.node)); }
                    let _ = write!(out, "],\"dest\":{},\"t\":{},\"sp\":{}}}", self.place(body, destination), target.map(|t| t.as_u32() as i64).unwrap_or(-1), sp);
                }
                other => { let _ = write!(out, "{{\"k\":\"other\",\"txt\":{}}}", esc(&format!("{:?}", other).chars().take(80).collect::<String>())); }
            }
            out.push('}');
        }
        out.push_str("]}");
    }
}

struct Cb;
impl rustc_driver::Callbacks for Cb {
    fn after_analysis<'tcx>(&mut self, _c: &rustc_interface::interface::Compiler, tcx: TyCtxt<'tcx>) -> Compilation {
        let name = tcx.crate_name(rustc_span::def_id::LOCAL_CRATE).to_string();
        let want = std::env::var("FACTS_CRATES").unwrap_or("engeom".into());
        if !want.split(',').any(|w| w == name) { return Compilation::Continue; }
        let cx = Cx { tcx };
        let mut out = String::new();
        let _ = write!(out, "{{\"crate\":{},\"src_hash\":{},\"adts\":[", esc(&name), esc(&std::env::var("FACTS_SRC_HASH").unwrap_or_default()));
        // ADTs
        let mut first = true;
        for id in tcx.hir_crate_items(()).definitions() {
            let did = id.to_def_id();
            if matches!(tcx.def_kind(did), DefKind::Struct | DefKind::Enum) {
                let def = tcx.adt_def(did);
                if !first { out.push(','); } first = false;
                let _ = write!(out, "{{\"path\":{},\"vis\":{},\"span\":{},\"variants\":[", esc(&tcx.def_path_str(did)), esc(&format!("{:?}", tcx.visibility(did))), cx.span(tcx.def_span(did)));
                for (vi, v) in def.variants().iter().enumerate() {
                    if vi > 0 { out.push(','); }
                    let _ = write!(out, "{{\"name\":{},\"fields\":[", esc(&v.name.to_string()));
                    for (fi, f) in v.fields.iter().enumerate() {
                        if fi > 0 { out.push(','); }
                        let fty = tcx.type_of(f.did).instantiate_identity();
                        let _ = write!(out, "{{\"name\":{},\"ty\":{},\"vis\":{}}}", esc(&f.name.to_string()), cx.ty(fty.skip_norm_wip()), esc(&format!("{:?}", f.vis)));
                    }
                    out.push_str("]}");
                }
                out.push_str("]}");
            }
        }
        out.push_str("],\"impls\":[");
        let mut first = true;
        for id in tcx.hir_crate_items(()).definitions() {
            let did = id.to_def_id();
            if let DefKind::Impl { of_trait } = tcx.def_kind(did) {
                if !first { out.push(','); } first = false;
                let st = tcx.type_of(did).instantiate_identity();
                let tr = if of_trait { tcx.impl_opt_trait_ref(did).map(|t| esc(&tcx.def_path_str(t.skip_binder().def_id))).unwrap_or("null".into()) } else { "null".into() };
                let items: Vec<String> = tcx.associated_item_def_ids(did).iter().map(|d| esc(&tcx.def_path_str(*d))).collect();
                let _ = write!(out, "{{\"self\":{},\"trait\":{},\"items\":[{}],\"span\":{}}}", cx.ty(st.skip_norm_wip()), tr, items.join(","), cx.span(tcx.def_span(did)));
            }
        }
        out.push_str("],\"bodies\":[");
        let mut first = true;
        let mut n = 0;
        for ldid in tcx.mir_keys(()) {
            let did = ldid.to_def_id();
            match tcx.def_kind(did) { DefKind::Fn | DefKind::AssocFn | DefKind::Closure => {}, _ => continue }
            if !first { out.push(','); } first = false;
            cx.body(did, &mut out);
            n += 1;
        }
        let _ = write!(out, "],\"n_bodies\":{}}}", n);
        let path = std::env::var("FACTS_OUT").unwrap_or("/tmp/facts.json".into());
        let path = path.replace("{crate}", &name);
        std::fs::write(&path, out).expect("write facts");
        eprintln!("facts: {} bodies -> {}", n, path);
        Compilation::Continue
    }
}

fn main() {
    let mut args: Vec<String> = std::env::args().collect();
    args.remove(1);
    rustc_driver::run_compiler(&args, &mut Cb);
}
