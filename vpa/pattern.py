"""S-expression patterns over value DAGs.

Syntax (the same that core.show prints):
  _                 anything
  $x                variable: binds on first occurrence, must be equal afterwards
  1.0  2  true      constants          'text'  constant string
  (param name)      parameter by source name (or (param 2) by position)
  (field f P)       field f of P;  (self f) = (field f (param self))
  (call NAME P..)   call whose short name matches glob NAME; `...` as last element = any further args
  (mut NAME PATH PREV ARGS..)  in-place mutation of PREV by NAME (PATH: dotted field path, `.` = root, `_` any)
  (agg NAME (f P)..)  aggregate; only the listed fields are constrained
  (or P..)  (and P..)  (not P)
  (has P)           some subterm matches P
  (phi P..)         every listed alternative is matched by some alternative of a phi (or by the term itself)
  (anyphi P)        P matches the term or one of the phi alternatives
  (allphi P)        P matches every alternative
  (op P Q)          add sub mul div rem lt le eq ne neg not cast len index unwrap unwrap_err discr variant update ...
                    add/mul/eq/ne match commutatively
"""
import re
from .core import name_match, subterms, COMMUTATIVE, show

_TOK = re.compile(r"\s*(\(|\)|'[^']*'|[^\s()]+)")


def parse(src):
    toks = _TOK.findall(src)
    pos = 0

    def rd():
        nonlocal pos
        t = toks[pos]
        pos += 1
        if t == '(':
            lst = []
            while toks[pos] != ')':
                lst.append(rd())
            pos += 1
            return tuple(lst)
        if t == ')':
            raise ValueError('unbalanced )')
        return atom(t)

    def atom(t):
        if t == '_':
            return ('_',)
        if t == '...':
            return ('...',)
        if t.startswith('$'):
            return ('$', t[1:])
        if t == 'true':
            return ('const', True)
        if t == 'false':
            return ('const', False)
        if t.startswith("'"):
            return ('const', t[1:-1])
        try:
            if re.fullmatch(r'-?\d+', t):
                return ('const', int(t))
            return ('const', float(t))
        except ValueError:
            return ('sym', t)

    p = rd()
    if pos != len(toks):
        raise ValueError('trailing tokens in pattern: ' + src)
    return compile_pat(_norm_raw(p))


def _norm_raw(p):
    """the same spelling-independent forms the DAG simplifier produces: last element, first element"""
    if not isinstance(p, tuple) or not p or not isinstance(p[0], tuple):
        return p
    p = tuple(_norm_raw(x) for x in p)
    S = lambda name: ('sym', name)
    if len(p) == 2 and p[0] == S('unwrap') and isinstance(p[1], tuple) and len(p[1]) == 4 and p[1][0] == S('call') and p[1][1] in (S('Option::ok_or'), S('Option::ok_or_else')):
        p = (p[0], p[1][2])
    if len(p) == 2 and p[0] == S('unwrap') and isinstance(p[1], tuple) and len(p[1]) == 3 and p[1][0] == S('call'):
        if p[1][1] == S('slice::last'):
            return (S('last'), p[1][2])
        if p[1][1] == S('slice::first'):
            return (S('index'), p[1][2], ('const', 0))
    if len(p) == 3 and p[0] == S('index') and isinstance(p[2], tuple) and len(p[2]) == 3 and p[2][0] == S('sub') and p[2][2] == ('const', 1) \
            and isinstance(p[2][1], tuple) and len(p[2][1]) == 2 and p[2][1][0] == S('len') and p[2][1][1] == p[1] and p[1] != ('_',):
        return (S('last'), p[1])
    return p


def compile_pat(p):
    """turn the raw s-expression into a tagged pattern"""
    if not isinstance(p, tuple):
        return p
    if p and p[0] in ('_', '...', '$', 'const') and (len(p) == 1 or not isinstance(p[1], tuple)):
        return p
    if p[0] == 'sym':
        return p
    head = p[0]
    hs = head[1] if isinstance(head, tuple) and head[0] == 'sym' else None
    if hs is None:
        raise ValueError(f'bad pattern head {head!r}')
    args = p[1:]

    def sym(a):
        if isinstance(a, tuple) and a[0] == 'sym':
            return a[1]
        if isinstance(a, tuple) and a[0] == 'const':
            return str(a[1])
        if isinstance(a, tuple) and a[0] == '_':
            return '_'
        if isinstance(a, tuple) and a[0] == '$':
            return a
        raise ValueError(f'expected a symbol, got {a!r}')

    if hs == 'param':
        return ('P:param', sym(args[0]))
    if hs == 'self':
        return ('P:field', sym(args[0]), ('P:param', 'self'))
    if hs == 'field':
        return ('P:field', sym(args[0]), compile_pat(args[1]))
    if hs == 'variant':
        return ('P:variant', sym(args[0]), compile_pat(args[1]))
    if hs == 'call':
        return ('P:call', sym(args[0])) + tuple(compile_pat(a) for a in args[1:])
    if hs == 'fn':
        return ('P:fn', sym(args[0]))
    if hs == 'closure':
        return ('P:closure', sym(args[0])) + tuple(compile_pat(a) for a in args[1:])
    if hs == 'mut':
        return ('P:mut', sym(args[0]), sym(args[1])) + tuple(compile_pat(a) for a in args[2:])
    if hs == 'agg':
        fs = []
        for a in args[1:]:
            if a == ('...',):
                continue        # aggregates only constrain the listed fields anyway
            fs.append((sym(a[0]), compile_pat(a[1])))
        return ('P:agg', sym(args[0])) + tuple(fs)
    if hs in ('or', 'and', 'phi'):
        return ('P:' + hs,) + tuple(compile_pat(a) for a in args)
    if hs in ('not', 'has', 'anyphi', 'allphi'):
        return ('P:' + hs, compile_pat(args[0]))
    if hs == 'cast':
        if len(args) == 1:
            return ('P:op', 'cast', ('_',), compile_pat(args[0]))
        return ('P:op', 'cast', ('const', sym(args[0])) if sym(args[0]) != '_' else ('_',), compile_pat(args[1]))
    if hs == 'loop':
        return ('P:loop',)
    return ('P:op', hs) + tuple(compile_pat(a) for a in args)


class Env(dict):
    """a match environment; truthy even when empty so `if match(..)` means `matched`"""
    def __bool__(self):
        return True


class Matcher:
    def __init__(self, consts=None):
        self.consts = consts or {}

    def match(self, pat, d, env=None):
        """first environment under which pat matches d, or None"""
        for e in self.m(pat, d, dict(env or {})):
            return Env(e)
        return None

    def matches(self, pat, d, env=None):
        return self.match(pat, d, env) is not None

    def m(self, p, d, env):
        k = p[0]
        if k == '_':
            yield env
            return
        if k == '$':
            n = p[1]
            if n in env:
                if env[n] == d:
                    yield env
            else:
                e = dict(env)
                e[n] = d
                yield e
            return
        if k == 'const':
            if isinstance(d, tuple) and d and d[0] == 'const':
                a, b = p[1], d[1]
                if isinstance(a, bool) or isinstance(b, bool):
                    if a is b:
                        yield env
                elif isinstance(a, (int, float)) and isinstance(b, (int, float)):
                    if a == b or (isinstance(a, float) and isinstance(b, float) and abs(a - b) <= 1e-12 * max(1.0, abs(a))):
                        yield env
                elif a == b:
                    yield env
            return
        if k == 'sym':
            # a bare symbol: named constant from the table, else matches a const string
            if p[1] in self.consts:
                yield from self.m(('const', self.consts[p[1]]), d, env)
            return
        if not isinstance(d, tuple) or not d:
            return
        if k == 'P:or':
            for a in p[1:]:
                yield from self.m(a, d, env)
            return
        if k == 'P:and':
            def rec(i, e):
                if i == len(p):
                    yield e
                    return
                for e2 in self.m(p[i], d, e):
                    yield from rec(i + 1, e2)
            yield from rec(1, env)
            return
        if k == 'P:not':
            for _ in self.m(p[1], d, env):
                return
            yield env
            return
        if k == 'P:has':
            for s in subterms(d):
                yield from self.m(p[1], s, env)
            return
        if k == 'P:anyphi':
            alts = d[1:] if d[0] == 'phi' else (d,)
            for a in alts:
                yield from self.m(p[1], a, env)
            return
        if k == 'P:allphi':
            alts = d[1:] if d[0] == 'phi' else (d,)

            def rec(i, e):
                if i == len(alts):
                    yield e
                    return
                for e2 in self.m(p[1], alts[i], e):
                    yield from rec(i + 1, e2)
            yield from rec(0, env)
            return
        if k == 'P:phi':
            alts = d[1:] if d[0] == 'phi' else (d,)

            def rec(i, e):
                if i == len(p):
                    yield e
                    return
                for a in alts:
                    for e2 in self.m(p[i], a, e):
                        yield from rec(i + 1, e2)
            yield from rec(1, env)
            return
        if k == 'P:loop':
            if d[0] == 'loop':
                yield env
            return
        if k == 'P:param':
            # by position, by current name, or by the name the parameter had when the rules were written (a renamed parameter)
            if d[0] == 'param' and (str(d[1]) == p[1] or d[2] == p[1] or p[1] == '_' or (PARAM_ALIAS and PARAM_ALIAS.get(p[1]) == d[1] and p[1] not in PARAM_CURRENT)):
                yield env
            return
        if k == 'P:field':
            if d[0] == 'field' and (p[1] == '_' or d[1] == p[1]):
                yield from self.m(p[2], d[2], env)
            return
        if k == 'P:variant':
            if d[0] == 'variant' and (p[1] == '_' or d[1] == p[1]):
                yield from self.m(p[2], d[2], env)
            return
        if k == 'P:fn':
            if d[0] == 'fn' and name_match(p[1], d[1]):
                yield env
            return
        if k == 'P:call':
            if d[0] != 'call':
                return
            if isinstance(p[1], tuple):          # (call $f ..): bind / compare the callee name
                n = p[1][1]
                if n in env:
                    if env[n] != ('fn', d[1]):
                        return
                    yield from self.args(p[2:], d[2:], env)
                else:
                    e = dict(env)
                    e[n] = ('fn', d[1])
                    yield from self.args(p[2:], d[2:], e)
                return
            if name_match(p[1], d[1]):
                yield from self.args(p[2:], d[2:], env)
            return
        if k == 'P:closure':
            if d[0] == 'closure' and name_match(p[1], d[1]):
                yield from self.args(p[2:], d[2:], env)
            return
        if k == 'P:mut':
            if d[0] == 'mut' and name_match(p[1], d[1] or '') and (p[2] == '_' or p[2] == ('.'.join(d[2]) or '.')):
                yield from self.args(p[3:], d[3:], env)
            return
        if k == 'P:agg':
            if d[0] == 'agg' and name_match(p[1], d[1]):
                fields = dict(d[2:])

                def rec(i, e):
                    if i == len(p):
                        yield e
                        return
                    fn, fp = p[i]
                    if fn not in fields:
                        return
                    for e2 in self.m(fp, fields[fn], e):
                        yield from rec(i + 1, e2)
                yield from rec(2, env)
            return
        if k == 'P:op':
            op = p[1]
            if d[0] != op:
                return
            pa = p[2:]
            da = d[1:]
            if op == 'discr':
                da = da[:1]
            if op == 'itervar' and len(pa) == 1:
                da = da[:1]        # (itervar SRC) ignores the loop identity; (itervar SRC $id) binds it
            if op == 'loop':
                yield env
                return
            yield from self.args(pa, da, env)
            if op in COMMUTATIVE and len(pa) == 2 and len(da) == 2:
                yield from self.args((pa[1], pa[0]), da, env)
            return
        raise ValueError(f'unknown pattern node {p!r}')

    def args(self, ps, ds, env):
        if ps and ps[-1] == ('...',):
            ps = ps[:-1]
            if len(ds) < len(ps):
                return
            ds = ds[:len(ps)]
        if len(ps) != len(ds):
            return

        def rec(i, e):
            if i == len(ps):
                yield e
                return
            x = ds[i]
            if not isinstance(x, tuple):
                # raw python value inside a DAG node (e.g. cast type, path); compare to const pattern
                if ps[i] == ('_',) or (ps[i][0] in ('const', 'sym') and str(ps[i][1]) == str(x)):
                    yield from rec(i + 1, e)
                return
            for e2 in self.m(ps[i], x, e):
                yield from rec(i + 1, e2)
        yield from rec(0, env)


_cache = {}


def P(src):
    if src not in _cache:
        _cache[src] = parse(src)
    return _cache[src]


import math
DEFAULT = Matcher({'PI': math.pi, 'TAU': 2 * math.pi, 'FRAC_PI_2': math.pi / 2})


PARAM_ALIAS = None     # {name when the rules were written: position} for the function being analysed (rules/param_names.json), set by rules.Ctx
PARAM_CURRENT = ()     # the function's current parameter names: an old name is only an alias if no current parameter carries it
LIFTER = None        # d -> d with constructors distributed over phi alternatives (second fallback)
EXPANDER = None      # set by rules.Ctx: d -> d with pure crate-local helpers and value combinators inlined (vpa/inline.py)


def _pat_names(pp, acc):
    """callee names mentioned by a pattern (those helpers must not be inlined away before matching)"""
    if isinstance(pp, tuple):
        for x in pp:
            _pat_names(x, acc)
    elif isinstance(pp, str) and '::' in pp:
        acc.add(pp.lstrip('*'))
    return acc


_EXP_CACHE = {}
_NAMES_CACHE = {}


def _expanded(pp, d):
    if EXPANDER is None or not isinstance(d, tuple):
        return None
    keep = _NAMES_CACHE.get(id(pp))
    if keep is None:
        keep = _NAMES_CACHE[id(pp)] = tuple(sorted(_pat_names(pp, set())))
    key = (d, keep)
    if key in _EXP_CACHE:
        return _EXP_CACHE[key]
    try:
        d2 = EXPANDER(d, keep)
    except RecursionError:
        d2 = d
    r = d2 if d2 != d else None
    if len(_EXP_CACHE) > 200000:
        _EXP_CACHE.clear()
    _EXP_CACHE[key] = r
    return r


def match(pat, d, env=None):
    """match, and if that fails match again after inlining pure crate-local helpers the pattern does not itself mention
    (so that extracting a helper from an anchored function does not change the verdict)"""
    pp = P(pat) if isinstance(pat, str) else pat
    r = DEFAULT.match(pp, d, env)
    if r is None:
        d2 = _expanded(pp, d)
        if d2 is not None:
            r = DEFAULT.match(pp, d2, env)
    return r


def find(pat, d, env=None):
    """first subterm of d matching pat -> (subterm, env) or None"""
    pp = P(pat) if isinstance(pat, str) else pat
    for s in subterms(d):
        e = DEFAULT.match(pp, s, env)
        if e is not None:
            return s, e
    d2 = _expanded(pp, d)
    if d2 is not None:
        for s in subterms(d2):
            e = DEFAULT.match(pp, s, env)
            if e is not None:
                return s, e
        if LIFTER is not None:
            d3 = LIFTER(d2)
            if d3 != d2:
                for s in subterms(d3):
                    e = DEFAULT.match(pp, s, env)
                    if e is not None:
                        return s, e
    return None
