"""Generic rule families (DESIGN.md section 3). Each function takes the rule context `cx` and slots filled by a
per-property rule file, records obligations on cx, and returns what it found for further use."""
import re
from .core import simplify, show, name_match, subterms, Site, MUT_PROJ, _strip_generics
from .pattern import P, DEFAULT, match, find
from . import guards as G
from .pattern import match, find

GROW = {'Vec::push', 'Vec::extend', 'Vec::insert', 'Vec::append', 'Vec::extend_from_slice', 'Vec::resize', 'VecDeque::push_back',
        'HashSet::insert', 'HashMap::insert', 'Vec::push_within_capacity', 'VecDeque::push_front', 'HashSet::extend', 'HashMap::extend'}
SHRINK = {'Vec::pop', 'Vec::remove', 'Vec::swap_remove', 'Vec::clear', 'Vec::truncate', 'Vec::retain', 'Vec::dedup_by', 'Vec::dedup',
          'Vec::dedup_by_key', 'Vec::drain', 'HashSet::remove', 'HashSet::retain', 'HashMap::remove', 'HashSet::clear', 'HashMap::clear',
          'HashMap::retain', 'VecDeque::pop_front', 'VecDeque::pop_back', 'Vec::split_off', 'HashSet::take', 'HashSet::drain'}
REORDER = {'slice::reverse', 'slice::sort', 'slice::sort_by', 'slice::sort_unstable', 'slice::sort_unstable_by', 'slice::swap',
           'slice::shuffle', 'slice::sort_by_key', 'slice::rotate_left', 'slice::rotate_right'}
READONLY_THROUGH_MUT = {'IterMut::next', 'Iterator::next'}


def user_bodies(facts):
    return [b for b in facts.bodies.values() if not b.exp and '_serde' not in b.path and '::promoted[' not in b.path]


def adt_of_type(ty):
    """crate-local ADT path named by a (possibly reference) type string"""
    t = ty.strip()
    t = re.sub(r"^&(?:'\w+ )?(?:mut )?", '', t)
    return _strip_generics(t)


# ------------------------------------------------------------------------------------------------ write summaries

def write_summary(facts):
    """fn name -> set of (param index, path tuple, class) for writes through a param (transitive over crate-local calls)"""
    c = facts.__dict__.get('_wsum')
    if c is not None:
        return c
    summ = {}
    bodies = list(facts.bodies.values())
    for b in bodies:
        s = set()
        for m in b.mutations():
            if 1 <= m.root <= b.argc and is_mut_param(b, m.root):
                if m.kind == 'call' and m.raw and m.raw in facts.bodies:
                    continue        # handing the parameter to a crate-local callee: what is written is what the callee writes (propagated below)
                s.add((m.root, m.path, classify(m)))
        summ[b.path] = s
    # propagate: a call passing (alias of) param p to a local callee that writes its k-th param
    changed = True
    rounds = 0
    while changed and rounds < 8:
        changed = False
        rounds += 1
        for b in bodies:
            for m in b.mutations():
                if m.kind != 'call' or not (1 <= m.root <= b.argc) or not is_mut_param(b, m.root):
                    continue
                tgt = facts.bodies.get(m.raw) if m.raw else None
                if tgt is None:
                    continue
                # which callee param receives the alias?
                al = b.aliases()
                for ai, a in enumerate(m.args):
                    if a['k'] in ('copy', 'move') and b._resolve_place(a['pl'], al)[0] == m.root:
                        for (pi, path, cls) in list(summ.get(tgt.path, ())):
                            if pi == ai + 1:
                                item = (m.root, m.path + path, cls)
                                if item not in summ[b.path]:
                                    summ[b.path].add(item)
                                    changed = True
    facts.__dict__['_wsum'] = summ
    return summ


def is_mut_param(b, l):
    ty = b.local_ty(l)
    return ty.startswith('&mut') or ty.startswith("&'") and ' mut ' in ty.split('>')[0][:12]


def classify(m):
    if m.kind == 'store':
        return 'elem' if m.elem else 'assign'
    if m.callee in GROW:
        return 'grow'
    if m.callee in SHRINK:
        return 'shrink'
    if m.callee in REORDER:
        return 'reorder'
    if m.elem:
        return 'elem'
    return 'call'


def effective_mutations(cx, b, root):
    """mutations of `root` in b, with crate-local callees expanded to their write summary.
    -> list of (path, class, Mutation)"""
    facts = cx.facts
    summ = write_summary(facts)
    out = []
    for m in b.mutations():
        if m.root != root:
            continue
        if m.kind == 'call' and m.raw in facts.bodies:
            tgt = facts.bodies[m.raw]
            al = b.aliases()
            hit = False
            for ai, a in enumerate(m.args):
                if a['k'] in ('copy', 'move') and (a['pl']['l'] in al or a['pl']['l'] == root) and b._resolve_place(a['pl'], al)[0] == root:
                    for (pi, path, cls) in summ.get(tgt.path, ()):
                        if pi == ai + 1:
                            out.append((m.path + path, cls, m))
                            hit = True
            if not hit:
                pass  # callee takes &mut but never writes through it
            continue
        if m.kind == 'call' and m.callee in READONLY_THROUGH_MUT:
            continue
        out.append((m.path, classify(m), m))
    return out


# ------------------------------------------------------------------------------------------------ failure exits

def failure_sites(cx, b):
    """sites where the function's result becomes Err / None: [(bb, kind)]"""
    out = []
    for site, d in cx.rets(b):
        if d[0] == 'agg' and d[1].endswith(('Result::Err', 'Option::None')):
            out.append((site.bb, d[1].split('::')[-1], site))
        elif d[0] == 'residual':
            out.append((site.bb, 'residual', site))
    return out


def txn(cx, adts=None, floor=0, rule='TXN', skip=()):
    """TXN: no path  mutation of a &mut param of a crate ADT  ->  failure exit  (Result-returning fns)."""
    n = 0
    found = []
    for b in sorted(user_bodies(cx.facts), key=lambda x: x.name):
        rty = b.local_ty(0)
        if not rty.startswith('std::result::Result<'):
            continue
        for p in range(1, b.argc + 1):
            if not is_mut_param(b, p):
                continue
            adt = adt_of_type(b.local_ty(p))
            if adt not in cx.facts.adts:
                continue
            if adts and not name_match(adts, adt):
                continue
            muts = effective_mutations(cx, b, p)
            if not muts:
                continue
            if b.name in skip:
                continue
            n += 1
            fails = failure_sites(cx, b)
            cx.analysed_fns.add(b.name)
            bad = None
            for (path, cls, m) in muts:
                reach = b.reach_from(b.succ[m.bb])
                for (fb, kind, fsite) in fails:
                    if fb in reach or (fb == m.bb and kind != 'x' and _later_in_block(m, fsite)):
                        bad = (m, fsite, path)
                        break
                if bad:
                    break
            found.append(b.name)
            cx.ob(rule, f'{b.name}:{b.local_name(p) or p}', bad is None,
                  f'{b.name}: no failure return is reachable after a mutation of `{b.local_name(p)}` '
                  f'({len(muts)} mutation site(s), {len(fails)} failure exit(s))',
                  where=(Site(b, bad[0].bb, 0, 'mut', bad[0].data).span if bad else b.file),
                  found=(f'mutation of .{".".join(bad[2])} via {bad[0].callee or "store"} at {Site(b, bad[0].bb, 0, "m", bad[0].data).span} '
                         f'can reach the failure exit at {bad[1].span}') if bad else None)
    if floor:
        cx.floor(rule, 'crate', n, floor, 'Result-returning functions that mutate a &mut crate ADT')
    return found


def _later_in_block(m, fsite):
    mi = 10 ** 6 if m.idx == 'term' else m.idx
    return fsite.idx > mi


# ------------------------------------------------------------------------------------------------ COMUT

def comut_parallel(cx, adt, group, rule='COMUT', floor=0, optional_guard=True):
    """parallel arrays: a function that grows/shrinks/reorders/assigns one member of `group` does so for every member."""
    n = 0
    for b in sorted(user_bodies(cx.facts), key=lambda x: x.name):
        roots = []
        for p in range(1, b.argc + 1):
            if adt_of_type(b.local_ty(p)) == adt and (is_mut_param(b, p)):
                roots.append(p)
        for l, loc in enumerate(b.locals):
            if l > b.argc and adt_of_type(loc['ty']) == adt and not loc['ty'].startswith('&'):
                roots.append(l)
        for root in roots:
            muts = [(path, cls, m) for (path, cls, m) in effective_mutations(cx, b, root) if path and path[0] in group]
            if not muts:
                continue
            classes = {}
            for path, cls, m in muts:
                if cls in ('elem', 'call'):
                    cls = 'elem'
                classes.setdefault(cls, {}).setdefault(path[0], []).append(m)
            for cls, bymember in sorted(classes.items()):
                n += 1
                missing = [g for g in group if g not in bymember]
                cx.analysed_fns.add(b.name)
                if cls == 'elem':
                    # element-wise rewrite (e.g. transform): members of a different nature may legitimately be untouched
                    continue
                cx.ob(rule, f'{adt}:{b.name}:{cls}', not missing,
                      f'{b.name}: `{cls}` write on {{{", ".join(sorted(bymember))}}} of {adt.split("::")[-1]} is matched on every member of the group {{{", ".join(group)}}}',
                      where=b.file, found=f'no `{cls}` write on: {", ".join(missing)}' if missing else None)
    if floor:
        cx.floor(rule, adt, n, floor, f'(function, write class) pairs on the parallel arrays of {adt}')


# ------------------------------------------------------------------------------------------------ ENC

MUT_HANDOUT_TRAITS = ('std::ops::DerefMut', 'std::ops::IndexMut', 'std::convert::AsMut', 'std::borrow::BorrowMut')


def enc(cx, adt, fields, constructors, rule='ENC', allow_pub=(), allow_mut_return=()):
    """encapsulation of invariant-carrying fields of `adt`."""
    a = cx.adt(adt)
    if a is None:
        return
    short = adt.split('::')[-1]
    fl = {f['name']: f for v in a['variants'] for f in v['fields']}
    for f in fields:
        if f not in fl:
            cx.ob(rule, f'{adt}.{f}:exists', False, f'field {short}.{f} no longer exists (anchor changed)')
            continue
        if f in allow_pub:
            continue
        cx.ob(rule, f'{adt}.{f}:private', fl[f]['vis'].startswith('Restricted'), f'field {short}.{f} is not visible outside its module',
              where=a['span']['file'] + ':' + str(a['span']['line']), found=fl[f]['vis'])
    # (c) no mutable hand-out traits
    bad = [i for i in cx.facts.impls if _strip_generics(i['self']).lstrip('&') == adt and i['trait'] and _strip_generics(i['trait']) in MUT_HANDOUT_TRAITS]
    cx.ob(rule, f'{adt}:no-mut-traits', not bad, f'{short} implements none of DerefMut/IndexMut/AsMut/BorrowMut',
          found=', '.join(i['trait'] for i in bad) if bad else None)
    # (b) no function hands out &mut into the type
    offenders = []
    for b in user_bodies(cx.facts):
        if b.kind == 'Closure':
            continue
        rty = b.local_ty(0)
        if '&mut' not in rty and 'IterMut' not in rty:
            continue
        for p in range(1, b.argc + 1):
            if adt_of_type(b.local_ty(p)) == adt and is_mut_param(b, p) and b.name not in allow_mut_return:
                offenders.append(b.name)
    cx.ob(rule, f'{adt}:no-mut-handout', not offenders, f'no function takes &mut {short} and returns a mutable reference',
          found=', '.join(offenders) if offenders else None)
    # (d) construction sites
    sites = []
    for b in user_bodies(cx.facts):
        for s in b.aggregates(adt):
            sites.append((b.name, s))
    names = sorted({n for n, _ in sites})
    extra = [n for n in names if not name_match(constructors, n)]
    cx.ob(rule, f'{adt}:constructors', not extra,
          f'{short} is built (outside derives) only in: {", ".join(names) or "-"}', found=('UNAUDITED-CONSTRUCTOR ' + ', '.join(extra)) if extra else None,
          expected=', '.join(constructors))
    missing = [c for c in constructors if not any(name_match(c, n) for n in names)]
    if missing:
        cx.ob(rule, f'{adt}:constructors-present', False, f'listed constructor(s) of {short} no longer build it directly: {", ".join(missing)} (anchor changed)')
    # writers of the fields after construction
    return sites


def field_writers(cx, adt, fields, direct=False):
    """functions (non-derive) that write one of `fields` through a &mut param/local of type adt -> {fn: set(fields)}
    direct=True: only stores and foreign mutator calls in the function itself (not writes done by crate-local callees)"""
    out = {}
    for b in user_bodies(cx.facts):
        roots = [p for p in range(1, b.argc + 1) if adt_of_type(b.local_ty(p)) == adt and is_mut_param(b, p)]
        for l, loc in enumerate(b.locals):
            if l > b.argc and adt_of_type(loc['ty']) == adt and not loc['ty'].startswith('&'):
                roots.append(l)
        for r in roots:
            for (path, cls, m) in effective_mutations(cx, b, r):
                if direct and m.kind == 'call' and m.raw in cx.facts.bodies:
                    continue
                if path and path[0] in fields:
                    out.setdefault(b.name, set()).add(path[0])
                elif not path and m.kind == 'call':
                    out.setdefault(b.name, set()).add('*')
    return out


def nested_field_writers(cx, adt, fields):
    """writes to `fields` of a value of type adt that is reached THROUGH fields of other crate types (e.g. `self.circle.center = ..` in a struct holding
    a Circle2): {fn: set(dotted paths)}. The path is typed by walking the crate's struct definitions from the root local's type."""
    out = {}

    def field_ty(ty, name):
        a = cx.facts.adt(adt_of_type(ty) or '')
        if not a or len(a['variants']) != 1:
            return None
        for f in a['variants'][0]['fields']:
            if f['name'] == name:
                return f['ty']
        return None
    for b in user_bodies(cx.facts):
        for m in b.mutations():
            if not m.path or len(m.path) < 2:
                continue
            ty = b.local_ty(m.root) if m.root < len(b.locals) else None
            for k, nm in enumerate(m.path):
                if ty is None:
                    break
                if k >= 1 and adt_of_type(ty) == adt and nm in fields:
                    out.setdefault(b.name, set()).add('.'.join(str(x) for x in m.path[:k + 1]))
                    break
                ty = field_ty(ty, nm)
    return out


def immutable_after_construction(cx, adt, fields, rule='ENC', allow=()):
    w = field_writers(cx, adt, fields)
    bad = {k: v for k, v in w.items() if not name_match(allow, k)} if allow else w
    short = adt.split('::')[-1]
    cx.ob(rule, f'{adt}:{"+".join(fields)}:immutable', not bad,
          f'no function writes {short}.{{{", ".join(fields)}}} after construction' + (f' (allowed: {", ".join(allow)})' if allow else ''),
          found='; '.join(f'{k} writes {sorted(v)}' for k, v in sorted(bad.items())) if bad else None)
    return w


# ------------------------------------------------------------------------------------------------ MEMO

def memo(cx, adt, cache_field, rule='MEMO', floor=1):
    """memo-key completeness for every function that looks `self.<cache_field>` up or stores into it (discovered, not listed)."""
    n = 0
    for b in sorted(user_bodies(cx.facts), key=lambda x: x.name):
        if b.argc < 1 or adt_of_type(b.local_ty(1)) != adt:
            continue
        looks = any(match(f'(field {cache_field} (param self))', cx.arg(s, 0)) is not None for s in b.calls('HashMap::get'))
        stores = [s for s in b.calls('HashMap::insert') if find(f'(field {cache_field} (has (param self)))', cx.arg(s, 0)) is not None]
        if looks:
            n += 1
            cx.analysed_fns.add(b.name)
            memo_fn(cx, b.name, adt, cache_field, rule)
        elif stores:
            cx.analysed_fns.add(b.name)
            memo_store_only(cx, b, stores, adt, cache_field, rule)
    cx.floor(rule, f'{adt}.{cache_field}', n, floor, f'functions consulting the memo {adt.split("::")[-1]}.{cache_field}')


def memo_store_only(cx, b, stores, adt, cache_field, rule):
    """a function that writes the memo without consulting it: the stored value and every branch on the way to the store may
    depend only on the key and on immutable state (otherwise a later lookup returns a verdict computed for someone else)."""
    from .core import leaves
    short = b.name.split('::')[-1]
    for s in stores:
        k, v = cx.arg(s, 1), cx.arg(s, 2)
        back = set()
        work = [s.bb]
        while work:
            x = work.pop()
            if x in back:
                continue
            back.add(x)
            work.extend(b.pred[x])
        lv = set(leaves(v))
        for bi in sorted(back):
            t = b.blocks[bi]['term']
            if t['k'] == 'switch':
                # only branches that can also avoid the store decide whether it happens
                if any(x not in back for x in b.succ[bi]) or True:
                    c = simplify(b.dag().operand(t['d'], bi, len(b.blocks[bi]['stmts'])))
                    lv |= set(leaves(c))
        keyl = set(leaves(k))
        params = {l for l in lv if l[0] == 'param' and l[1] != 1}
        extra = sorted(p[2] for p in params if p not in keyl)
        cx.ob(rule, f'{b.name}:store-covers-inputs', not extra,
              f'{short}: a value written into self.{cache_field} (and the branches deciding the write) depends only on the key `{show(k)}` and on immutable state',
              where=s, found=('the write depends on parameter(s) ' + ', '.join(extra) + ' which are not in the key') if extra else None)


def memo_fn(cx, fname, adt, cache_field, rule='MEMO'):
    """memo-key completeness: everything the memoised value (and the branches selecting it) depends on is either part of
    the key or state of `self` that no function writes after construction."""
    from .core import leaves
    b = cx.fn(fname)
    if b is None:
        return
    short = fname.split('::')[-1]
    gets = [s for s in b.calls('HashMap::get') if match(f'(field {cache_field} (param self))', cx.arg(s, 0)) is not None]
    cx.ob(rule, f'{fname}:lookup', len(gets) == 1, f'{short} consults self.{cache_field} once', found=str(len(gets)))
    if len(gets) != 1:
        return
    key = cx.arg(gets[0], 1)
    stores = []
    for s in b.calls('HashMap::insert'):
        if find(f'(field {cache_field} (param self))', cx.arg(s, 0)) is not None:
            stores.append((s, cx.arg(s, 1), cx.arg(s, 2)))
    for s in b.calls('*'):
        name, raw = b.callee(s.data)
        h = cx.facts.bodies.get(raw) if raw else None
        if h is None or h.path == b.path:
            continue
        for hs in h.calls('HashMap::insert'):
            a0, a1, a2 = cx.arg(hs, 0), cx.arg(hs, 1), cx.arg(hs, 2)
            if match(f'(field {cache_field} (param 1))', a0) is not None and a1[0] == 'param' and a2[0] == 'param' \
                    and match('(param 1)', cx.arg(s, 0)) is not None:
                stores.append((s, cx.arg(s, a1[1] - 1), cx.arg(s, a2[1] - 1)))
    cx.ob(rule, f'{fname}:store', len(stores) >= 1, f'{short} stores its verdict into self.{cache_field} ({len(stores)} site(s))')
    # fields of self that some function writes after construction
    w = field_writers(cx, adt, tuple(f['name'] for v in cx.facts.adts[adt]['variants'] for f in v['fields']))
    mutable = set()
    for fn, fs in w.items():
        mutable |= fs
    mutable.discard(cache_field)
    miss = gets[0].data['t']
    for (s, k, v) in stores:
        cx.ob(rule, f'{fname}:same-key', k == key, f'{short}: the verdict is stored under the key that was looked up', where=s, found=k)
        fwd = b.reach_from([miss])
        back = set()
        work = [s.bb]
        while work:
            x = work.pop()
            if x in back:
                continue
            back.add(x)
            work.extend(b.pred[x])
        region = fwd & back
        lv = set(leaves(v))
        for bi in sorted(region):
            t = b.blocks[bi]['term']
            if t['k'] == 'switch' and bi != gets[0].data['t'] and len([x for x in b.succ[bi] if x in region or x == s.bb]) > 0:
                c = simplify(b.dag().operand(t['d'], bi, len(b.blocks[bi]['stmts'])))
                if find(f'(call HashMap::get (field {cache_field} (param self)) _)', c) is not None:
                    continue
                lv |= set(leaves(c))
        keyl = set(leaves(key))
        params = {l for l in lv if l[0] == 'param' and l[1] != 1}
        extra = sorted(p[2] for p in params if p not in keyl)
        cx.ob(rule, f'{fname}:key-covers-inputs', not extra,
              f'{short}: every parameter the cached verdict (or a branch selecting it) depends on is part of the memo key `{show(key)}`',
              where=s, found=('the verdict depends on parameter(s) ' + ', '.join(extra) + ' which are not in the key: the first caller decides the answer for all later ones') if extra else None)
        selff = sorted({l[1] for l in lv if l[0] == 'field' and l[2][0] == 'param' and l[2][1] == 1})
        badf = [f for f in selff if f in mutable or '*' in mutable]
        cx.ob(rule, f'{fname}:state-immutable', not badf,
              f'{short}: the state of self read by the verdict ({", ".join(selff)}) is never written after construction',
              where=s, found=', '.join(badf) if badf else None)


# ------------------------------------------------------------------------------------------------ PARAMUSE

def _ops_of_rvalue(rv):
    out = []
    for k in ('a', 'b'):
        if k in rv and isinstance(rv[k], dict):
            out.append(rv[k])
    if 'pl' in rv:
        out.append({'k': 'copy', 'pl': rv['pl']})
    out.extend(rv.get('ops', ()))
    return out


def _locals_of_op(o):
    if o.get('k') in ('copy', 'move'):
        yield o['pl']['l']
        for e in o['pl']['p']:
            if isinstance(e, dict) and 'idx' in e:
                yield e['idx']


def param_influences(b, p):
    """does parameter local p influence the returned value: by data flow into _0, into a value written through a &mut
    argument, or by deciding a branch?  -> (bool, how)"""
    tainted = {p}
    how = None
    changed = True
    al = b.aliases()
    while changed:
        changed = False
        for bi in b.live:
            if bi not in b.reachable():
                continue
            blk = b.blocks[bi]
            for s in blk['stmts']:
                used = set()
                for o in _ops_of_rvalue(s['rv']):
                    used |= set(_locals_of_op(o))
                if used & tainted:
                    tgt = s['pl']['l']
                    root = b._resolve_place(s['pl'], al)[0]
                    for t in (tgt, root):
                        if t not in tainted:
                            tainted.add(t)
                            changed = True
            t = blk['term']
            if t['k'] == 'call':
                used = set()
                for a in t['args']:
                    used |= set(_locals_of_op(a))
                if used & tainted:
                    new = {t['dest']['l']}
                    for a in t['args']:
                        if a['k'] in ('copy', 'move') and a['pl']['l'] in al:
                            new.add(b._resolve_place(a['pl'], al)[0])
                    for x in new:
                        if x not in tainted:
                            tainted.add(x)
                            changed = True
            elif t['k'] == 'switch':
                if set(_locals_of_op(t['d'])) & tainted:
                    return True, f'decides the branch at bb{bi}'
    if 0 in tainted:
        return True, 'flows into the return value'
    return False, 'never reaches the return value or a branch condition'


def paramuse(cx, trait_method_glob, pname, rule='PARAMUSE', floor=1):
    """every implementation of the trait method depends on its parameter `pname`"""
    n = 0
    for b in sorted(user_bodies(cx.facts), key=lambda x: x.name):
        if b.kind != 'AssocFn' or not b.impl_trait or not name_match(trait_method_glob, b.name):
            continue
        # parameter by position: find by name with or without the underscore
        idx = None
        for i in range(1, b.argc + 1):
            nm = b.local_name(i) or ''
            if nm.lstrip('_') == pname:
                idx = i
        n += 1
        cx.analysed_fns.add(b.name)
        if idx is None:
            cx.ob(rule, f'{b.name}:{pname}', False, f'{b.name}: parameter `{pname}` is not bound at all (ignored)', where=b.file)
            continue
        ok, how = param_influences(b, idx)
        cx.ob(rule, f'{b.name}:{pname}', ok, f'{b.name}: the result depends on `{pname}` ({how})', where=b.file, found=None if ok else how)
    cx.floor(rule, f'{trait_method_glob}:{pname}', n, floor, f'implementations of {trait_method_glob}')


# ------------------------------------------------------------------------------------------------ POSDOT

def _consumers(b, l, seen=None):
    """statements / terminators that read local l (through whole-local copies) -> [(kind, bb, idx, payload, local read)]"""
    seen = seen if seen is not None else set()
    if l in seen:
        return []
    seen.add(l)
    out = []
    for bi in b.live:
        blk = b.blocks[bi]
        for si, s in enumerate(blk['stmts']):
            rv = s['rv']
            if l not in [x for o in _ops_of_rvalue(rv) for x in _locals_of_op(o)]:
                continue
            if rv['k'] == 'use' and not s['pl']['p']:
                out += _consumers(b, s['pl']['l'], seen)
            else:
                out.append(('stmt', bi, si, s, l))
        t = blk['term']
        if t['k'] == 'call' and l in [x for o in t['args'] for x in _locals_of_op(o)]:
            out.append(('call', bi, len(blk['stmts']), t, l))
        if t['k'] == 'switch' and l in list(_locals_of_op(t['d'])):
            out.append(('switch', bi, len(blk['stmts']), t, l))
    return out


def posdot(cx, rule='POSDOT', floor=0):
    """A position (the coordinates of a stored / given point) may enter a dot product with a direction only as part of a DIFFERENCE
    of projections along that same direction: n.p - n.q (compared or subtracted), n.p - d with d the offset stored with the same
    n, or as that offset d = n.p itself. A lone n.p compared with a constant depends on where the origin is."""
    from .core import simplify, show
    from .pattern import match, find
    n = 0
    for b in user_bodies(cx.facts):
        dag = None
        for s in b.calls('Matrix::dot'):
            d = cx.call(s)
            e = match('(call Matrix::dot $dir (field coords $p))', d) or match('(call Matrix::dot (field coords $p) $dir)', d)
            if e is None:
                continue
            base = e['p']
            if base[0] == 'call' and base[1] in ('Matrix::mul', 'Matrix::add', 'Matrix::sub', 'OPoint::from'):
                continue        # a computed quantity typed as a point by nalgebra (matrix derivative applied to an offset): not decided
            n += 1
            k_in_fn = sum(1 for o in cx.obs if o.key.startswith(f'{cx.prop}:{rule}:{b.name}#'))
            dag = dag or b.dag()
            dirn = e['dir']
            dest = s.data['dest']['l']
            cons = _consumers(b, dest)
            ok = bool(cons)
            why = []
            for kind, bi, si, pay, lread in cons:
                good = False
                if kind == 'stmt' and pay['rv']['k'] == 'bin' and pay['rv']['op'] in ('Sub', 'Lt', 'Le', 'Gt', 'Ge'):
                    rv = pay['rv']
                    others = [o for o in (rv['a'], rv['b']) if lread not in list(_locals_of_op(o))]
                    if len(others) == 1:
                        x = simplify(dag.operand(others[0], bi, si))
                        e2 = match('(call Matrix::dot $dir (field coords _))', x, {'dir': dirn}) or match('(call Matrix::dot (field coords _) $dir)', x, {'dir': dirn})
                        if e2 is not None:
                            good = True
                        elif rv['op'] == 'Sub' and match('(field normal $b)', dirn) is not None and match('(field d $b)', x, match('(field normal $b)', dirn)) is not None:
                            good = True
                        elif rv['op'] != 'Sub' and x[0] == 'phi' and all(a[0] == 'loop' or (a[0] == 'const' and isinstance(a[1], float) and abs(a[1]) > 1e300) for a in x[1:]):
                            # running extremum: the carried value is only ever assigned from this projection
                            carried = [a for a in x[1:] if a[0] == 'loop']
                            good = True
                            for a in carried:
                                cl, h = a[1], a[2]
                                for (dbi, dsi, dk, dp) in b.defs().get(cl, []):
                                    if dbi in b.loop_blocks(h):
                                        if not (dk == 'assign' and dp['rv']['k'] == 'use' and dest in list(_locals_of_op(dp['rv']['a'])) or
                                                (dk == 'assign' and dp['rv']['k'] == 'use' and any(c[3] is dp for c in cons))):
                                            srcs = list(_locals_of_op(dp['rv'].get('a', {}))) if dk == 'assign' and dp['rv']['k'] == 'use' else []
                                            if not srcs or not all(_is_copy_of(b, x_, dest) for x_ in srcs):
                                                good = False
                elif kind == 'call':
                    nm, raw = b.callee(pay)
                    if nm.endswith('Plane3::new') and len(pay['args']) == 2:
                        a0 = simplify(dag.operand(pay['args'][0], bi, si))
                        good = (a0 == dirn) and lread in list(_locals_of_op(pay['args'][1]))
                elif kind == 'stmt' and pay['rv']['k'] == 'use':
                    # assignment to a projected place (e.g. the running extremum variable); handled through the comparison
                    good = True
                if not good:
                    why.append(f'{kind} at {b.file}')
                ok = ok and good
            cx.ob(rule, f'{b.name}#{k_in_fn}', ok,
                  f'{b.name}: the projection of position {show(base)[:80]} on a direction is only used in a difference of projections along the same '
                  'direction (or as the plane offset stored with that normal); alone it depends on where the origin is',
                  where=s, found=None if ok else show(d)[:300])
    cx.floor(rule, 'position-projection-sites', n, floor, 'dot products of a direction with the coordinates of a stored / given position')


def _is_copy_of(b, l, src, depth=0):
    if l == src:
        return True
    if depth > 6:
        return False
    ds = b.defs().get(l, [])
    return bool(ds) and all(dk == 'assign' and dp['rv']['k'] == 'use' and not dp['pl']['p'] and
                            all(_is_copy_of(b, x, src, depth + 1) for x in _locals_of_op(dp['rv']['a'])) for (_, _, dk, dp) in ds)
