"""MIR-level inlining of helpers that did not exist when the rules were written.

A maintainer who extracts a few lines (or a whole loop) of an anchored function into a new private helper does not change behaviour, but
every rule about the anchored function would now have to look through a call. Instead the call is undone on the facts: a crate-local
function whose name is not in rules/param_names.json (the names that existed when the rules were written), that is not a closure and not
recursive, is spliced into each of its callers - parameters become locals assigned from the arguments, `return` becomes an assignment to
the call's destination followed by a jump to its continuation. Nothing changes on a tree without new helpers.
"""
import copy
import json
import os

MAX_BLOCKS = 80
MAX_ROUNDS = 3


def _known_names():
    p = os.path.join(os.path.dirname(os.path.dirname(os.path.abspath(__file__))), 'rules', 'param_names.json')
    try:
        with open(p) as fh:
            return set(json.load(fh))
    except OSError:
        return None


def _shift(x, ol, ob):
    """deep copy of a statement / terminator / operand with locals shifted by ol and block ids by ob"""
    if isinstance(x, dict):
        out = {}
        for k, v in x.items():
            if k == 'l' and isinstance(v, int) and 'p' in x:
                out[k] = v + ol
            elif k == 'idx' and isinstance(v, int):
                out[k] = v + ol
            elif k in ('t', 'else') and x.get('k') in ('goto', 'drop', 'assert', 'call', 'switch', 'yield', 'falseedge'):
                if isinstance(v, int):
                    out[k] = v + ob if v >= 0 else v
                elif isinstance(v, list):
                    out[k] = [[a, b + ob] for a, b in v]
                else:
                    out[k] = v
            else:
                out[k] = _shift(v, ol, ob)
        return out
    if isinstance(x, list):
        return [_shift(v, ol, ob) for v in x]
    return x


def _callee_path(t):
    f = t.get('f', {}).get('fn') if isinstance(t.get('f'), dict) else None
    if not f:
        return None
    return f.get('res') or f.get('path')


def inline_new_helpers(d, short_name):
    """d: the facts dict (modified in place). short_name(path) -> the rules' name of a body."""
    known = _known_names()
    if not known:
        return []
    bodies = {b['path']: b for b in d['bodies']}
    new = {}
    for p, b in bodies.items():
        if b['kind'] not in ('Fn', 'AssocFn') or '{closure' in p or 'promoted' in p:
            continue
        if short_name(p) in known:
            continue
        if len(b['blocks']) > MAX_BLOCKS:
            continue
        if any(blk['term']['k'] == 'call' and _callee_path(blk['term']) == p for blk in b['blocks']):
            continue            # recursive
        new[p] = b
    if not new:
        return []
    done = []
    for _ in range(MAX_ROUNDS):
        changed = False
        for p, c in bodies.items():
            for bi in range(len(c['blocks'])):
                t = c['blocks'][bi]['term']
                if t['k'] != 'call':
                    continue
                hp = _callee_path(t)
                h = new.get(hp)
                if h is None or h is c or len(t.get('args', ())) != h['argc']:
                    continue
                ol, ob = len(c['locals']), len(c['blocks'])
                c['locals'].extend(copy.deepcopy(h['locals']))
                glue = ob + len(h['blocks'])
                for hb in h['blocks']:
                    nb = _shift(hb, ol, ob)
                    if nb['term']['k'] == 'return':
                        nb['stmts'] = list(nb['stmts']) + [{'pl': t['dest'], 'rv': {'k': 'use', 'a': {'k': 'move', 'pl': {'l': ol, 'p': []}}}, 'sp': t.get('sp')}]
                        nb['term'] = {'k': 'goto', 't': t['t']} if t.get('t', -1) is not None and t.get('t', -1) >= 0 else {'k': 'unreachable'}
                    c['blocks'].append(nb)
                c['blocks'].append({'cleanup': False,
                                    'stmts': [{'pl': {'l': ol + k + 1, 'p': []}, 'rv': {'k': 'use', 'a': a}, 'sp': t.get('sp')} for k, a in enumerate(t['args'])],
                                    'term': {'k': 'goto', 't': ob}})
                c['blocks'][bi]['term'] = {'k': 'goto', 't': glue}
                c.setdefault('inlined_params', []).extend(ol + k + 1 for k in range(h['argc']))
                done.append((p, hp))
                changed = True
        if not changed:
            break
    return done
