"""MIR-level inlining of helpers that did not exist when the rules were written.

A maintainer who extracts a few lines (or a whole loop) of an anchored function into a new private helper does not change behaviour, but
every rule about the anchored function would now have to look through a call. Instead the call is undone on the facts: a crate-local
function whose name is not in rules/param_names.json (the names that existed when the rules were written), that is not a closure and not
recursive, is spliced into each of its callers - parameters become locals assigned from the arguments, `return` becomes an assignment to
the call's destination followed by a jump to its continuation. Nothing changes on a tree without new helpers.
"""
import copy
import json
import os

MAX_BLOCKS = 80
MAX_ROUNDS = 3


def _known_names():
    p = os.path.join(os.path.dirname(os.path.dirname(os.path.abspath(__file__))), 'rules', 'param_names.json')
    try:
        with open(p) as fh:
            return set(json.load(fh))
    except OSError:
        return None


def _shift(x, ol, ob):
    """deep copy of a statement / terminator / operand with locals shifted by ol and block ids by ob"""
    if isinstance(x, dict):
        out = {}
        for k, v in x.items():
            if k == 'l' and isinstance(v, int) and 'p' in x:
                out[k] = v + ol
            elif k == 'idx' and isinstance(v, int):
                out[k] = v + ol
            elif k in ('t', 'else') and x.get('k') in ('goto', 'drop', 'assert', 'call', 'switch', 'yield', 'falseedge'):
                if isinstance(v, int):
                    out[k] = v + ob if v >= 0 else v
                elif isinstance(v, list):
                    out[k] = [[a, b + ob] for a, b in v]
                else:
                    out[k] = v
            else:
                out[k] = _shift(v, ol, ob)
        return out
    if isinstance(x, list):
        return [_shift(v, ol, ob) for v in x]
    return x


def _callee_path(t):
    f = t.get('f', {}).get('fn') if isinstance(t.get('f'), dict) else None
    if not f:
        return None
    return f.get('res') or f.get('path')


def inline_new_helpers(d, short_name):
    """d: the facts dict (modified in place). short_name(path) -> the rules' name of a body."""
    known = _known_names()
    if not known:
        return []
    bodies = {b['path']: b for b in d['bodies']}
    new = {}
    for p, b in bodies.items():
        if b['kind'] not in ('Fn', 'AssocFn') or '{closure' in p or 'promoted' in p:
            continue
        if short_name(p) in known:
            continue
        if len(b['blocks']) > MAX_BLOCKS:
            continue
        if any(blk['term']['k'] == 'call' and _callee_path(blk['term']) == p for blk in b['blocks']):
            continue            # recursive
        new[p] = b
    if not new:
        return []
    done = []
    for _ in range(MAX_ROUNDS):
        changed = False
        for p, c in bodies.items():
            for bi in range(len(c['blocks'])):
                t = c['blocks'][bi]['term']
                if t['k'] != 'call':
                    continue
                hp = _callee_path(t)
                h = new.get(hp)
                if h is None or h is c or len(t.get('args', ())) != h['argc']:
                    continue
                ol, ob = len(c['locals']), len(c['blocks'])
                c['locals'].extend(copy.deepcopy(h['locals']))
                glue = ob + len(h['blocks'])
                for hb in h['blocks']:
                    nb = _shift(hb, ol, ob)
                    if nb['term']['k'] == 'return':
                        nb['stmts'] = list(nb['stmts']) + [{'pl': t['dest'], 'rv': {'k': 'use', 'a': {'k': 'move', 'pl': {'l': ol, 'p': []}}}, 'sp': t.get('sp')}]
                        nb['term'] = {'k': 'goto', 't': t['t']} if t.get('t', -1) is not None and t.get('t', -1) >= 0 else {'k': 'unreachable'}
                    c['blocks'].append(nb)
                c['blocks'].append({'cleanup': False,
                                    'stmts': [{'pl': {'l': ol + k + 1, 'p': []}, 'rv': {'k': 'use', 'a': a}, 'sp': t.get('sp')} for k, a in enumerate(t['args'])],
                                    'term': {'k': 'goto', 't': ob}})
                c['blocks'][bi]['term'] = {'k': 'goto', 't': glue}
                c.setdefault('inlined_params', []).extend(ol + k + 1 for k in range(h['argc']))
                done.append((p, hp))
                changed = True
        if not changed:
            break
    return done


# ---------------------------------------------------------------------------------------------------------------------------------
# `iter.for_each(|x| body)`  ->  the MIR of  `for x in iter { body }`
#
# A for_each whose closure writes through a captured `&mut` is the same loop as the `for` form, but its stores, calls and pushes live in
# another body, where no rule about the enclosing function sees them.  The call is undone on the facts: a loop header calling
# Iterator::next on the iterator argument, the Option dispatch, and the closure body spliced in with its captures replaced by the operands of
# the closure aggregate and its argument by the Some payload - block for block what rustc emits for the `for` loop.
def _closure_def(c, local):
    found = None
    for blk in c['blocks']:
        for s in blk['stmts']:
            if s['pl']['l'] == local and not s['pl']['p']:
                if found is not None:
                    return None
                found = s
    if found is None or found['rv'].get('k') != 'agg' or found['rv'].get('ak') != 'closure':
        return None
    return found


def _subst_captures(x, env_local, caps, by_ref):
    """rewrite places rooted in the closure environment (`(*_1).k` or `_1.k`) into the captured operand's place"""
    if isinstance(x, dict):
        if 'l' in x and 'p' in x and isinstance(x['p'], list) and x['l'] == env_local:
            p = x['p']
            i = 0
            if by_ref and p and p[0] == 'deref':
                i = 1
            if len(p) > i and isinstance(p[i], dict) and 'f' in p[i] and p[i]['f'] < len(caps) and caps[p[i]['f']] is not None:
                cap = caps[p[i]['f']]
                return {**x, 'l': cap['l'], 'p': list(cap['p']) + [_subst_captures(e, env_local, caps, by_ref) for e in p[i + 1:]]}
            return None         # the environment used as a whole: give up (caller checks for None)
        out = {}
        for k, v in x.items():
            nv = _subst_captures(v, env_local, caps, by_ref)
            if nv is None and v is not None:
                return None
            out[k] = nv
        return out
    if isinstance(x, list):
        out = []
        for v in x:
            nv = _subst_captures(v, env_local, caps, by_ref)
            if nv is None and v is not None:
                return None
            out.append(nv)
        return out
    return x


def _next_fn(item_ty, iter_ty):
    return {'k': 'const', 'ty': f'fn(&mut {iter_ty}) -> Option<{item_ty}> {{Iterator::next}}',
            'fn': {'path': 'std::iter::Iterator::next', 'full': f'<{iter_ty} as std::iter::Iterator>::next', 'res': f'<{iter_ty} as std::iter::Iterator>::next',
                   'trait': 'std::iter::Iterator', 'arg0': iter_ty, 'local': False, 'res_local': False}}


def desugar_for_each(d):
    bodies = {b['path']: b for b in d['bodies']}
    done = []
    for p, c in list(bodies.items()):
        for bi in range(len(c['blocks'])):
            t = c['blocks'][bi]['term']
            if t['k'] != 'call' or ((t.get('f') or {}).get('fn') or {}).get('path') != 'std::iter::Iterator::for_each' or len(t.get('args', ())) != 2:
                continue
            it, cl = t['args']
            if it['k'] != 'move' or it['pl']['p'] or cl['k'] != 'move' or cl['pl']['p']:
                continue
            if t.get('t') is None or t.get('t', -1) < 0:
                continue
            agg = _closure_def(c, cl['pl']['l'])
            h = bodies.get(agg['rv'].get('def')) if agg else None
            if h is None or h['argc'] != 2 or len(h['blocks']) > MAX_BLOCKS:
                continue
            caps = [o['pl'] if o['k'] in ('copy', 'move') else None for o in agg['rv']['ops']]
            env_ty = h['locals'][1]['ty']
            by_ref = env_ty.startswith('&')
            ol, ob = len(c['locals']), len(c['blocks'])
            blocks = []
            ok = True
            for hb in h['blocks']:
                nb = _subst_captures(_shift(hb, ol, ob), ol + 1, caps, by_ref)
                if nb is None:
                    ok = False
                    break
                blocks.append(nb)
            if not ok:
                continue
            n = len(h['blocks'])
            H, S, B, U = ob + n, ob + n + 1, ob + n + 2, ob + n + 3
            item_ty = h['locals'][2]['ty']
            iter_ty = c['locals'][it['pl']['l']]['ty']
            c['locals'].extend(copy.deepcopy(h['locals']))
            base = len(c['locals'])
            l_iter, l_ref, l_opt, l_d = base, base + 1, base + 2, base + 3
            c['locals'].extend([{'ty': iter_ty, 'n': 'iter'}, {'ty': f'&mut {iter_ty}', 'n': None},
                                {'ty': f'std::option::Option<{item_ty}>', 'n': None}, {'ty': 'isize', 'n': None}])
            sp = t.get('sp')
            for nb in blocks:
                if nb['term']['k'] == 'return':
                    nb['term'] = {'k': 'goto', 't': H}
                c['blocks'].append(nb)
            c['blocks'].append({'cleanup': False,
                                'stmts': [{'pl': {'l': l_ref, 'p': []}, 'rv': {'k': 'ref', 'mut': True, 'pl': {'l': l_iter, 'p': []}}, 'sp': sp}],
                                'term': {'k': 'call', 'f': _next_fn(item_ty, iter_ty), 'args': [{'k': 'move', 'pl': {'l': l_ref, 'p': []}}],
                                         'dest': {'l': l_opt, 'p': []}, 't': S, 'sp': sp}})
            c['blocks'].append({'cleanup': False,
                                'stmts': [{'pl': {'l': l_d, 'p': []}, 'rv': {'k': 'discr', 'pl': {'l': l_opt, 'p': []}, 'adt': 'std::option::Option', 'variants': ['None', 'Some']}, 'sp': sp}],
                                'term': {'k': 'switch', 'dty': 'isize', 'd': {'k': 'move', 'pl': {'l': l_d, 'p': []}}, 't': [['0', t['t']], ['1', B]], 'else': U, 'sp': sp}})
            c['blocks'].append({'cleanup': False,
                                'stmts': [{'pl': {'l': ol + 2, 'p': []}, 'rv': {'k': 'use', 'a': {'k': 'copy', 'pl': {'l': l_opt, 'p': [{'dc': 1, 'n': 'Some'}, {'f': 0, 'n': '0'}]}}}, 'sp': sp}],
                                'term': {'k': 'goto', 't': ob}})
            c['blocks'].append({'cleanup': False, 'stmts': [], 'term': {'k': 'unreachable'}})
            # the call site: move the iterator into the loop's iterator local, unit into the call's destination, enter the header
            c['blocks'][bi]['stmts'] = list(c['blocks'][bi]['stmts']) + [
                {'pl': {'l': l_iter, 'p': []}, 'rv': {'k': 'use', 'a': it}, 'sp': sp},
                {'pl': t['dest'], 'rv': {'k': 'use', 'a': {'k': 'const', 'ty': '()', 'txt': '()'}}, 'sp': sp}]
            c['blocks'][bi]['term'] = {'k': 'goto', 't': H}
            done.append((p, agg['rv']['def']))
    return done
