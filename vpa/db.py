"""Fact database: bodies, ADTs, impls, lookup helpers."""
import re
from collections import defaultdict
from . import core
from .core import Body, short_name, _strip_generics, name_match, simplify, show


class Facts:
    def __init__(self, d):
        self.raw = d
        self.crate = d['crate']
        self.src_hash = d.get('src_hash', '')
        self.adts = {a['path']: a for a in d['adts']}
        self.impls = d['impls']
        self._local_roots = None
        self.bodies = {}
        self.by_short = defaultdict(list)
        core.LOCAL_ROOTS.update(a['path'].split('::')[0] for a in d['adts'])
        core.LOCAL_ROOTS.update(b['path'].split('::')[0] for b in d['bodies'] if not b['path'].startswith('<'))
        short_name.cache_clear()
        from . import mirinline
        self.inlined = mirinline.inline_new_helpers(d, lambda p_: short_name(p_, True))      # helpers newer than the rules are spliced into their callers
        self.for_each = mirinline.desugar_for_each(d)      # `it.for_each(|x| ..)` becomes the MIR of `for x in it {..}`
        for b in d['bodies']:
            body = Body(b, self)
            self.bodies[body.path] = body
        for p, body in self.bodies.items():
            self.by_short[short_name(p, True)].append(body)
            body.name = short_name(p, True)
        self.n_calls = 0
        self.n_resolved = 0
        for body in self.bodies.values():
            for blk in body.blocks:
                t = blk['term']
                if t['k'] == 'call':
                    self.n_calls += 1
                    f = t['f'].get('fn')
                    if f and f['res']:
                        self.n_resolved += 1

    def is_local_path(self, raw):
        r = raw.lstrip('<')
        return r.split('::')[0].split('<')[0] in core.LOCAL_ROOTS

    def fn(self, path, where=None):
        """unique body with this short name (optionally: whose raw path contains `where`), or None"""
        c = self.by_short.get(path, [])
        if where is not None:
            c = [b for b in c if where in b.path]
        if len(c) == 1:
            return c[0]
        return None

    def fns(self, glob):
        out = []
        for p in sorted(self.by_short):
            if name_match(glob, p):
                out.extend(self.by_short[p])
        return out

    def closures_of(self, path):
        out = []
        for p in sorted(self.by_short):
            if p.startswith(path + '::{closure'):
                out.extend(self.by_short[p])
        return out

    def adt(self, path):
        return self.adts.get(path)

    def callers_of(self, glob):
        out = []
        for b in self.bodies.values():
            for s in b.calls(glob):
                out.append(s)
        return out

    def impls_of_trait(self, trait_glob):
        return [i for i in self.impls if i['trait'] and name_match(trait_glob, _strip_generics(i['trait']))]

    def impls_for(self, self_glob):
        return [i for i in self.impls if name_match(self_glob, _strip_generics(i['self']))]
