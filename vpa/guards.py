"""Branch literals: which conditions (as value DAGs, with polarity) are known on the way to a block.

A literal is (atom, polarity) with atom a boolean-valued DAG in a small normal form:
  (lt a b) (le a b) (eq a b)                comparisons (gt/ge flipped, ne = eq with polarity flipped)
  (is X Variant)                            enum discriminant test
  (ok X)                                    `?` succeeded on X  (polarity False: the failure edge)
  anything else                             the boolean DAG itself (calls such as f64::is_nan, contains_key, ...)
"""
from .core import simplify, mk_bin

TWO = {
    'Some': 'None', 'None': 'Some', 'Ok': 'Err', 'Err': 'Ok', 'Continue': 'Break', 'Break': 'Continue',
}


def norm_literal(atom, pol):
    """-> list of (atom, pol) literals (a conjunction)"""
    atom = simplify(atom)
    h = atom[0]
    if h == 'not':
        return norm_literal(atom[1], not pol)
    if h == 'ne':
        return norm_literal(('eq', atom[1], atom[2]), not pol)
    if h == 'const' and isinstance(atom[1], bool):
        return []
    if h == 'call':
        n = atom[1]
        if n == 'Option::is_some':
            return norm_literal(('is', atom[2], 'Some'), pol)
        if n == 'Option::is_none':
            return norm_literal(('is', atom[2], 'None'), pol)
        if n == 'Result::is_ok':
            return norm_literal(('is', atom[2], 'Ok'), pol)
        if n == 'Result::is_err':
            return norm_literal(('is', atom[2], 'Err'), pol)
        if n in ('RangeInclusive::contains', 'Range::contains') and len(atom) == 4 and pol:
            r, x = atom[2], atom[3]
            lo = hi = None
            if r[0] == 'call' and r[1] == 'RangeInclusive::new' and len(r) == 4:
                lo, hi = r[2], r[3]
            elif r[0] == 'agg':
                f = dict(r[2:])
                lo, hi = f.get('start'), f.get('end')
            if lo is not None and hi is not None:
                strict = n.startswith('Range::')
                return [(('le', lo, x), True), (('lt' if strict else 'le', x, hi), True), (atom, True)]
    # emptiness, however it is asked: is_empty(), len() == 0, last()/first() is None  ->  additional canonical literal (empty S)
    if h == 'call' and atom[1].endswith('::is_empty') and len(atom) == 3:
        return [(atom, pol), (('empty', atom[2]), pol)]
    if h == 'eq' and ((atom[1] == ('const', 0) and isinstance(atom[2], tuple) and atom[2][0] == 'len') or (atom[2] == ('const', 0) and isinstance(atom[1], tuple) and atom[1][0] == 'len')):
        S = atom[2][1] if atom[1] == ('const', 0) else atom[1][1]
        return [(atom, pol), (('empty', S), pol)]
    if h == 'is' and isinstance(atom[1], tuple) and len(atom[1]) == 3 and atom[1][0] == 'call' and atom[1][1] in ('slice::last', 'slice::first') and atom[2] in ('None', 'Some'):
        return [(atom, pol)] + ([(('is', atom[1], TWO[atom[2]]), True)] if not pol else []) + [(('empty', atom[1][2]), (atom[2] == 'None') == pol)]
    if h == 'is':
        x, v = atom[1], atom[2]
        if isinstance(x, tuple) and x and x[0] == 'branch':
            # discriminant of Try::branch(X): Continue = success
            if v in ('Continue', 'Break'):
                return [(('ok', x[1]), (v == 'Continue') == pol)]
        if not pol and v in TWO:
            return [(('is', x, TWO[v]), True)]
        return [(atom, pol)]
    return [(atom, pol)]


def edge_literals(body, bb):
    """successor block -> list of literals established by taking the edge bb -> succ"""
    blk = body.blocks[bb]
    t = blk['term']
    out = {}
    if t['k'] == 'switch':
        dag = body.dag()
        c = dag.operand(t['d'], bb, len(blk['stmts']))
        c = simplify(c)
        targets = t['t']
        els = t['else']
        by_target = {}
        for v, tb in targets:
            by_target.setdefault(tb, []).append(int(v))
        vals = [int(v) for v, _ in targets]
        isdiscr = c[0] == 'discr'
        variants = c[2] if isdiscr and len(c) > 2 else ()
        for tb, vs in by_target.items():
            if tb == els or len(vs) != 1:
                continue
            v = vs[0]
            if isdiscr and variants and v < len(variants):
                out[tb] = norm_literal(('is', c[1], variants[v]), True)
            elif isdiscr:
                out[tb] = [(('discr_eq', c[1], ('const', v)), True)]
            elif v in (0, 1) and _boolish(body, t):
                out[tb] = norm_literal(c, bool(v))
            else:
                out[tb] = norm_literal(('eq', c, ('const', v)), True)
        if els not in by_target:
            if isdiscr and variants:
                rest = [variants[i] for i in range(len(variants)) if i not in vals]
                if len(rest) == 1:
                    out[els] = norm_literal(('is', c[1], rest[0]), True)
                else:
                    out[els] = [(('is', c[1], variants[v]), False) for v in vals if v < len(variants)]
            elif _boolish(body, t) and vals == [0]:
                out[els] = norm_literal(c, True)
            elif _boolish(body, t) and vals == [1]:
                out[els] = norm_literal(c, False)
            else:
                lits = []
                for v in vals:
                    lits += norm_literal(('eq', c, ('const', v)), False)
                out[els] = lits
    return out


def _boolish(body, t):
    if 'dty' in t:
        return t['dty'] == 'bool'
    op = t['d']
    if op['k'] in ('copy', 'move') and not op['pl']['p']:
        return body.local_ty(op['pl']['l']) == 'bool'
    if op['k'] == 'const':
        return op.get('ty') == 'bool'
    return False


def must_literals(body):
    """block -> frozenset of literals that hold on every (back-edge free) path from entry to the block's start"""
    c = body.__dict__.get('_must')
    if c is not None:
        return c
    dom = body.dominators()
    order = body.rpo()
    edge = {b: edge_literals(body, b) for b in order}
    TOP = None
    val = {b: TOP for b in order}
    val[0] = frozenset()
    changed = True
    while changed:
        changed = False
        for b in order:
            if b == 0:
                continue
            acc = TOP
            for p in body.pred[b]:
                if p not in val or val[p] is TOP:
                    continue
                if b in dom.get(p, ()):     # back edge: contributes nothing new (facts must hold on entry paths)
                    continue
                s = val[p] | frozenset(edge[p].get(b, ()))
                acc = s if acc is TOP else (acc & s)
            if acc is TOP:
                continue
            if val[b] is TOP or acc != val[b]:
                val[b] = acc
                changed = True
    for b in order:
        if val[b] is TOP:
            val[b] = frozenset()
    body.__dict__['_must'] = val
    return val


def expand_dnf(body, lits):
    """alternatives (list of literal tuples) equivalent to the conjunction `lits`, with Option combinators over a closure opened up:
    x.is_some_and(|v| c(v))  true  -> x is Some, c(unwrap x)        false -> (x is None) | (x is Some, not c(unwrap x))
    x.is_none_or(|v| c(v))   true  -> (x is None) | (x is Some, c)  false -> x is Some, not c"""
    from . import inline as IN
    alts = [()]
    for (a, p) in lits:
        opts = None
        if isinstance(a, tuple) and a and a[0] == 'call' and a[1] in ('Option::is_some_and', 'Option::is_none_or') and len(a) == 4 and isinstance(a[3], tuple) and a[3][0] == 'closure':
            x = a[2]
            r = IN.closure_apply(body.facts, a[3], (('unwrap', x),))
            if r is not None:
                some = (('is', x, 'Some'), True)
                none = (('is', x, 'None'), True)
                if a[1] == 'Option::is_some_and':
                    opts = [(some,) + tuple(norm_literal(r, True))] if p else [(none,), (some,) + tuple(norm_literal(r, False))]
                else:
                    opts = [(none,), (some,) + tuple(norm_literal(r, True))] if p else [(some,) + tuple(norm_literal(r, False))]
        if opts is None:
            opts = [((a, p),)]
        alts = [x_ + o for x_ in alts for o in opts]
    return alts


def _bool_defs(body, b, bval):
    """track boolean locals assigned in block b on the current path: local -> ('const', bool) | ('dag', DAG)"""
    out = None
    blk = body.blocks[b]
    for si, s in enumerate(blk['stmts']):
        pl = s['pl']
        if pl['p']:
            continue
        l = pl['l']
        if body.local_ty(l) != 'bool':
            continue
        rv = s['rv']
        v = None
        if rv['k'] == 'use':
            o = rv['a']
            if o['k'] == 'const':
                c = body.dag().operand(o, b, si)
                if c[0] == 'const' and isinstance(c[1], bool):
                    v = ('const', c[1])
            elif o['k'] in ('copy', 'move') and not o['pl']['p'] and o['pl']['l'] in (out if out is not None else bval):
                v = (out if out is not None else bval)[o['pl']['l']]
        if v is None:
            d = simplify(body.dag().rvalue(rv, b, si))
            v = ('dag', d) if not (d[0] in ('phi', 'loop')) else ('unknown',)
        if out is None:
            out = dict(bval)
        out[l] = v
    return out if out is not None else bval


def path_literal_sets(body, target_bb, limit=10000, avoid=(), final=None):
    """literal sets of every back-edge-free path entry -> target_bb (raises OverflowError beyond limit).
    Path sensitive for boolean locals: `let flag = match x { None => true, Some(i) => cond(i) }; if flag {..}` contributes, on each
    path, the literal of the arm that was taken (or prunes the infeasible edge when the arm assigned a constant)."""
    dom = body.dominators()
    edge = {}
    res = []
    # restrict to blocks that can reach target
    can = set()
    work = [target_bb]
    while work:
        x = work.pop()
        if x in can:
            continue
        can.add(x)
        for p in body.pred[x]:
            if x in dom.get(p, ()):  # back edge
                continue
            work.append(p)
    stack = [(0, frozenset(), {})]
    n = 0
    while stack:
        b, lits, bval = stack.pop()
        if b == target_bb:
            if final is not None:
                # the condition operand of a `cond.then_some(v)` at the end of the target block, with the required polarity
                op, pol = final
                bv = _bool_defs(body, b, bval)
                tr = bv.get(op['pl']['l']) if op['k'] in ('copy', 'move') and not op['pl']['p'] else None
                if tr is not None and tr[0] == 'const':
                    if tr[1] != pol:
                        continue
                elif tr is not None and tr[0] == 'dag':
                    lits = lits | frozenset(norm_literal(tr[1], pol))
                else:
                    d = simplify(body.dag().operand(op, b, len(body.blocks[b]['stmts'])))
                    if d[0] not in ('phi', 'loop'):
                        lits = lits | frozenset(norm_literal(d, pol))
            res.append(lits)
            n += 1
            if n > limit:
                raise OverflowError('too many paths')
            continue
        if b in avoid:
            continue
        bval = _bool_defs(body, b, bval)
        if b not in edge:
            edge[b] = edge_literals(body, b)
        t = body.blocks[b]['term']
        tracked = None
        if t['k'] == 'switch' and t['d']['k'] in ('copy', 'move') and not t['d']['pl']['p'] and t['d']['pl']['l'] in bval:
            tracked = bval[t['d']['pl']['l']]
        for s in body.succ[b]:
            if s in dom.get(b, ()) or s not in can:
                continue
            el = edge[b].get(s, ())
            if tracked is not None and tracked[0] != 'unknown':
                # polarity of this edge
                pol = None
                for v, tb in t['t']:
                    if tb == s and int(v) in (0, 1):
                        pol = bool(int(v))
                if pol is None and s == t['else'] and len(t['t']) == 1 and int(t['t'][0][0]) in (0, 1):
                    pol = not bool(int(t['t'][0][0]))
                if pol is not None:
                    if tracked[0] == 'const':
                        if tracked[1] != pol:
                            continue            # infeasible on this path
                        el = ()
                    else:
                        el = tuple(norm_literal(tracked[1], pol))
            for alt in expand_dnf(body, el):
                stack.append((s, lits | frozenset(alt), bval))
    return res


