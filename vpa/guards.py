"""Branch literals: which conditions (as value DAGs, with polarity) are known on the way to a block.

A literal is (atom, polarity) with atom a boolean-valued DAG in a small normal form:
  (lt a b) (le a b) (eq a b)                comparisons (gt/ge flipped, ne = eq with polarity flipped)
  (is X Variant)                            enum discriminant test
  (ok X)                                    `?` succeeded on X  (polarity False: the failure edge)
  anything else                             the boolean DAG itself (calls such as f64::is_nan, contains_key, ...)
"""
from .core import simplify, mk_bin

TWO = {
    'Some': 'None', 'None': 'Some', 'Ok': 'Err', 'Err': 'Ok', 'Continue': 'Break', 'Break': 'Continue',
}


def norm_literal(atom, pol):
    """-> list of (atom, pol) literals (a conjunction)"""
    atom = simplify(atom)
    h = atom[0]
    if h == 'not':
        return norm_literal(atom[1], not pol)
    if h == 'ne':
        return norm_literal(('eq', atom[1], atom[2]), not pol)
    if h == 'const' and isinstance(atom[1], bool):
        return []
    if h == 'call':
        n = atom[1]
        if n == 'Option::is_some':
            return norm_literal(('is', atom[2], 'Some'), pol)
        if n == 'Option::is_none':
            return norm_literal(('is', atom[2], 'None'), pol)
        if n == 'Result::is_ok':
            return norm_literal(('is', atom[2], 'Ok'), pol)
        if n == 'Result::is_err':
            return norm_literal(('is', atom[2], 'Err'), pol)
        if n in ('RangeInclusive::contains', 'Range::contains') and len(atom) == 4 and pol:
            r, x = atom[2], atom[3]
            lo = hi = None
            if r[0] == 'call' and r[1] == 'RangeInclusive::new' and len(r) == 4:
                lo, hi = r[2], r[3]
            elif r[0] == 'agg':
                f = dict(r[2:])
                lo, hi = f.get('start'), f.get('end')
            if lo is not None and hi is not None:
                strict = n.startswith('Range::')
                return [(('le', lo, x), True), (('lt' if strict else 'le', x, hi), True), (atom, True)]
    if h == 'is':
        x, v = atom[1], atom[2]
        if isinstance(x, tuple) and x and x[0] == 'branch':
            # discriminant of Try::branch(X): Continue = success
            if v in ('Continue', 'Break'):
                return [(('ok', x[1]), (v == 'Continue') == pol)]
        if not pol and v in TWO:
            return [(('is', x, TWO[v]), True)]
        return [(atom, pol)]
    return [(atom, pol)]


def edge_literals(body, bb):
    """successor block -> list of literals established by taking the edge bb -> succ"""
    blk = body.blocks[bb]
    t = blk['term']
    out = {}
    if t['k'] == 'switch':
        dag = body.dag()
        c = dag.operand(t['d'], bb, len(blk['stmts']))
        c = simplify(c)
        targets = t['t']
        els = t['else']
        by_target = {}
        for v, tb in targets:
            by_target.setdefault(tb, []).append(int(v))
        vals = [int(v) for v, _ in targets]
        isdiscr = c[0] == 'discr'
        variants = c[2] if isdiscr and len(c) > 2 else ()
        for tb, vs in by_target.items():
            if tb == els or len(vs) != 1:
                continue
            v = vs[0]
            if isdiscr and variants and v < len(variants):
                out[tb] = norm_literal(('is', c[1], variants[v]), True)
            elif isdiscr:
                out[tb] = [(('discr_eq', c[1], ('const', v)), True)]
            elif v in (0, 1) and _boolish(body, t):
                out[tb] = norm_literal(c, bool(v))
            else:
                out[tb] = norm_literal(('eq', c, ('const', v)), True)
        if els not in by_target:
            if isdiscr and variants:
                rest = [variants[i] for i in range(len(variants)) if i not in vals]
                if len(rest) == 1:
                    out[els] = norm_literal(('is', c[1], rest[0]), True)
                else:
                    out[els] = [(('is', c[1], variants[v]), False) for v in vals if v < len(variants)]
            elif _boolish(body, t) and vals == [0]:
                out[els] = norm_literal(c, True)
            elif _boolish(body, t) and vals == [1]:
                out[els] = norm_literal(c, False)
            else:
                lits = []
                for v in vals:
                    lits += norm_literal(('eq', c, ('const', v)), False)
                out[els] = lits
    return out


def _boolish(body, t):
    if 'dty' in t:
        return t['dty'] == 'bool'
    op = t['d']
    if op['k'] in ('copy', 'move') and not op['pl']['p']:
        return body.local_ty(op['pl']['l']) == 'bool'
    if op['k'] == 'const':
        return op.get('ty') == 'bool'
    return False


def must_literals(body):
    """block -> frozenset of literals that hold on every (back-edge free) path from entry to the block's start"""
    c = body.__dict__.get('_must')
    if c is not None:
        return c
    dom = body.dominators()
    order = body.rpo()
    edge = {b: edge_literals(body, b) for b in order}
    TOP = None
    val = {b: TOP for b in order}
    val[0] = frozenset()
    changed = True
    while changed:
        changed = False
        for b in order:
            if b == 0:
                continue
            acc = TOP
            for p in body.pred[b]:
                if p not in val or val[p] is TOP:
                    continue
                if b in dom.get(p, ()):     # back edge: contributes nothing new (facts must hold on entry paths)
                    continue
                s = val[p] | frozenset(edge[p].get(b, ()))
                acc = s if acc is TOP else (acc & s)
            if acc is TOP:
                continue
            if val[b] is TOP or acc != val[b]:
                val[b] = acc
                changed = True
    for b in order:
        if val[b] is TOP:
            val[b] = frozenset()
    body.__dict__['_must'] = val
    return val


def path_literal_sets(body, target_bb, limit=10000):
    """literal sets of every back-edge-free path entry -> target_bb (raises OverflowError beyond limit)"""
    dom = body.dominators()
    edge = {}
    res = []
    # restrict to blocks that can reach target
    can = set()
    work = [target_bb]
    while work:
        x = work.pop()
        if x in can:
            continue
        can.add(x)
        for p in body.pred[x]:
            if x in dom.get(p, ()):  # back edge
                continue
            work.append(p)
    stack = [(0, frozenset())]
    n = 0
    while stack:
        b, lits = stack.pop()
        if b == target_bb:
            res.append(lits)
            n += 1
            if n > limit:
                raise OverflowError('too many paths')
            continue
        if b not in edge:
            edge[b] = edge_literals(body, b)
        for s in body.succ[b]:
            if s in dom.get(b, ()) or s not in can:
                continue
            stack.append((s, lits | frozenset(edge[b].get(s, ()))))
    return res
