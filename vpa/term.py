"""TERM - structural loop variants (DESIGN.md section 3).

For every natural loop of a designated function one progress idiom must apply:

  finite-iterator   the loop is driven by `next()` of a finite iterator (range, slice/vec/hash iterators and their
                    length-non-increasing adapters) and exits on None.
  bounded-counter   a counter compared with a loop-invariant bound in the exit condition is incremented by a positive
                    constant on every cycle.
  lexicographic     collections (R, W): R never grows in the loop; every cycle successfully shrinks W or R; every growth
                    of W is control-dependent on a successful strict shrink of R  (measure (|R|, |W|) decreases).
                    Special cases: drain (only R), worklist, consume-walk (`next = M.remove(&next)?`), shrinking helper.

A "successful strict shrink" is a pop/remove whose result is tested (Some / true / `?` / unwrap) on the way to the back edge,
or a removal of a key that provably is a member (taken from the collection's own iterator, or under `contains(..)` true),
or a call of a crate-local helper whose summary says it strictly shrinks the argument whenever it returns (Some).
"""
from .core import simplify, show, Site, name_match, subterms
from .evaluators import GROW, SHRINK, REORDER, classify, is_mut_param
from . import guards as G

FINITE_NEXT = {
    'Range::next', 'RangeInclusive::next', 'Iter::next', 'IterMut::next', 'IntoIter::next', 'Enumerate::next', 'Zip::next', 'Chunks::next',
    'Windows::next', 'Keys::next', 'Values::next', 'Map::next', 'Skip::next', 'Take::next', 'Rev::next', 'Filter::next', 'Copied::next',
    'Cloned::next', 'StepBy::next', 'ChunksExact::next', 'Drain::next', 'FilterMap::next', 'Peekable::next', 'Chain::next', 'TupleWindows::next',
}
INFINITE_SOURCES = ('RangeFrom', 'Repeat', 'Cycle', 'repeat_with', 'iter::successors', 'from_fn')
POPS = {'Vec::pop', 'VecDeque::pop_front', 'VecDeque::pop_back'}
REMOVES = {'HashSet::remove', 'HashMap::remove', 'HashSet::take', 'BTreeSet::remove', 'BTreeMap::remove', 'Vec::swap_remove', 'Vec::remove'}


class Event:
    def __init__(self, coll, kind, m, site, success):
        self.coll, self.kind, self.m, self.site, self.success = coll, kind, m, site, success

    def __repr__(self):
        return f'<{self.kind} {self.coll} {self.m.callee} bb{self.m.bb} success={self.success}>'


def coll_id(m):
    return (m.root, m.path)


def coll_name(b, c):
    root, path = c
    n = b.local_name(root) or f'_{root}'
    return n + ''.join('.' + p for p in path)


def helper_summary(cx, callee_body, param):
    """does the crate-local helper strictly shrink its &mut `param` on every path to a normal (Some/plain) return?
    -> 'shrinks-on-return' | 'shrinks-on-some' | None"""
    b = callee_body
    evs = shrink_events(cx, b, set(b.live), None)
    evs = [e for e in evs if e.coll == (param, ()) and e.success]
    grows = [m for m in b.mutations() if m.root == param and classify(m) == 'grow']
    if grows or not evs:
        return None
    dom = b.dominators()
    rty = b.local_ty(0)
    # blocks producing a success return
    if rty.startswith('std::option::Option<'):
        okb = [s.bb for s, d in cx.rets(b) if d[0] == 'agg' and d[1].endswith('Option::Some')]
        if okb and all(any(resolve_success(cx, b, e, x) for e in evs) for x in okb):
            return 'shrinks-on-some'
        return None
    exits = b.exits()
    if exits and all(any(resolve_success(cx, b, e, x) for e in evs) for x in exits):
        return 'shrinks-on-return'
    return None


def dom_event(b, e, blk):
    """event e (with its success condition) holds on every path to blk"""
    if not b.dominates(e.m.bb, blk):
        return False
    if e.success == 'always':
        return True
    lits = G.must_literals(b).get(blk, frozenset())
    return any(l == e.success for l in lits) or (e.m.bb == blk and False)


def shrink_events(cx, b, blocks, header):
    """successful-shrink candidates inside `blocks`: Event.success is 'always' or the literal (atom, pol) that certifies it"""
    out = []
    dag = b.dag()
    for m in b.mutations():
        if m.bb not in blocks or m.kind != 'call':
            continue
        site = Site(b, m.bb, len(b.blocks[m.bb]['stmts']), 'call', m.data)
        if m.callee in POPS:
            c = cx.call(site)
            out.append(Event(coll_id(m), 'pop', m, site, (('is', c, 'Some'), True)))
            # pop().unwrap(): the unwrap panics unless the pop succeeded
            for u in b.calls('Option::unwrap|Option::expect'):
                if u.bb in blocks and cx.arg(u, 0) == c and False:
                    pass
            out.append(Event(coll_id(m), 'pop-unwrap', m, site, ('unwrapped', c)))
        elif m.callee in REMOVES:
            c = cx.call(site)
            key = cx.arg(site, 1)
            if m.callee.startswith('HashSet::remove'):
                out.append(Event(coll_id(m), 'remove', m, site, (c, True)))
            else:
                out.append(Event(coll_id(m), 'remove', m, site, (('is', c, 'Some'), True)))
                out.append(Event(coll_id(m), 'remove', m, site, (('ok', c), True)))
                out.append(Event(coll_id(m), 'remove-unwrap', m, site, ('unwrapped', c)))
            out.append(Event(coll_id(m), 'remove-member', m, site, ('member', key)))
        elif m.raw in cx.facts.bodies:
            tgt = cx.facts.bodies[m.raw]
            al = b.aliases()
            for ai, a in enumerate(m.args):
                if a['k'] in ('copy', 'move') and (a['pl']['l'] in al or a['pl']['l'] == m.root) and b._resolve_place(a['pl'], al)[0] == m.root:
                    s = helper_summary(cx, tgt, ai + 1) if tgt.path != b.path else None
                    if s == 'shrinks-on-return':
                        out.append(Event(coll_id(m), 'helper', m, site, 'always'))
                    elif s == 'shrinks-on-some':
                        out.append(Event(coll_id(m), 'helper', m, site, (('is', cx.call(site), 'Some'), True)))
    return out


def resolve_success(cx, b, e, at_block):
    """does event e certainly succeed on every path reaching at_block (which e's block dominates)?"""
    if not b.dominates(e.m.bb, at_block):
        return False
    s = e.success
    if s == 'always':
        return True
    lits = G.must_literals(b).get(at_block, frozenset())
    if s[0] == 'unwrapped':
        # an Option::unwrap of this very value in a block dominating at_block
        for u in b.calls('*'):
            d = cx.call(u)
            if d == ('unwrap', s[1]) and b.dominates(u.bb, at_block):
                return True
        for site_bb in b.live:
            pass
        # unwrap is erased to ('unwrap', X) by the normaliser: look for a statement/terminator computing it
        return _unwrap_dominates(cx, b, s[1], at_block)
    if s[0] == 'member':
        key = s[1]
        coll = e.coll
        # the key IS an element taken from the collection's own iterator (not merely derived from one)
        k = key
        while k[0] in ('unwrap',):
            k = k[1]
        if k[0] == 'itervar' and _names_collection(b, k[1], coll):
            return True
        # contains(coll, key) true on every path
        for (atom, pol) in G.must_literals(b).get(e.m.bb, frozenset()):
            if pol and atom[0] == 'call' and atom[1] in ('HashSet::contains', 'HashMap::contains_key') and len(atom) == 4 and atom[3] == key:
                return True
        return False
    return s in lits


def _unwrap_dominates(cx, b, val, at_block):
    for bi in b.live:
        if not b.dominates(bi, at_block):
            continue
        t = b.blocks[bi]['term']
        if t['k'] == 'call':
            name, _ = b.callee(t)
            if name in ('Option::unwrap', 'Option::expect', 'Result::unwrap', 'Result::expect'):
                a = simplify(b.dag().operand(t['args'][0], bi, len(b.blocks[bi]['stmts'])))
                if a == val:
                    return True
    return False


def _names_collection(b, src, coll):
    """does DAG `src` (an iterator source) denote collection `coll` = (root, path)?"""
    root, path = coll
    for t in subterms(src):
        if t[0] == 'param' and t[1] == root and not path:
            return True
        if t[0] == 'loop' and t[1] == root and not path:
            return True
        if t[0] == 'mut' and not path:
            pass
    # locals: the source DAG of local collection `root` is whatever defines it; compare against the local's own DAG
    if not path and root > b.argc:
        # any reference to the local shows up as its defining DAG or a loop marker for it
        for t in subterms(src):
            if t[0] == 'loop' and t[1] == root:
                return True
        # compare structurally with the local's value at some point: cheap approximation via defs
        for (bb, pos, kind, payload) in b.defs().get(root, []):
            if kind in ('assign', 'call'):
                d = simplify(b.dag().defdag(root, (bb, pos, kind, payload)))
                if any(t == d for t in subterms(src)):
                    return True
    if path:
        for t in subterms(src):
            if t[0] == 'field' and t[1] == path[-1]:
                return True
    return False


def grows_in(b, blocks):
    out = []
    for m in b.mutations():
        if m.bb in blocks and classify(m) == 'grow':
            out.append(m)
    return out


def unknown_writes(cx, b, blocks, coll):
    """calls in the loop that take &mut to coll and are neither known shrinkers/growers nor element writes"""
    out = []
    for m in b.mutations():
        if m.bb in blocks and coll_id(m) == coll and m.kind == 'call':
            c = classify(m)
            if c == 'call' and m.callee not in POPS | REMOVES and not m.callee.endswith('::next'):
                if m.raw in cx.facts.bodies:
                    continue  # helper: judged through its summary
                out.append(m)
    return out


def analyse_loop(cx, b, loop):
    """-> (idiom or None, explanation)"""
    h, blocks, backs = loop
    dag = b.dag()
    # ---------------- finite iterator: a `next()` call inside the loop whose None edge leaves the loop
    for c in b.calls('*::next'):
        if c.bb not in blocks:
            continue
        name, raw = b.callee(c.data)
        if name not in FINITE_NEXT and not name.endswith('::next'):
            continue
        val = cx.call(c)
        txt = show(val)
        if any(s in (raw or '') or s in txt for s in INFINITE_SOURCES):
            continue
        if name not in FINITE_NEXT:
            continue
        # the block after the call switches on the discriminant; the None edge must leave the loop and every back edge
        # must be dominated by the Some edge
        nxt = c.data['t']
        if nxt < 0:
            continue
        el = G.edge_literals(b, nxt)
        exit_on_none = False
        for s2, lits in el.items():
            if s2 not in blocks and any(a == ('is', val, 'None') and p for a, p in lits):
                exit_on_none = True
        if not exit_on_none:
            continue
        # the iterator must be created outside the loop (else it restarts on every cycle)
        it_arg = c.data['args'][0]
        al = b.aliases()
        root = b._resolve_place(it_arg['pl'], al)[0] if it_arg['k'] in ('copy', 'move') else None
        defs_in = [d for d in b.defs().get(root, []) if d[0] in blocks and d[2] != 'mut'] if root is not None else [1]
        if defs_in:
            continue
        if all(b.dominates(c.bb, s) for s in backs):
            return 'finite-iterator', f'driven by {name} over {txt[:80]}; exits on None'
    # ---------------- bounded counter
    r = bounded_counter(cx, b, loop)
    if r:
        return 'bounded-counter', r
    # ---------------- lexicographic (R, W)
    evs = shrink_events(cx, b, blocks, h)
    grows = grows_in(b, blocks)
    colls = sorted({e.coll for e in evs})
    grown = {coll_id(m) for m in grows}
    # helper calls that may grow
    helper_grows = []
    for m in b.mutations():
        if m.bb in blocks and m.kind == 'call' and m.raw in cx.facts.bodies:
            from .evaluators import write_summary
            tgt = cx.facts.bodies[m.raw]
            for (pi, path, cls) in write_summary(cx.facts).get(tgt.path, ()):
                if cls in ('grow', 'assign', 'call'):
                    grown.add((m.root, m.path + path))
                    helper_grows.append((m, (m.root, m.path + path)))
    # whole-collection reassignment inside the loop counts as growth of that local
    for l, ds in b.defs().items():
        for d in ds:
            if d[0] in blocks and d[2] in ('assign', 'call') and any(c[0] == l for c in colls):
                ty = b.local_ty(l)
                if 'Vec<' in ty or 'Hash' in ty:
                    grown.add((l, ()))

    def must_shrink(coll):
        """some successful shrink of coll dominates every back edge"""
        for e in evs:
            if e.coll != coll:
                continue
            if all(resolve_success(cx, b, e, s) for s in backs):
                return e
        # rotated test: `while let Some(x) = v { ..; v = R.remove(..) }` - the result of the shrink performed at the
        # end of a cycle is the value the loop condition tests before the next one, so every *continued* cycle
        # shrank R (at most |R|+1 cycles)
        for e in evs:
            if e.coll != coll or not all(b.dominates(e.m.bb, s) for s in backs):
                continue
            c = cx.call(e.site)
            for bi in sorted(blocks):
                t = b.blocks[bi]['term']
                if t['k'] != 'switch' or not all(b.dominates(bi, s) for s in backs):
                    continue
                if not any(s2 not in blocks for s2 in b.succ[bi]):
                    continue
                d = simplify(dag.operand(t['d'], bi, len(b.blocks[bi]['stmts'])))
                if d[0] != 'discr':
                    continue
                tested = d[1]
                carried = [x for x in (tested[1:] if tested[0] == 'phi' else (tested,)) if x[0] == 'loop' and x[2] == h]
                if len(carried) != 1:
                    continue
                # staying in the loop requires the Some edge
                el = G.edge_literals(b, bi)
                stay_some = all(any(a == ('is', tested, 'Some') and p for a, p in el.get(s2, ())) for s2 in b.succ[bi] if s2 in blocks)
                if not stay_some:
                    continue
                car = simplify(dag.carried(carried[0][1], h))
                if car == c and e.m.callee in REMOVES | POPS and not e.m.callee.startswith('HashSet::'):
                    e.kind = 'rotated-' + e.kind
                    return e
        return None
    # drain / consume-walk: R never grows and is successfully shrunk on every cycle
    for R in colls:
        if R in grown or unknown_writes(cx, b, blocks, R):
            continue
        e = must_shrink(R)
        if e:
            return 'drain', f'every cycle strictly shrinks `{coll_name(b, R)}` ({e.m.callee}, {e.kind}) and nothing in the loop grows it'
    # worklist: W shrinks on every cycle; each growth of W is guarded by a successful shrink of a never-growing R
    for W in colls:
        e = must_shrink(W)
        if not e:
            continue
        wgrows = [m for m in grows if coll_id(m) == W] + [m for m, c in helper_grows if c == W]     # direct pushes and pushes made by a helper
        if not wgrows or unknown_writes(cx, b, blocks, W):
            continue
        for R in colls:
            if R == W or R in grown or unknown_writes(cx, b, blocks, R):
                continue
            ok = True
            for g in wgrows:
                if not any(ev.coll == R and resolve_success(cx, b, ev, g.bb) for ev in evs):
                    ok = False
                    break
            if ok:
                return 'worklist', (f'every cycle pops `{coll_name(b, W)}`; each of its {len(wgrows)} growth site(s) is dominated by a successful strict '
                                    f'shrink of `{coll_name(b, R)}`, which never grows: (|{coll_name(b, R)}|, |{coll_name(b, W)}|) decreases lexicographically')
    return None, 'no structural variant found: ' + ('; '.join(sorted({f'{coll_name(b, e.coll)}:{e.m.callee}' for e in evs})) or 'no shrink events') + \
        (' | grown in loop: ' + ', '.join(coll_name(b, c) for c in sorted(grown)) if grown else '')


def bounded_counter(cx, b, loop):
    h, blocks, backs = loop
    dag = b.dag()
    # exit condition: a switch in the loop with one edge leaving, on (lt i N) / (le i N)
    for bi in sorted(blocks):
        t = b.blocks[bi]['term']
        if t['k'] != 'switch':
            continue
        outs = [s for s in b.succ[bi] if s not in blocks]
        if not outs:
            continue
        if not all(b.dominates(bi, s) for s in backs):
            continue
        c = simplify(dag.operand(t['d'], bi, len(b.blocks[bi]['stmts'])))
        if c[0] not in ('lt', 'le'):
            continue
        for side in (1, 2):
            ctr = c[side]
            # counter: phi(init, loop _l@h)
            cands = [x for x in subterms(ctr) if x[0] == 'loop' and x[2] == h]
            if len(cands) != 1:
                continue
            l = cands[0][1]
            other = c[3 - side]
            if any(x[0] == 'loop' for x in subterms(other)):
                continue
            car = simplify(dag.carried(l, h))
            # every carried alternative must be (add prev k) with k>0 when counter on the left, (sub prev k) on the right
            alts = car[1:] if car[0] == 'phi' else (car,)
            good = True
            for a in alts:
                if side == 1 and a[0] == 'add' and any(x[0] == 'const' and isinstance(x[1], (int, float)) and x[1] > 0 for x in a[1:]):
                    continue
                if side == 2 and a[0] == 'sub' and a[2][0] == 'const' and isinstance(a[2][1], (int, float)) and a[2][1] > 0:
                    continue
                good = False
            if good:
                return f'counter _{l} ({b.local_name(l)}) is compared with a loop-invariant bound and stepped by a positive constant on every cycle'
    return None


def check_function(cx, name, rule='TERM', expect_loops=None, where=None):
    b = cx.fn(name, where)
    if b is None:
        return
    loops = b.loops()
    if expect_loops is not None:
        # fewer loops than when the rule was written is fine when the iteration moved into std iterator adapters over the same (finite) sources
        adapters = len(b.calls('Iterator::map|Iterator::filter|Iterator::flat_map|Iterator::filter_map|Iterator::fold|Iterator::for_each|Iterator::collect|Vec::extend'))
        cx.ob(rule, f'{name}:loops', len(loops) >= expect_loops or adapters > 0,
              f'{name}: {len(loops)} natural loop(s) found ({expect_loops} when the rule was written; iterator adapters in the body: {adapters})', found=str(len(loops)))
    for i, lp in enumerate(loops):
        idiom, why = analyse_loop(cx, b, lp)
        hb = lp[0]
        t = b.blocks[hb]['term']
        sp = Site(b, hb, 0, 'loop', t if isinstance(t, dict) and 'sp' in t else (b.blocks[hb]['stmts'][0] if b.blocks[hb]['stmts'] else {})).span
        cx.ob(rule, f'{name}:loop{i}', idiom is not None,
              f'{name} loop#{i}: {idiom or "UNPROVEN-TERMINATION"} - {why}', where=sp, found=None if idiom else why)


def exhaustive_loops(cx, b):
    """every natural loop of b is left only through the `None` edge of its own iterator: no break, no early return, no `?` inside
    -> (ok, [reasons])"""
    from . import guards as G
    from .core import simplify
    why = []
    for (h, blocks, backs) in b.loops():
        for u in blocks:
            for v in b.succ[u]:
                if v in blocks:
                    continue
                if b.blocks[v]['term']['k'] == 'unreachable':
                    continue
                lits = G.edge_literals(b, u).get(v, [])
                if any(pol and a[0] == 'is' and a[2] == 'None' and a[1][0] == 'call' and a[1][1].endswith('::next') for a, pol in lits):
                    continue
                why.append(f'loop at bb{h} can be left from bb{u} (line {b.blocks[u].get("span", "?")}) other than by exhausting its iterator')
    return (not why), why
