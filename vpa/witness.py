"""Type-level witnesses: rustdoc compile_fail doc-tests (with error codes, hence nightly) of /verif/witness against the current tree.
Nothing is executed: the failing snippets do not compile and their compiling twins are `no_run`."""
import os, re, shutil, subprocess
from . import facts as F

_cache = {}


def run(repo=None):
    """-> {witness name: {'compile fail': bool, 'compile': bool}} ; raises SystemExit if the witness crate cannot be built"""
    repo = repo or F.REPO
    if repo in _cache:
        return _cache[repo]
    res = F._locked(lambda: _run(repo))
    _cache[repo] = res
    return res


def _run(repo):
    src = os.path.join(F.ROOT, 'witness')
    dst = os.path.join(F.WORK, 'witness')
    shutil.rmtree(dst, ignore_errors=True)
    shutil.copytree(src, dst, ignore=shutil.ignore_patterns('target', 'Cargo.lock'))
    with open(os.path.join(dst, 'Cargo.toml')) as fh:
        t = fh.read()
    with open(os.path.join(dst, 'Cargo.toml'), 'w') as fh:
        fh.write(t.replace('path = "/repo"', f'path = "{os.path.abspath(repo)}"'))
    shutil.copy(os.path.join(repo, 'Cargo.lock'), os.path.join(dst, 'Cargo.lock'))
    env = dict(os.environ, CARGO_NET_OFFLINE='true', CARGO_TARGET_DIR=os.path.join(F.WORK, 'target-witness'), RUSTFLAGS='-Awarnings')
    p = subprocess.run(['cargo', '+nightly', 'test', '--doc', '--offline'], cwd=dst, env=env, stdout=subprocess.PIPE, stderr=subprocess.STDOUT, text=True)
    out = {}
    for m in re.finditer(r'^test src/lib\.rs - (\w+) \(line \d+\) - (compile fail|compile) \.\.\. (\w+)', p.stdout, re.M):
        out.setdefault(m.group(1), {})[m.group(2)] = (m.group(3) == 'ok')
    if not out:
        raise SystemExit('witness: the witness crate did not build against the current tree:\n' + p.stdout[-3000:])
    return out


def check(cx, names):
    """one obligation per witness: the offending snippet is rejected with the stated error code AND its twin compiles"""
    res = run()
    for n in names:
        r = res.get(n)
        ok = r is not None and r.get('compile fail') is True and r.get('compile', True) is True
        cx.ob('WITNESS', n, ok, f'type-level witness {n} (witness/src/lib.rs): the violating snippet fails to compile with its error code and the twin that differs '
              'only in the offending line compiles', found=None if ok else str(r))
