"""Development aid: print the value DAGs of a function's calls, aggregates, returns and mutations."""
import sys, json
from . import facts as F
from .db import Facts
from .core import show, simplify

def dump(facts, path, what='all'):
    b = facts.fn(path)
    if b is None:
        cands = facts.fns('*' + path + '*')
        print('no exact match; candidates:', [c.path for c in cands][:20]); return
    dag = b.dag()
    print('==', b.path, b.file, 'argc', b.argc, 'blocks', len(b.blocks))
    for i in range(1, b.argc+1): print('  param', i, b.local_name(i), ':', b.local_ty(i))
    for bi in b.live:
        if bi not in b.reachable(): continue
        blk = b.blocks[bi]
        for si, s in enumerate(blk['stmts']):
            rv = s['rv']
            if rv['k'] == 'agg' and rv['ak'] in ('adt',) and what in ('all','agg'):
                print(f'  bb{bi}[{si}] AGG', show(simplify(dag.rvalue(rv, bi, si))))
            if s['pl']['l'] == 0 and what in ('all','ret'):
                print(f'  bb{bi}[{si}] RET{s["pl"]["p"] or ""} =', show(simplify(dag.rvalue(rv, bi, si))))
        t = blk['term']
        if t['k'] == 'call' and what in ('all','call'):
            name, raw = b.callee(t)
            print(f'  bb{bi} CALL -> _{t["dest"]["l"]}', show(simplify(dag.call_dag(t, bi))))
        if t['k'] == 'switch' and what in ('all','switch'):
            print(f'  bb{bi} SWITCH', show(simplify(dag.operand(t['d'], bi, len(blk['stmts'])))), t['t'], 'else', t['else'])
    if what in ('all','mut'):
        for m in b.mutations(): print('  MUT', m)
    if what in ('all', 'loops'):
        for h, blocks, back in b.loops(): print('  LOOP header', h, sorted(blocks), 'back', back)

if __name__ == '__main__':
    facts = Facts(F.load('default'))
    for p in sys.argv[1:]:
        what = 'all'
        if '@' in p: p, what = p.split('@')
        dump(facts, p, what)
