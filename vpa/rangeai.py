"""RANGE - a small path-sensitive abstract interpreter for loop-free scalar functions (DESIGN.md section 3).

Abstract value of an f64: a linear form over opaque symbols plus a constant; every symbol carries a closed interval
(open-ness is not tracked: the properties state closed ranges).  Branches on comparisons of two linear forms add linear
constraints; a constraint on a single symbol refines its interval, a constraint on a form F bounds any value that is an exact
multiple of F plus a constant (this is the "zone" fact angle_in_direction needs: t1 > t0  =>  t0 - t1 < 0).
A congruence fact "== parameter p (mod 2pi)" is propagated through `% 2pi` and `+- 2pi`.
Real arithmetic is assumed; nothing here executes engeom code.
"""
import math
from .core import const_of

TAU = 2 * math.pi
INF = float('inf')


class Lin:
    """linear form: dict sym -> coef, plus constant"""
    __slots__ = ('t', 'c')

    def __init__(self, t=None, c=0.0):
        self.t = {k: v for k, v in (t or {}).items() if abs(v) > 1e-15}
        self.c = c

    def add(self, o, s=1.0):
        t = dict(self.t)
        for k, v in o.t.items():
            t[k] = t.get(k, 0.0) + s * v
        return Lin(t, self.c + s * o.c)

    def scale(self, k):
        return Lin({a: v * k for a, v in self.t.items()}, self.c * k)

    def is_const(self):
        return not self.t

    def key(self):
        return tuple(sorted(self.t.items()))

    def __repr__(self):
        return ' + '.join(f'{v:g}*{k}' for k, v in sorted(self.t.items())) + (f' + {self.c:g}' if self.c or not self.t else '')


class State:
    def __init__(self):
        self.env = {}          # local -> ('f', Lin, cong) | ('b', cmp) | ('e', local/arg name) | ('o', anything)
        self.sym = {}          # sym -> [lo, hi]
        self.cons = []         # (Lin F, 'lt'|'le'|'ge'|'gt')   meaning F op 0
        self.n = 0

    def copy(self):
        s = State()
        s.env = dict(self.env)
        s.sym = {k: list(v) for k, v in self.sym.items()}
        s.cons = list(self.cons)
        s.n = self.n
        return s

    def fresh(self, lo=-INF, hi=INF, hint='v'):
        self.n += 1
        name = f'{hint}{self.n}'
        self.sym[name] = [lo, hi]
        return name

    # ---- bounds of a linear form under the symbol intervals and constraints
    def bounds(self, L):
        lo = hi = L.c
        for k, v in L.t.items():
            a, b = self.sym[k]
            if v >= 0:
                lo += v * a
                hi += v * b
            else:
                lo += v * b
                hi += v * a
        # zone-like facts: L = alpha*F + const
        for (F, op) in self.cons:
            if not F.t or set(F.t) != set(L.t):
                continue
            k0 = next(iter(F.t))
            alpha = L.t[k0] / F.t[k0]
            if all(abs(L.t[k] - alpha * F.t[k]) < 1e-12 for k in F.t):
                rest = L.c - alpha * F.c          # L = alpha*F + rest
                # F op 0
                flo, fhi = -INF, INF
                if op in ('lt', 'le'):
                    fhi = 0.0
                else:
                    flo = 0.0
                if alpha >= 0:
                    lo = max(lo, alpha * flo + rest) if flo > -INF else lo
                    hi = min(hi, alpha * fhi + rest) if fhi < INF else hi
                else:
                    lo = max(lo, alpha * fhi + rest) if fhi < INF else lo
                    hi = min(hi, alpha * flo + rest) if flo > -INF else hi
        return lo, hi

    def assume(self, A, B, op):
        """A op B with op in lt/le/gt/ge"""
        F = A.add(B, -1.0)
        if op in ('gt', 'ge'):
            nop = 'gt' if op == 'gt' else 'ge'
        else:
            nop = op
        self.cons.append((F, nop))
        if len(F.t) == 1:
            (k, v), = F.t.items()
            bound = -F.c / v
            lo, hi = self.sym[k]
            upper = (nop in ('lt', 'le')) == (v > 0)
            if upper:
                hi = min(hi, bound)
            else:
                lo = max(lo, bound)
            self.sym[k] = [lo, hi]
        lo, hi = self.bounds(F)
        # infeasible path?
        if nop in ('lt', 'le') and lo > 1e-12:
            return False
        if nop in ('gt', 'ge') and hi < -1e-12:
            return False
        # strict comparisons are infeasible on the boundary itself (F < 0 cannot hold when F >= 0 everywhere)
        if nop == 'lt' and lo >= 0.0:
            return False
        if nop == 'gt' and hi <= 0.0:
            return False
        return True


NEG = {'lt': 'ge', 'le': 'gt', 'gt': 'le', 'ge': 'lt'}


class Interp:
    def __init__(self, body, summaries=None, param_ranges=None, limit=4000):
        self.b = body
        self.summ = summaries or {}
        self.results = []      # (Lin, State, cong)
        self.problems = []
        self.limit = limit
        self.param_ranges = param_ranges or {}

    def run(self):
        st = State()
        for i in range(1, self.b.argc + 1):
            ty = self.b.local_ty(i)
            nm = self.b.local_name(i) or f'_{i}'
            if ty == 'f64':
                lo, hi = self.param_ranges.get(nm, (-INF, INF))
                s = 'p:' + nm
                st.sym[s] = [lo, hi]
                st.env[i] = ('f', Lin({s: 1.0}), (s, 0))
            else:
                st.env[i] = ('o', ('param', nm))
        if self.b.loops():
            self.problems.append('function has a loop: anchor changed (RANGE only handles loop-free scalar code)')
            return
        self.walk(0, st, 0)

    # ------------------------------------------------------------------ operands
    def op(self, st, o):
        if o['k'] == 'const':
            c = const_of(o)
            if c[0] == 'const' and isinstance(c[1], (int, float)) and not isinstance(c[1], bool):
                return ('f', Lin(c=float(c[1])), None)
            if c[0] == 'const' and isinstance(c[1], bool):
                return ('k', c[1])
            if c[0] == 'const' and isinstance(c[1], str) and 'promoted[' in c[1]:
                pb = self.b.facts.bodies.get(c[1])
                if pb is not None:
                    from .core import simplify
                    ex = pb.exits()
                    d = simplify(pb.dag().local(0, ex[0], len(pb.blocks[ex[0]]['stmts']) + 1)) if ex else None
                    if d and d[0] == 'const' and isinstance(d[1], (int, float)):
                        return ('f', Lin(c=float(d[1])), None)
            return ('o', c)
        pl = o['pl']
        v = st.env.get(pl['l'], ('o', None))
        for e in pl['p']:
            if e == 'deref':
                continue
            if isinstance(e, dict) and 'f' in e:
                if v[0] == 'o' and isinstance(v[1], tuple):
                    v = ('o', ('field', e['n'] or str(e['f']), v[1]))
                elif v[0] == 't':
                    v = v[1][e['f']] if e['f'] < len(v[1]) else ('o', None)
                else:
                    v = ('o', None)
            else:
                v = ('o', None)
        return v

    def as_lin(self, st, v, hint='x'):
        if v[0] == 'f':
            return v[1], v[2]
        s = st.fresh(hint=hint)
        return Lin({s: 1.0}), None

    # ------------------------------------------------------------------ walking
    def walk(self, bb, st, depth):
        if len(self.results) > self.limit or depth > 400:
            self.problems.append('path explosion')
            return
        blk = self.b.blocks[bb]
        for s in blk['stmts']:
            self.stmt(st, s)
        t = blk['term']
        k = t['k']
        if k == 'return':
            v = st.env.get(0, ('o', None))
            self.results.append((v, st))
            return
        if k in ('goto', 'drop', 'assert'):
            self.walk(t['t'], st, depth + 1)
            return
        if k == 'call':
            self.call(st, t)
            if t['t'] >= 0:
                self.walk(t['t'], st, depth + 1)
            return
        if k == 'switch':
            d = self.op(st, t['d'])
            targets = [(int(v), tb) for v, tb in t['t']]
            if d[0] == 'b':
                _, opn, A, B = d
                for val, tb in targets + [(None, t['else'])]:
                    pol = (val != 0) if val is not None else (targets[0][0] == 0)
                    s2 = st.copy()
                    ok = s2.assume(A, B, opn if pol else NEG[opn])
                    if ok:
                        self.walk(tb, s2, depth + 1)
                return
            if d[0] == 'k':
                for val, tb in targets:
                    if bool(val) == d[1]:
                        self.walk(tb, st.copy(), depth + 1)
                        return
                self.walk(t['else'], st.copy(), depth + 1)
                return
            seen = set()
            for val, tb in targets + [(None, t['else'])]:
                if tb in seen:
                    continue
                seen.add(tb)
                self.walk(tb, st.copy(), depth + 1)
            return
        # unreachable / other: path ends without a result

    def stmt(self, st, s):
        pl, rv = s['pl'], s['rv']
        if pl['p']:
            return
        l = pl['l']
        k = rv['k']
        if k == 'use':
            v = self.op(st, rv['a'])
            if v[0] == 'o' and self.b.local_ty(l) == 'f64':      # an f64 read out of an opaque place (matrix entry, field): unknown value
                v = ('f', Lin({st.fresh(hint='ld'): 1.0}), None)
            st.env[l] = v
        elif k == 'ref':
            st.env[l] = self.op(st, {'k': 'copy', 'pl': rv['pl']})
        elif k == 'cast':
            v = self.op(st, rv['a'])
            st.env[l] = v if v[0] == 'f' else ('o', None)
        elif k == 'un':
            v = self.op(st, rv['a'])
            if rv['op'] == 'Neg' and v[0] == 'f':
                st.env[l] = ('f', v[1].scale(-1.0), None)
            elif rv['op'] == 'Not' and v[0] == 'b':
                st.env[l] = ('b', NEG[v[1]], v[2], v[3])
            else:
                st.env[l] = ('o', None)
        elif k == 'bin':
            a, b = self.op(st, rv['a']), self.op(st, rv['b'])
            opn = rv['op']
            if opn in ('Lt', 'Le', 'Gt', 'Ge') and a[0] == 'f' and b[0] == 'f':
                st.env[l] = ('b', opn.lower(), a[1], b[1])
            elif opn in ('Add', 'Sub') and a[0] == 'f' and b[0] == 'f':
                L = a[1].add(b[1], 1.0 if opn == 'Add' else -1.0)
                cong = None
                # +- a multiple of 2pi keeps the congruence
                if a[2] and b[1].is_const() and abs(b[1].c / TAU - round(b[1].c / TAU)) < 1e-12:
                    cong = a[2]
                if opn == 'Add' and b[2] and a[1].is_const() and abs(a[1].c / TAU - round(a[1].c / TAU)) < 1e-12:
                    cong = b[2]
                st.env[l] = ('f', L, cong)
            elif opn == 'Mul' and a[0] == 'f' and b[0] == 'f':
                if a[1].is_const():
                    st.env[l] = ('f', b[1].scale(a[1].c), b[2] if a[1].c == 1.0 else None)
                elif b[1].is_const():
                    st.env[l] = ('f', a[1].scale(b[1].c), a[2] if b[1].c == 1.0 else None)
                else:
                    (l1, h1), (l2, h2) = st.bounds(a[1]), st.bounds(b[1])
                    c = [x * y for x in (l1, h1) for y in (l2, h2) if not (math.isinf(x) and y == 0 or math.isinf(y) and x == 0)]
                    sname = st.fresh(min(c) if c else -INF, max(c) if c else INF, 'm')
                    st.env[l] = ('f', Lin({sname: 1.0}), None)
            elif opn == 'Div' and a[0] == 'f' and b[0] == 'f' and b[1].is_const() and b[1].c != 0:
                st.env[l] = ('f', a[1].scale(1.0 / b[1].c), None)
            elif opn == 'Rem' and a[0] == 'f' and b[0] == 'f' and b[1].is_const() and b[1].c > 0:
                m = b[1].c
                lo, hi = st.bounds(a[1])
                # fmod keeps the sign of the dividend and |result| < m
                rlo = -m if lo < 0 else 0.0
                rhi = m if hi > 0 else 0.0
                sname = st.fresh(rlo, rhi, 'r')
                cong = a[2] if (a[2] and abs(m - TAU) < 1e-12) else None
                st.env[l] = ('f', Lin({sname: 1.0}), cong)
            else:
                st.env[l] = ('o', None) if opn not in ('Add', 'Sub', 'Mul', 'Div', 'Rem') else ('f',) + self.as_lin(st, ('o', None))
        elif k == 'agg' and rv.get('ak') == 'tuple':
            st.env[l] = ('t', [self.op(st, o) for o in rv['ops']])
        elif k == 'agg':
            st.env[l] = ('g', rv.get('adt', ''), rv.get('variant', ''), dict(zip(rv.get('fields', []), [self.op(st, o) for o in rv['ops']])))
        elif k == 'discr':
            st.env[l] = ('o', ('discr',))
        else:
            st.env[l] = ('o', None)

    def call(self, st, t):
        name, raw = self.b.callee(t)
        args = [self.op(st, a) for a in t['args']]
        self.__dict__.setdefault('arg_log', {}).setdefault(name, []).append([st.bounds(a[1]) if a[0] == 'f' else None for a in args])
        dest = t['dest']
        if dest['p']:
            return
        l = dest['l']

        def fl(i):
            return args[i] if i < len(args) and args[i][0] == 'f' else None
        res = ('o', None)
        if name == 'f64::abs' and fl(0):
            lo, hi = st.bounds(args[0][1])
            s = st.fresh(0.0 if lo < 0 < hi else min(abs(lo), abs(hi)) if lo * hi > 0 else 0.0, max(abs(lo), abs(hi)), 'abs')
            res = ('f', Lin({s: 1.0}), None)
        elif name in ('f64::min', 'f64::max') and fl(0) and fl(1):
            (l1, h1), (l2, h2) = st.bounds(args[0][1]), st.bounds(args[1][1])
            if name == 'f64::min':
                s = st.fresh(min(l1, l2), min(h1, h2), 'min')
            else:
                s = st.fresh(max(l1, l2), max(h1, h2), 'max')
            res = ('f', Lin({s: 1.0}), None)
        elif name == 'f64::atan2':
            s = st.fresh(-math.pi, math.pi, 'atan2')
            res = ('f', Lin({s: 1.0}), None)
        elif name in ('f64::acos',):
            s = st.fresh(0.0, math.pi, 'acos')
            res = ('f', Lin({s: 1.0}), None)
        elif name in ('f64::asin', 'f64::atan'):
            s = st.fresh(-math.pi / 2, math.pi / 2, 'asin')
            res = ('f', Lin({s: 1.0}), None)
        elif name in self.summ:
            lo, hi, keeps = self.summ[name]
            s = st.fresh(lo, hi, name.split('::')[-1])
            cong = args[0][2] if (keeps and args and args[0][0] == 'f') else None
            res = ('f', Lin({s: 1.0}), cong)
        elif self.b.local_ty(l) == 'f64':
            s = st.fresh(hint='call')
            res = ('f', Lin({s: 1.0}), None)
        elif name.endswith('AngleInterval::new') or name.endswith('::new'):
            res = ('o', None)
        st.env[l] = res


def analyse(body, summaries=None, param_ranges=None):
    it = Interp(body, summaries, param_ranges)
    it.run()
    return it


def result_range(it):
    """hull of the returned f64 over all feasible paths, plus whether every path keeps the congruence to parameter 1"""
    lo, hi = INF, -INF
    cong_all = True
    n = 0
    for v, st in it.results:
        if v[0] != 'f':
            return None
        a, b = st.bounds(v[1])
        lo, hi = min(lo, a), max(hi, b)
        cong_all = cong_all and v[2] is not None
        n += 1
    return (lo, hi, cong_all, n) if n else None
