"""Inlining of closures and of pure crate-local helpers into value DAGs, so that the same rule matches before and after a
maintainer extracts a helper, or replaces an `if let` by an Option / bool combinator.

closure_apply(facts, cl, args)      the closure's return DAG with its arguments and captures substituted
expand(facts, d)                    d with every call of a *pure* crate-local function replaced by its return DAG (bounded depth),
                                    and value combinators (`bool::then`, `Option::map`, `Result::ok`, ...) replaced by what they compute
A function is pure here when its body has no loop, writes nothing through a parameter, and every exit returns a value.
"""
from .core import simplify, mk_phi, subterms

MAX_DEPTH = 3


def retval(body):
    ex = body.exits()
    if not ex:
        return ('undef', 0)
    alts = [body.dag().local(0, e, len(body.blocks[e]['stmts']) + 1) for e in ex]
    return simplify(mk_phi(alts))


def subst(d, fn):
    """bottom-up rewrite: fn(node) -> replacement or None"""
    if not isinstance(d, tuple) or not d:
        return d
    r = fn(d)
    if r is not None:
        return r
    if isinstance(d[0], str):
        if d[0] in ('param', 'const', 'fn', 'undef', 'loop', 'loopid'):
            return d
        return tuple(subst(x, fn) if isinstance(x, tuple) else x for x in d)
    return tuple(subst(x, fn) if isinstance(x, tuple) else x for x in d)


def capture_names(body):
    """field index -> capture name of a closure body (read off the projections of _1)"""
    c = body.__dict__.get('_capnames')
    if c is not None:
        return c
    out = {}

    def scan_place(pl):
        if pl.get('l') == 1:
            for e in pl['p']:
                if isinstance(e, dict) and 'f' in e:
                    if str(e.get('n', '')).startswith('cap:'):
                        out[e['f']] = e['n']
                    break

    def scan_op(o):
        if isinstance(o, dict) and o.get('k') in ('copy', 'move'):
            scan_place(o['pl'])
    for bi in body.live:
        blk = body.blocks[bi]
        for s in blk['stmts']:
            scan_place(s['pl'])
            rv = s['rv']
            for k in ('a', 'b'):
                if k in rv:
                    scan_op(rv[k])
            if 'pl' in rv:
                scan_place(rv['pl'])
            for o in rv.get('ops', ()):
                scan_op(o)
        t = blk['term']
        for o in t.get('args', ()):
            scan_op(o)
        if 'd' in t:
            scan_op(t['d'])
    body.__dict__['_capnames'] = out
    return out


def closure_body(facts, cl):
    return facts.bodies.get(cl[1]) or next((b for b in facts.bodies.values() if b.path == cl[1]), None)


def closure_apply(facts, cl, args, dag=None):
    """cl = ('closure', defpath, cap0, cap1, ...); args = DAGs of the call arguments (closure params 2, 3, ...).
    dag: a DAG over the closure body's own parameters / captures to express over the caller's values (default: its return value)"""
    b = closure_body(facts, cl)
    if b is None or b.loops():
        return None
    r = retval(b) if dag is None else dag
    names = capture_names(b)
    caps = {names[i]: cl[2 + i] for i in names if 2 + i < len(cl)}

    def fn(n):
        if n[0] == 'field' and isinstance(n[1], str) and n[1].startswith('cap:') and isinstance(n[2], tuple) and n[2][:2] == ('param', 1):
            return caps.get(n[1])
        if n[0] == 'param':
            k = n[1]
            if k >= 2 and k - 2 < len(args):
                return args[k - 2]
            return None
        return None
    unresolved = []

    def fn2(n):
        r2 = fn(n)
        if r2 is None and n[0] == 'field' and isinstance(n[1], str) and n[1].startswith('cap:'):
            unresolved.append(n)
        return r2
    out = subst(r, fn2)
    if unresolved:
        return None      # a capture could not be resolved
    return simplify(out)


def is_pure(body):
    c = body.__dict__.get('_pure')
    if c is None:
        c = (not body.loops()) and not any(m.root <= body.argc and m.root >= 1 for m in body.mutations()) and bool(body.exits())
        body.__dict__['_pure'] = c
    return c


def _local_fn(facts, name):
    lst = facts.by_short.get(name) if hasattr(facts, 'by_short') else None
    if lst and len(lst) == 1:
        return lst[0]
    return None


COMBINATORS = ('Option::or_else', 'Option::map_or', 'Option::map_or_else', 'Option::is_some_and', 'Option::is_none_or', 'bool::then', 'bool::then_some', 'Option::unwrap_or_else', 'Option::unwrap_or', 'Result::unwrap_or', 'Result::unwrap_or_else')
_inl_cache = {}


def inlinable(facts, d):
    """names of the calls in d that expand() could rewrite (pure crate-local helpers, value combinators); cached per DAG"""
    key = (id(facts), d)
    r = _inl_cache.get(key)
    if r is None:
        r = set()
        for x in subterms(d):
            if isinstance(x, tuple) and x and x[0] == 'call' and isinstance(x[1], str):
                if x[1] in COMBINATORS:
                    r.add(x[1])
                else:
                    b = _local_fn(facts, x[1])
                    if b is not None and is_pure(b) and len(x) - 2 == b.argc:
                        r.add(x[1])
        r = frozenset(r)
        if len(_inl_cache) > 100000:
            _inl_cache.clear()
        _inl_cache[key] = r
    return r


def expand(facts, d, depth=0, keep=()):
    """inline pure crate-local helper calls (except those whose name matches an entry of `keep`) and value combinators;
    one pass, simplified once at the end"""
    names = inlinable(facts, d)
    if not names or all(any(k in n for k in keep) for n in names):
        return d
    return simplify(_exp(facts, d, depth, keep, {}))


def _exp(facts, d, depth, keep, memo):
    if not isinstance(d, tuple) or not d or not isinstance(d[0], str) or d[0] in ('param', 'const', 'fn', 'undef', 'loop', 'loopid'):
        if isinstance(d, tuple) and d and not isinstance(d[0], str):
            return tuple(_exp(facts, x, depth, keep, memo) if isinstance(x, tuple) else x for x in d)
        return d
    k = id(d)
    if k in memo:
        return memo[k][1]
    if d[0] == 'call' and isinstance(d[1], str):
        name = d[1]
        args = tuple(_exp(facts, a, depth, keep, memo) if isinstance(a, tuple) else a for a in d[2:])
        out = ('call', name) + args
        if name == 'bool::then' and len(args) == 2 and isinstance(args[1], tuple) and args[1] and args[1][0] == 'closure':
            v = closure_apply(facts, args[1], ())
            if v is not None:
                out = ('ite', args[0], ('agg', 'option::Option::Some', ('0', _exp(facts, v, depth + 1, keep, memo) if depth < MAX_DEPTH else v)), ('agg', 'option::Option::None'))
        elif name == 'bool::then_some' and len(args) == 2:
            out = ('ite', args[0], ('agg', 'option::Option::Some', ('0', args[1])), ('agg', 'option::Option::None'))
        elif name in ('Option::is_some_and', 'Option::is_none_or') and len(args) == 2 and isinstance(args[1], tuple) and args[1] and args[1][0] == 'closure':
            v = closure_apply(facts, args[1], (('unwrap', args[0]),))
            if v is not None:
                # as a VALUE: false (resp. true) when absent, the closure's answer on the contained value otherwise
                out = ('phi', ('const', name == 'Option::is_none_or'), _exp(facts, v, depth + 1, keep, memo) if depth < MAX_DEPTH else v)
        elif name == 'Option::map_or' and len(args) == 3 and isinstance(args[2], tuple) and args[2] and args[2][0] == 'closure':
            v = closure_apply(facts, args[2], (('unwrap', args[0]),))
            if v is not None:
                out = ('phi', args[1], _exp(facts, v, depth + 1, keep, memo) if depth < MAX_DEPTH else v)      # the default, or the closure's value on the content
        elif name == 'Option::or_else' and len(args) == 2 and isinstance(args[1], tuple) and args[1] and args[1][0] == 'closure':
            v = closure_apply(facts, args[1], ())
            if v is not None:
                out = ('phi', args[0], _exp(facts, v, depth + 1, keep, memo) if depth < MAX_DEPTH else v)      # the option itself, or the closure's option when it is None
        elif name in ('Option::unwrap_or', 'Result::unwrap_or') and len(args) == 2 and not any(kk in name for kk in keep):
            out = ('phi', ('unwrap', args[0]), args[1])           # the contained value, or the default
        elif name in ('Option::unwrap_or_else', 'Result::unwrap_or_else') and len(args) == 2 and isinstance(args[1], tuple) and args[1] and args[1][0] == 'closure' \
                and not any(kk in name for kk in keep):
            v = closure_apply(facts, args[1], ()) or closure_apply(facts, args[1], (('unwrap_err', args[0]),))
            if v is not None:
                out = ('phi', ('unwrap', args[0]), v)
        elif depth < MAX_DEPTH and not any(kk in name for kk in keep):
            b = _local_fn(facts, name)
            if b is not None and is_pure(b) and len(args) == b.argc:
                r = retval(b)

                def sub(m):
                    if m[0] == 'param' and 1 <= m[1] <= len(args):
                        return args[m[1] - 1]
                    return None
                out = _exp(facts, subst(r, sub), depth + 1, keep, {})
    else:
        out = tuple(_exp(facts, x, depth, keep, memo) if isinstance(x, tuple) else x for x in d)
    memo[k] = (d, out)       # keep d alive so that its id is not reused
    return out


def lift_phi(d, cap=16):
    """distribute every constructor over phi children: (f a (phi x y)) -> (phi (f a x) (f a y)), so that a pattern written against one
    alternative finds it as a subterm; gives up (returns d) beyond `cap` alternatives"""
    def alts(n):
        if not isinstance(n, tuple) or not n or not isinstance(n[0], str) or n[0] in ('param', 'const', 'fn', 'undef', 'loop', 'loopid'):
            return [n]
        if n[0] == 'phi':
            out = []
            for a in n[1:]:
                out += alts(a)
            return out
        if n[0] == 'agg':
            combos = [()]
            for item in n[2:]:
                k, v = item
                va = alts(v)
                combos = [c + ((k, x),) for c in combos for x in va]
                if len(combos) > cap:
                    raise OverflowError
            return [n[:2] + c for c in combos]
        combos = [()]
        for x in n[1:]:
            xa = alts(x) if isinstance(x, tuple) else [x]
            combos = [c + (y,) for c in combos for y in xa]
            if len(combos) > cap:
                raise OverflowError
        return [(n[0],) + c for c in combos]
    try:
        a = alts(d)
    except (OverflowError, RecursionError):
        return d
    if len(a) == 1:
        return simplify(a[0])
    return simplify(('phi',) + tuple(a))
