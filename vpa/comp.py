"""List comprehensions, whichever way the source spells them.

`[elem(x) for x in SRC if cond(x)]` is written in this code base as a `for` loop with a conditional `push`, as an index loop, or as
an iterator chain `SRC.iter().enumerate().filter(..).map(..).collect()` / `vec.extend(chain)`. comprehensions(cx, body, name) finds the
vector(s) and returns, for each way elements get into it, a record

    {'src': S, 'elem': E, 'conds': [(atom, polarity), ...], 'site': where}

in ONE canonical form: the running element of a slice-like source S is `(index S (itervar (range 0 (len S))))`, its position is
`(itervar (range 0 (len S)))` - whether the source iterated the slice, enumerated it, or indexed it by a range.
"""
from .core import simplify, show, subterms
from .pattern import match, find
from . import inline as IN

ADAPTERS_TRANSPARENT = ('Iterator::copied', 'Iterator::cloned', 'slice::iter', 'IntoIterator::into_iter', 'Vec::iter', 'Iterator::by_ref')


def IDX(S):
    return ('itervar', ('range', ('const', 0), ('len', S)))


def canon(d):
    """canonical element / index form (to a fixpoint)"""
    for _ in range(5):
        n = _canon1(d)
        if n == d:
            return n
        d = n
    return d


def _canon1(d):
    def fn(n):
        if n[0] == 'field' and isinstance(n[2], tuple) and n[2] and n[2][0] == 'itervar':
            src = n[2][1]
            if isinstance(src, tuple) and src[0] == 'call' and src[1] == 'Iterator::enumerate' and len(src) == 3:
                S = canon(src[2])
                if n[1] in ('0', 0):
                    return IDX(S)
                if n[1] in ('1', 1):
                    return ('index', S, IDX(S))
        if n[0] == 'index' and len(n) == 3 and isinstance(n[1], tuple) and n[1] and n[1][0] == 'call' and n[1][1] == 'slice::windows' and len(n[1]) == 4 and n[1][3] == ('const', 2):
            # window k of S.windows(2) is [S[k], S[k+1]]
            S = canon(n[1][2])
            I = canon(n[2])
            return ('agg', 'array', ('0', ('index', S, I)), ('1', ('index', S, ('add', ('const', 1), I))))
        if n[0] == 'len' and len(n) == 2 and isinstance(n[1], tuple) and n[1] and n[1][0] == 'call' and n[1][1] == 'slice::windows' and len(n[1]) == 4 and n[1][3] == ('const', 2):
            return ('sub', ('len', canon(n[1][2])), ('const', 1))
        if n[0] == 'index' and len(n) == 3 and isinstance(n[1], tuple) and n[1] and n[1][0] == 'call' and n[1][1] == 'Iterator::zip' and len(n[1]) == 4:
            # element k of zip(A, B) is (A[k], B[k])
            I = canon(n[2])
            return canon(('agg', 'tuple', ('0', ('index', n[1][2], I)), ('1', ('index', n[1][3], I))))
        if n[0] == 'field' and isinstance(n[2], tuple) and n[2] and n[2][0] in ('index', 'itervar', 'field'):
            inner = canon(n[2])
            if inner != n[2] and inner[0] == 'agg' and inner[1] == 'tuple':
                f = dict(inner[2:])
                if str(n[1]) in f:
                    return canon(f[str(n[1])])
        if n[0] == 'field' and isinstance(n[2], tuple) and n[2] and n[2][0] == 'agg' and n[2][1] == 'tuple':
            f = dict(n[2][2:])
            if str(n[1]) in f:
                return canon(f[str(n[1])])
        if n[0] == 'itervar' and isinstance(n[1], tuple) and n[1][0] == 'call' and n[1][1] == 'Iterator::skip' and len(n[1]) == 4 \
                and isinstance(n[1][2], tuple) and n[1][2][0] == 'call' and n[1][2][1] == 'Iterator::enumerate':
            S = canon(n[1][2][2])
            I2 = ('itervar', ('range', canon(n[1][3]), ('len', S))) + tuple(n[2:])
            return ('agg', 'tuple', ('0', I2), ('1', ('index', S, I2)))
        if n[0] == 'itervar' and isinstance(n[1], tuple) and n[1][0] == 'call' and n[1][1] == 'slice::windows' and len(n[1]) == 4 and n[1][3] == ('const', 2):
            S = canon(n[1][2])
            I = ('itervar', ('range', ('const', 0), ('sub', ('len', S), ('const', 1)))) + tuple(n[2:])
            return ('agg', 'array', ('0', ('index', S, I)), ('1', ('index', S, ('add', ('const', 1), I))))
        if n[0] == 'index' and len(n) == 3 and isinstance(n[1], tuple) and n[1] and n[1][0] == 'agg' and n[1][1] == 'array' and n[2][0] == 'const':
            f = dict(n[1][2:])
            if str(n[2][1]) in f:
                return canon(f[str(n[2][1])])
        if n[0] == 'itervar':
            src = n[1]
            if isinstance(src, tuple) and src[0] in ('range', 'rangeincl'):
                # keep the loop id: two nested loops over identical ranges have different variables
                return ('itervar', tuple(canon(x) if isinstance(x, tuple) else x for x in src)) + tuple(n[2:])
            if isinstance(src, tuple) and src[0] == 'call' and src[1] == 'Iterator::enumerate':
                S = canon(src[2])
                return ('agg', 'tuple', ('0', IDX(S)), ('1', ('index', S, IDX(S))))
            if isinstance(src, tuple) and src[0] == 'call' and src[1] in ('Iterator::zip', 'Iterator::skip', 'Iterator::take', 'Iterator::rev', 'slice::chunks', 'slice::windows', 'Iterator::filter', 'Iterator::map'):
                return ('itervar', canon(src))
            S = canon(src)
            return ('index', S, IDX(S))
        return None
    return simplify(IN.subst(d, fn))


def _strip_iter(x):
    """S.iter() / S.iter_mut() of a matrix / point / slice denotes the sequence S"""
    while isinstance(x, tuple) and x and x[0] == 'call' and len(x) == 3 and isinstance(x[1], str) and x[1].endswith(('::iter', '::iter_mut')):
        x = x[2]
    return x


def canon2(d):
    """canon plus the pairing forms: the running element of `A.iter().zip(B.iter())` is (A[i], B[i]) and that of `X.iter_mut().enumerate()` is (i, X[i]),
    with i the canonical position in the FIRST sequence (opt-in: rules that compare positions across sequences)"""
    def fn(n):
        if n[0] == 'itervar' and isinstance(n[1], tuple) and n[1] and n[1][0] == 'call':
            src = n[1]
            if src[1] == 'Iterator::zip' and len(src) == 4:
                A, B = _strip_iter(src[2]), _strip_iter(src[3])
                if not (A[0] == 'call' and str(A[1]).startswith('Iterator::')) and not (B[0] == 'call' and str(B[1]).startswith('Iterator::')):
                    I = IDX(canon(A))
                    return ('agg', 'tuple', ('0', ('index', canon(A), I)), ('1', ('index', canon(B), I)))
            if src[1] == 'Iterator::enumerate' and len(src) == 3:
                X = _strip_iter(src[2])
                if X is not src[2]:
                    if X[0] == 'call' and X[1] == 'Iterator::zip' and len(X) == 4:
                        A, B = _strip_iter(X[2]), _strip_iter(X[3])
                        I = IDX(canon(A))
                        return ('agg', 'tuple', ('0', I), ('1', ('agg', 'tuple', ('0', ('index', canon(A), I)), ('1', ('index', canon(B), I)))))
                    I = IDX(canon(X))
                    return ('agg', 'tuple', ('0', I), ('1', ('index', canon(X), I)))
                if X[0] == 'call' and X[1] == 'Iterator::zip' and len(X) == 4:
                    A, B = _strip_iter(X[2]), _strip_iter(X[3])
                    I = IDX(canon(A))
                    return ('agg', 'tuple', ('0', I), ('1', ('agg', 'tuple', ('0', ('index', canon(A), I)), ('1', ('index', canon(B), I)))))
        return None
    return canon(simplify(IN.subst(d, fn)))


def _chain(facts, d):
    """d = iterator expression -> list of (SRC, element DAG over the canonical running element, conds) - one entry per element a
    source item yields (flat_map over an array literal yields several) - or None when a stage is not understood"""
    from .guards import norm_literal
    stages = []
    x = d
    KNOWN = ('Iterator::map', 'Iterator::filter', 'Iterator::enumerate', 'Iterator::filter_map', 'Iterator::flat_map', 'Iterator::skip') + ADAPTERS_TRANSPARENT
    while isinstance(x, tuple) and x and x[0] == 'call' and x[1] in KNOWN:
        stages.append(x)
        x = x[2]
    src = x
    stages.reverse()
    if src[0] == 'agg' and src[1].endswith('Range::Range'):
        f = dict(src[2:])
        cur = ('itervar', ('range', f.get('start'), f.get('end')))
        S = ('range', f.get('start'), f.get('end'))
    elif src[0] == 'call' and src[1] == 'slice::windows' and len(src) == 4 and src[3] == ('const', 2):
        S = canon(src[2])
        I = ('itervar', ('range', ('const', 0), ('sub', ('len', S), ('const', 1))))
        cur = ('agg', 'array', ('0', ('index', S, I)), ('1', ('index', S, ('add', ('const', 1), I))))
    else:
        S = canon(src)
        cur = ('index', S, IDX(S))
    outs = [(cur, [])]
    first = True
    positional = True       # positions still are source positions (no filter passed yet)
    for st in stages:
        nm = st[1]
        if nm in ADAPTERS_TRANSPARENT:
            continue
        if nm == 'Iterator::enumerate':
            if not positional or S[0] == 'range' or len(outs) != 1:
                return None
            outs = [(('agg', 'tuple', ('0', IDX(S)), ('1', outs[0][0])), outs[0][1])]
            continue
        if nm == 'Iterator::skip':
            # only directly after enumerate on a slice: positions k..len
            k = canon(st[3])
            if not positional or len(outs) != 1:
                return None
            I2 = ('itervar', ('range', k, ('len', S)))

            def shift(n, I2=I2):
                return I2 if n == IDX(S) else None
            outs = [(simplify(IN.subst(outs[0][0], shift)), outs[0][1])]
            continue
        cl = st[3] if len(st) > 3 else None
        if not (isinstance(cl, tuple) and cl and cl[0] == 'closure'):
            return None
        nxt = []
        for cur, conds in outs:
            r = IN.closure_apply(facts, cl, (cur,))
            if r is None:
                return None
            r = canon(r)
            if nm == 'Iterator::map':
                nxt.append((r, conds))
            elif nm == 'Iterator::filter':
                nxt.append((cur, conds + norm_literal(r, True)))
            elif nm == 'Iterator::filter_map':
                o = _option_value(facts, r) or _option_by_exits(facts, cl, (cur,))
                if o is None:
                    return None
                nxt.append((canon(o[0]), conds + o[1]))
            elif nm == 'Iterator::flat_map':
                if r[0] == 'agg' and r[1] in ('array', 'tuple'):
                    for _, v in r[2:]:
                        nxt.append((canon(v), conds))
                else:
                    # an iterable computed per item: every element of it, in order
                    o = _option_value(facts, r)
                    if o is not None:
                        nxt.append((canon(o[0]), conds + o[1]))
                    else:
                        nxt.append((('index', r, IDX(r)), conds))
        if nm in ('Iterator::filter', 'Iterator::filter_map', 'Iterator::flat_map'):
            positional = False
        outs = nxt
    return [(S, canon(e), c) for e, c in outs]


def _option_value(facts, r):
    """an Option-valued DAG as (value when Some, literals that make it Some), for the combinator spellings"""
    from .guards import norm_literal
    if r[0] == 'call' and r[1] == 'Option::map' and len(r) == 4 and r[3][0] == 'closure':
        v = IN.closure_apply(facts, r[3], (('unwrap', r[2]),))
        return (v, [(('is', r[2], 'Some'), True)]) if v is not None else None
    if r[0] == 'call' and r[1] == 'Result::ok' and len(r) == 3:
        return (('unwrap', r[2]), [(('is', r[2], 'Ok'), True)])
    if r[0] == 'call' and r[1] == 'bool::then' and len(r) == 4 and r[3][0] == 'closure':
        v = IN.closure_apply(facts, r[3], ())
        return (v, norm_literal(r[2], True)) if v is not None else None
    if r[0] == 'call' and r[1] == 'bool::then_some' and len(r) == 4:
        return (r[3], norm_literal(r[2], True))
    if r[0] == 'agg' and r[1].endswith('Option::Some'):
        return (dict(r[2:]).get('0'), [])
    return None


_CTX = [None]


def _option_by_exits(facts, cl, args):
    """a closure written `if c(x) { Some(v(x)) } else { None }` (any nesting): ONE Some exit; its payload and the literals that hold on every
    path to it, both expressed over the caller's values"""
    cx = _CTX[0]
    body = IN.closure_body(facts, cl)
    if cx is None or body is None or body.loops():
        return None
    somes = [(s, d) for s, d in cx.rets(body) if d[0] == 'agg' and d[1].endswith('Option::Some')]
    nones = [(s, d) for s, d in cx.rets(body) if d[0] == 'agg' and d[1].endswith('Option::None')]
    if len(somes) != 1 or len(somes) + len(nones) != len(cx.rets(body)):
        return None
    s, d = somes[0]
    v = IN.closure_apply(facts, cl, args, dag=dict(d[2:]).get('0'))
    if v is None:
        return None
    conds = []
    for a, p in cx.guards(body, s.bb):
        ca = IN.closure_apply(facts, cl, args, dag=a)
        if ca is None:
            return None
        conds.append((canon(ca), p))
    # literals implied by a stronger one of the same set (a..=b contains x  =>  a <= x, x <= b) are dropped
    strong = [c for c in conds if c[0][0] == 'call' and str(c[0][1]).endswith('::contains')]
    if strong:
        conds = [c for c in conds if c in strong or c[0][0] not in ('le', 'lt')]
    return (v, conds)


def comprehensions(cx, b, d):
    """d: DAG of the vector (e.g. the return value)."""
    _CTX[0] = cx
    out = []
    d = simplify(d)
    # ---- chain forms: collect(chain), or extend(vec, chain) somewhere on the spine
    m = match('(call Iterator::collect $c)', d) or match('(call Itertools::collect_vec $c)', d)
    if m is not None:
        rs = _chain(cx.facts, m['c'])
        for r in rs or ():
            out.append({'src': r[0], 'elem': r[1], 'conds': r[2], 'site': b.file, 'form': 'chain'})
        return out
    # ---- loop forms: every push / extend event on the spine of d
    inits, elems = cx.pushes(b, d)
    dag = b.dag()
    for (callee, path, args) in elems:
        # find the event's site to get its guards
        site_bb = None
        for mu in b.mutations():
            if mu.kind == 'call' and mu.callee == callee:
                a = tuple(simplify(dag.operand(o, mu.bb, len(b.blocks[mu.bb]['stmts']))) for o in mu.args[1:])
                if a == tuple(args):
                    site_bb = mu.bb
                    break
        if callee in ('Vec::push', 'HashSet::insert', 'BTreeSet::insert', 'VecDeque::push_back') and len(args) == 1:
            e = canon(args[0])
            conds = []
            if site_bb is not None:
                for a, p in cx.guards(b, site_bb):
                    if a[0] == 'is' and isinstance(a[1], tuple) and a[1] and a[1][0] == 'call' and str(a[1][1]).endswith('::next'):
                        continue        # "the iterator produced an element": part of the iteration, not a filter
                    ca = canon(a)
                    if find('(itervar _)', ca) is not None:
                        conds.append((ca, p))
            src = None
            iv = find('(itervar _)', e)
            for lit, _ in conds:
                iv = iv or find('(itervar _)', lit)
            if iv is not None:
                rg = iv[0][1]
                src = rg[2][1] if (rg[0] == 'range' and isinstance(rg[2], tuple) and rg[2][0] == 'len') else rg
            out.append({'src': src, 'elem': e, 'conds': conds, 'site': site_bb, 'form': 'loop'})
        elif callee in ('Vec::extend', 'HashSet::extend') and len(args) == 1:
            rs = _chain(cx.facts, args[0])
            if rs is not None:
                for r in rs:
                    out.append({'src': r[0], 'elem': r[1], 'conds': r[2], 'site': site_bb, 'form': 'extend'})
            else:
                out.append({'src': None, 'elem': ('extend', canon(args[0])), 'conds': [], 'site': site_bb, 'form': 'extend-opaque'})
    for i in inits:
        out.append({'src': None, 'elem': None, 'init': canon(i), 'conds': [], 'site': None, 'form': 'init'})
    return out


def has_cond(c, pat, pol=True, env=None):
    return any(p == pol and match(pat, a, env) is not None for a, p in c['conds'])


def reduction(cx, b, d):
    """d: a scalar DAG that folds a sequence into one value, whichever way the source spells it ->
        {'op': 'sum' | 'max' | 'min' | 'max_by' | 'min_by', 'init': DAG or None, 'cmp': closure or None, 'src': S, 'elem': E, 'conds': [...], 'form': ..}
    with src / elem / conds in the canonical comprehension form (see _chain), or None.
    Understood: `acc = init; for x in S { acc = acc + e(x) }` (also `+=`, `acc.max(e)`), `S.iter()..map(e).sum()`, `..max_by(cmp)` / `..min_by(cmp)` over a
    chain or over a collected chain."""
    _CTX[0] = cx
    d = simplify(d)
    # ---- chain forms
    for pat, op in (('(call Iterator::sum $c)', 'sum'), ('(call Iterator::max_by $c $cmp)', 'max_by'), ('(call Iterator::min_by $c $cmp)', 'min_by')):
        m = match(pat, d)
        if m is None:
            continue
        c = m['c']
        mc = match('(call Iterator::collect $c2)', c) or match('(call Itertools::collect_vec $c2)', c)
        if mc is not None:
            c = mc['c2']
        rs = _chain(cx.facts, c)
        if not rs or len(rs) != 1:
            return None
        S, e, conds = rs[0]
        return {'op': op, 'init': ('const', 0) if op == 'sum' else None, 'cmp': m.get('cmp'), 'src': S, 'elem': e, 'conds': conds, 'form': 'chain'}
    # ---- fold(init, |acc, x| acc (+) e(x)) over a chain
    m = match('(call *::fold $c $init $f)', d)
    if m is not None and m['f'][0] == 'closure':
        rs = _chain(cx.facts, m['c'])
        if not rs or len(rs) != 1:
            return None
        S, e, conds = rs[0]
        ACC = ('acc',)
        r = IN.closure_apply(cx.facts, m['f'], (ACC, e))
        if r is None:
            return None
        r = canon(simplify(r))
        op = el = None
        if r[0] == 'add' and len(r) == 3 and ACC in r[1:]:
            op, el = 'sum', (r[2] if r[1] == ACC else r[1])
        elif r[0] == 'call' and r[1] in ('Matrix::add', 'OPoint::add') and len(r) == 4 and r[2] == ACC:
            op, el = 'sum', r[3]              # vector accumulation acc + e
        elif r[0] == 'call' and r[1] in ('f64::max', 'f64::min') and len(r) == 4 and ACC in r[2:]:
            op, el = r[1].split('::')[1], (r[3] if r[2] == ACC else r[2])
        if op is None or any(x == ACC for x in subterms(el)):
            return None
        return {'op': op, 'init': m['init'], 'cmp': None, 'src': S, 'elem': canon(el), 'conds': conds, 'form': 'fold'}
    # ---- loop forms: (phi init (loop l@h)) whose carried value is acc (+) e
    if d[0] == 'phi':
        lp = [x for x in d[1:] if x[0] == 'loop']
        inits = [x for x in d[1:] if x[0] != 'loop']
        if len(lp) == 1 and len(inits) == 1:
            car = simplify(b.dag().carried(lp[0][1], lp[0][2]))
            ACC = '(anyphi (loop))'
            for pat, op in ((f'(add {ACC} $e)', 'sum'), (f'(mut *::add_assign _ {ACC} $e)', 'sum'), (f'(call Matrix::add {ACC} $e)', 'sum'),
                            (f'(call f64::max {ACC} $e)', 'max'), (f'(call f64::max $e {ACC})', 'max'),
                            (f'(call f64::min {ACC} $e)', 'min'), (f'(call f64::min $e {ACC})', 'min')):
                m = match(pat, car)
                if m is None or find('(loop)', m['e']) is not None and any(x[0] == 'loop' and x[1] == lp[0][1] for x in subterms(m['e'])):
                    continue
                e = canon(m['e'])
                # the accumulating assignment must be on every cycle of its loop: no conditions of its own
                conds = []
                h = lp[0][2]
                blocks = b.loop_blocks(h) if hasattr(b, 'loop_blocks') else set()
                for (dbb, dpos, kind, pay) in b.defs().get(lp[0][1], []):
                    if dbb in blocks:
                        for a, p in cx.guards(b, dbb):
                            if a[0] == 'is' and isinstance(a[1], tuple) and a[1] and a[1][0] == 'call' and str(a[1][1]).endswith('::next'):
                                continue
                            ca = canon(a)
                            if find('(itervar _)', ca) is not None:
                                conds.append((ca, p))
                src = None
                iv = find('(itervar _)', e)
                if iv is not None:
                    rg = iv[0][1]
                    src = rg[2][1] if (rg[0] == 'range' and isinstance(rg[2], tuple) and rg[2][0] == 'len') else rg
                return {'op': op, 'init': inits[0], 'cmp': None, 'src': src, 'elem': e, 'conds': conds, 'form': 'loop'}
    return None


def argmax_folds(cx, body):
    """arg-max written as a fold with a (best value, Option<item>) accumulator:
           it.fold((z, None), |(best, arg), x| if v(x) > best { (v(x), Some(x)) } else { (best, arg) })
    -> [{'src', 'init', 'value', 'item', 'site'}] with the closure's captures replaced by their values and its item parameter by the
    canonical running element `(itervar SRC)` - the same terms a rule sees in the accumulator-loop spelling."""
    from . import inline as IN
    from .pattern import match as _m
    out = []
    for s in body.calls('*fold'):
        d = cx.call(s)
        if d[0] != 'call' or len(d) != 5 or not isinstance(d[4], tuple) or d[4][0] != 'closure':
            continue
        ei = _m('(agg tuple (0 $z) (1 (agg *Option::None)))', d[3])
        cl = cx.closure_body(d[4][1])
        if ei is None or cl is None or cl.argc != 3:
            continue
        take, keep = None, False
        rets = cx.rets(cl)
        for s2, dv in rets:
            e = _m('(agg tuple (0 $v) (1 (agg *Option::Some (0 $item))))', dv)
            if e is not None:
                if cx.guarded(cl, s2.bb, '(lt (field 0 (param 2)) $v)', True, {'v': e['v']}) is not None:
                    take = e
            elif _m('(agg tuple (0 (field 0 (param 2))) (1 (field 1 (param 2))))', dv) is not None or _m('(param 2)', dv) is not None:
                keep = True
        if take is None or not keep or len(rets) != 2:
            continue
        names = IN.capture_names(cl)
        caps = {names[i]: v for i, v in enumerate(d[4][2:]) if i in names}
        src = d[2]

        def sub(n):
            if n[0] == 'field' and len(n) == 3 and isinstance(n[1], str) and n[1].startswith('cap:') and n[2][0] == 'param' and n[2][1] == 1 and n[1] in caps:
                return caps[n[1]]
            if n[0] == 'param' and n[1] == 3:
                return ('itervar', src)
            return None
        val, item = simplify(IN.subst(take['v'], sub)), simplify(IN.subst(take['item'], sub))
        # a fold over `S.iter().map(f)`: the running element is f(running element of S)
        em = _m('(call Iterator::map $S $f)', src)
        if em is not None and isinstance(em['f'], tuple) and em['f'][0] == 'closure':
            fx = IN.closure_apply(cx.facts, em['f'], (('itervar', em['S']),))
            if fx is not None:
                whole = ('itervar', src)
                val = simplify(IN.subst(val, lambda n: fx if n == whole else None))
                item = simplify(IN.subst(item, lambda n: fx if n == whole else None))
                src = em['S']

                def proj(n):
                    # field k of a tuple literal is its k-th component
                    if n[0] == 'field' and len(n) == 3 and isinstance(n[2], tuple) and n[2][:2] == ('agg', 'tuple'):
                        for comp_ in n[2][2:]:
                            if isinstance(comp_, tuple) and len(comp_) == 2 and str(comp_[0]) == str(n[1]):
                                return comp_[1]
                    return None
                val, item = simplify(IN.subst(val, proj)), simplify(IN.subst(item, proj))
        out.append({'src': src, 'init': ei['z'], 'value': val, 'item': item, 'site': s})
    return out
