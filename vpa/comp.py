"""List comprehensions, whichever way the source spells them.

`[elem(x) for x in SRC if cond(x)]` is written in this code base as a `for` loop with a conditional `push`, as an index loop, or as
an iterator chain `SRC.iter().enumerate().filter(..).map(..).collect()` / `vec.extend(chain)`. comprehensions(cx, body, name) finds the
vector(s) and returns, for each way elements get into it, a record

    {'src': S, 'elem': E, 'conds': [(atom, polarity), ...], 'site': where}

in ONE canonical form: the running element of a slice-like source S is `(index S (itervar (range 0 (len S))))`, its position is
`(itervar (range 0 (len S)))` - whether the source iterated the slice, enumerated it, or indexed it by a range.
"""
from .core import simplify, show, subterms
from .pattern import match, find
from . import inline as IN

ADAPTERS_TRANSPARENT = ('Iterator::copied', 'Iterator::cloned', 'slice::iter', 'IntoIterator::into_iter', 'Vec::iter', 'Iterator::by_ref')


def IDX(S):
    return ('itervar', ('range', ('const', 0), ('len', S)))


def canon(d):
    """canonical element / index form (to a fixpoint)"""
    for _ in range(5):
        n = _canon1(d)
        if n == d:
            return n
        d = n
    return d


def _canon1(d):
    def fn(n):
        if n[0] == 'field' and isinstance(n[2], tuple) and n[2] and n[2][0] == 'itervar':
            src = n[2][1]
            if isinstance(src, tuple) and src[0] == 'call' and src[1] == 'Iterator::enumerate' and len(src) == 3:
                S = canon(src[2])
                if n[1] in ('0', 0):
                    return IDX(S)
                if n[1] in ('1', 1):
                    return ('index', S, IDX(S))
        if n[0] == 'index' and len(n) == 3 and isinstance(n[1], tuple) and n[1] and n[1][0] == 'call' and n[1][1] == 'Iterator::zip' and len(n[1]) == 4:
            # element k of zip(A, B) is (A[k], B[k])
            I = canon(n[2])
            return canon(('agg', 'tuple', ('0', ('index', n[1][2], I)), ('1', ('index', n[1][3], I))))
        if n[0] == 'field' and isinstance(n[2], tuple) and n[2] and n[2][0] in ('index', 'itervar', 'field'):
            inner = canon(n[2])
            if inner != n[2] and inner[0] == 'agg' and inner[1] == 'tuple':
                f = dict(inner[2:])
                if str(n[1]) in f:
                    return canon(f[str(n[1])])
        if n[0] == 'field' and isinstance(n[2], tuple) and n[2] and n[2][0] == 'agg' and n[2][1] == 'tuple':
            f = dict(n[2][2:])
            if str(n[1]) in f:
                return canon(f[str(n[1])])
        if n[0] == 'itervar':
            src = n[1]
            if isinstance(src, tuple) and src[0] in ('range', 'rangeincl'):
                # keep the loop id: two nested loops over identical ranges have different variables
                return ('itervar', tuple(canon(x) if isinstance(x, tuple) else x for x in src)) + tuple(n[2:])
            if isinstance(src, tuple) and src[0] == 'call' and src[1] == 'Iterator::enumerate':
                S = canon(src[2])
                return ('agg', 'tuple', ('0', IDX(S)), ('1', ('index', S, IDX(S))))
            if isinstance(src, tuple) and src[0] == 'call' and src[1] in ('Iterator::zip', 'Iterator::skip', 'Iterator::take', 'Iterator::rev', 'slice::chunks', 'slice::windows', 'Iterator::filter', 'Iterator::map'):
                return ('itervar', canon(src))
            S = canon(src)
            return ('index', S, IDX(S))
        return None
    return simplify(IN.subst(d, fn))


def _chain(facts, d):
    """d = iterator expression -> (SRC, element DAG over the canonical running element, conds) or None"""
    stages = []
    x = d
    while isinstance(x, tuple) and x and x[0] == 'call' and x[1] in ('Iterator::map', 'Iterator::filter', 'Iterator::enumerate') + ADAPTERS_TRANSPARENT:
        stages.append(x)
        x = x[2]
    src = x
    stages.reverse()
    if src[0] == 'agg' and src[1].endswith('Range::Range'):
        f = dict(src[2:])
        cur = ('itervar', ('range', f.get('start'), f.get('end')))
        S = ('range', f.get('start'), f.get('end'))
    else:
        S = canon(src)
        cur = ('index', S, IDX(S))
    conds = []
    first = True
    for st in stages:
        nm = st[1]
        if nm in ADAPTERS_TRANSPARENT:
            continue
        if nm == 'Iterator::enumerate':
            if not first or S[0] == 'range':
                return None         # positions after a filter are not source positions
            cur = ('agg', 'tuple', ('0', IDX(S)), ('1', cur))
            continue
        first = first and nm != 'Iterator::filter'
        cl = st[3] if len(st) > 3 else None
        if not (isinstance(cl, tuple) and cl and cl[0] == 'closure'):
            return None
        r = IN.closure_apply(facts, cl, (cur,))
        if r is None:
            return None
        r = canon(r)
        if nm == 'Iterator::map':
            cur = r
        else:
            from .guards import norm_literal
            conds += norm_literal(r, True)
    return S, canon(cur), conds


def comprehensions(cx, b, d):
    """d: DAG of the vector (e.g. the return value)."""
    out = []
    d = simplify(d)
    # ---- chain forms: collect(chain), or extend(vec, chain) somewhere on the spine
    m = match('(call Iterator::collect $c)', d)
    if m is not None:
        r = _chain(cx.facts, m['c'])
        if r is not None:
            out.append({'src': r[0], 'elem': r[1], 'conds': r[2], 'site': b.file, 'form': 'chain'})
        return out
    # ---- loop forms: every push / extend event on the spine of d
    inits, elems = cx.pushes(b, d)
    dag = b.dag()
    for (callee, path, args) in elems:
        # find the event's site to get its guards
        site_bb = None
        for mu in b.mutations():
            if mu.kind == 'call' and mu.callee == callee:
                a = tuple(simplify(dag.operand(o, mu.bb, len(b.blocks[mu.bb]['stmts']))) for o in mu.args[1:])
                if a == tuple(args):
                    site_bb = mu.bb
                    break
        if callee == 'Vec::push' and len(args) == 1:
            e = canon(args[0])
            conds = []
            if site_bb is not None:
                for a, p in cx.guards(b, site_bb):
                    ca = canon(a)
                    if find('(itervar _)', ca) is not None:
                        conds.append((ca, p))
            src = None
            iv = find('(itervar _)', e)
            for lit, _ in conds:
                iv = iv or find('(itervar _)', lit)
            if iv is not None:
                rg = iv[0][1]
                src = rg[2][1] if (rg[0] == 'range' and isinstance(rg[2], tuple) and rg[2][0] == 'len') else rg
            out.append({'src': src, 'elem': e, 'conds': conds, 'site': site_bb, 'form': 'loop'})
        elif callee == 'Vec::extend' and len(args) == 1:
            r = _chain(cx.facts, args[0])
            if r is not None:
                out.append({'src': r[0], 'elem': r[1], 'conds': r[2], 'site': site_bb, 'form': 'extend'})
            else:
                out.append({'src': None, 'elem': ('extend', canon(args[0])), 'conds': [], 'site': site_bb, 'form': 'extend-opaque'})
    for i in inits:
        out.append({'src': None, 'elem': None, 'init': canon(i), 'conds': [], 'site': None, 'form': 'init'})
    return out


def has_cond(c, pat, pol=True, env=None):
    return any(p == pol and match(pat, a, env) is not None for a, p in c['conds'])
