"""Produce and load MIR/HIR facts for /repo's current working tree.

The facts driver (driver/, rustc_private) is injected with RUSTC_WORKSPACE_WRAPPER under
`cargo +nightly check --offline --lib`.  Facts are keyed by a hash of the sources so that every
verdict is about the tree as it is now; cargo's fingerprint for engeom is removed before each run so
the wrapper cannot be skipped (fail closed if the fact file was not rewritten).
"""
import hashlib, json, os, shutil, subprocess, sys, time, glob

ROOT = os.path.dirname(os.path.dirname(os.path.abspath(__file__)))
REPO = os.environ.get("VERIF_REPO", "/repo")
WORK = os.environ.get("VERIF_WORK") or os.path.join(ROOT, ".work")      # VERIF_WORK: a private cache/target directory (parallel self-test streams)
DRIVER = os.path.join(ROOT, "driver", "target", "release", "factsdrv")


def src_hash(repo=REPO):
    h = hashlib.sha256()
    files = sorted(glob.glob(os.path.join(repo, "src", "**", "*.rs"), recursive=True))
    files += [os.path.join(repo, "Cargo.toml"), os.path.join(repo, "Cargo.lock")]
    for f in files:
        h.update(os.path.relpath(f, repo).encode())
        h.update(b"\0")
        try:
            with open(f, "rb") as fh:
                h.update(fh.read())
        except OSError:
            h.update(b"<missing>")
        h.update(b"\0")
    return h.hexdigest()[:24]


def sysroot():
    return subprocess.check_output(["rustc", "+nightly", "--print", "sysroot"], text=True).strip()


def build_driver():
    if os.path.exists(DRIVER):
        src = os.path.join(ROOT, "driver", "src", "main.rs")
        if os.path.getmtime(src) <= os.path.getmtime(DRIVER):
            return
    env = dict(os.environ, CARGO_NET_OFFLINE="true")
    subprocess.check_call(["cargo", "build", "--release", "--offline"], cwd=os.path.join(ROOT, "driver"), env=env)


def _locked(fn):
    import fcntl
    os.makedirs(os.path.join(WORK, "facts"), exist_ok=True)
    with open(os.path.join(WORK, "lock"), "w") as lk:
        fcntl.flock(lk, fcntl.LOCK_EX)
        try:
            return fn()
        finally:
            fcntl.flock(lk, fcntl.LOCK_UN)


def generate(cfg="default", repo=REPO, crate="engeom", manifest_dir=None, quiet=True):
    """Run the driver for `cfg` ('default' or 'stl'); returns the path to the fact file.
    Serialised across processes: checks of different properties may be started concurrently and share the target directory."""
    return _locked(lambda: _generate(cfg, repo, crate, manifest_dir, quiet))


def _read(cfg, repo, crate, manifest_dir):
    path = _generate(cfg, repo, crate, manifest_dir, True)
    with open(path) as fh:
        return json.load(fh)


def _generate(cfg, repo, crate, manifest_dir, quiet):
    build_driver()
    h = src_hash(repo)
    if manifest_dir:        # a fixture crate analysed against the current tree: key the cache on both
        hh = hashlib.sha256(h.encode())
        for f in sorted(glob.glob(os.path.join(manifest_dir, "src", "**", "*.rs"), recursive=True)):
            with open(f, "rb") as fh:
                hh.update(fh.read())
        h = hh.hexdigest()[:24]
    out = os.path.join(WORK, "facts", f"{crate}-{cfg}.json")
    if os.path.exists(out) and not os.environ.get("VERIF_FORCE_FACTS"):
        try:
            with open(out) as fh:
                head = fh.read(200)
            if f'"src_hash":"{h}"' in head:
                return out
        except OSError:
            pass
    target = os.path.join(WORK, "target")
    os.makedirs(target, exist_ok=True)
    # force the wrapper to run for the analysed crate
    for fp in glob.glob(os.path.join(target, "debug", ".fingerprint", f"{crate}-*")):
        shutil.rmtree(fp, ignore_errors=True)
    if os.path.exists(out):
        os.remove(out)
    env = dict(os.environ)
    env.update({
        "CARGO_NET_OFFLINE": "true",
        "LD_LIBRARY_PATH": os.path.join(sysroot(), "lib") + ":" + env.get("LD_LIBRARY_PATH", ""),
        "RUSTFLAGS": "-Zmir-opt-level=0 -Awarnings",
        "RUSTC_WORKSPACE_WRAPPER": DRIVER,
        "CARGO_TARGET_DIR": target,
        "FACTS_CRATES": crate,
        "FACTS_OUT": out,
        "FACTS_SRC_HASH": h,
    })
    cmd = ["cargo", "+nightly", "check", "--offline", "--lib"]
    if cfg == "stl":
        cmd += ["--features", "stl"]
    t0 = time.time()
    p = subprocess.run(cmd, cwd=manifest_dir or repo, env=env, stdout=subprocess.PIPE, stderr=subprocess.STDOUT, text=True)
    if p.returncode != 0:
        sys.stdout.write(p.stdout[-4000:])
        raise SystemExit(f"facts: cargo check failed for cfg={cfg} (the tree does not build)")
    if not os.path.exists(out):
        sys.stdout.write(p.stdout[-2000:])
        raise SystemExit("facts: driver did not write the fact file (fail closed)")
    if not quiet:
        print(f"facts[{cfg}]: generated in {time.time()-t0:.1f}s -> {out}")
    return out


def load(cfg="default", **kw):
    d = _locked(lambda: _read(cfg, kw.get("repo", REPO), kw.get("crate", "engeom"), kw.get("manifest_dir")))
    if d.get("src_hash") != src_hash(kw.get("repo", REPO)) and kw.get("crate", "engeom") == "engeom":
        raise SystemExit("facts: stale fact file (hash mismatch) - fail closed")
    return d


def load_fixtures(repo=None):
    """facts of the fixture crate (/verif/fixtures, path-dependent on the analysed tree), built in .work/fixtures"""
    repo = repo or REPO
    return _locked(lambda: _load_fixtures(repo))


def _load_fixtures(repo):
    src = os.path.join(ROOT, "fixtures")
    dst = os.path.join(WORK, "fixtures")
    shutil.rmtree(dst, ignore_errors=True)
    shutil.copytree(src, dst, ignore=shutil.ignore_patterns("target", "Cargo.lock"))
    with open(os.path.join(dst, "Cargo.toml")) as fh:
        t = fh.read()
    with open(os.path.join(dst, "Cargo.toml"), "w") as fh:
        fh.write(t.replace('path = "/repo"', f'path = "{os.path.abspath(repo)}"'))
    shutil.copy(os.path.join(repo, "Cargo.lock"), os.path.join(dst, "Cargo.lock"))
    return _read("default", repo, "vfix", dst)


if __name__ == "__main__":
    for cfg in sys.argv[1:] or ["default"]:
        generate(cfg, quiet=False)
