"""Rule-evaluation context: anchors, obligations, violations, helpers shared by the per-property rule files."""
import json, os, time
from .core import simplify, show, name_match, subterms, Site
from .pattern import P, DEFAULT, match, find
from . import guards as G


class Obligation:
    __slots__ = ('rule', 'key', 'ok', 'desc', 'where', 'found', 'expected')

    def __init__(self, rule, key, ok, desc, where=None, found=None, expected=None):
        self.rule, self.key, self.ok, self.desc = rule, key, ok, desc
        self.where, self.found, self.expected = where, found, expected

    def to_json(self):
        d = {'rule': self.rule, 'key': self.key, 'verdict': 'holds' if self.ok else 'VIOLATED', 'what': self.desc}
        if self.where:
            d['where'] = self.where
        if self.found is not None:
            d['found'] = self.found
        if self.expected is not None:
            d['expected'] = self.expected
        return d


class Ctx:
    def __init__(self, facts, prop, tier='quick', cfg='default'):
        self.facts = facts
        self.prop = prop
        self.tier = tier
        self.cfg = cfg
        self.obs = []
        self.analysed_fns = set()
        self.notes = []
        from . import pattern as _P, inline as _I
        self._P = _P
        try:
            with open(os.path.join(os.path.dirname(os.path.dirname(os.path.abspath(__file__))), 'rules', 'param_names.json')) as fh:
                self._pnames = json.load(fh)
        except OSError:
            self._pnames = {}
        _P.EXPANDER = lambda d, keep, facts=facts: _I.expand(facts, d, 0, keep)
        _P.LIFTER = _I.lift_phi

    # ---------------------------------------------------------------- anchors
    def fn(self, name, where=None, rule='ANCHOR'):
        b = self.facts.fn(name, where)
        if b is None:
            self.ob(rule, f'anchor:{name}' + (f'[{where}]' if where else ''), False,
                    f'anchored function {name} not found (or ambiguous) in the current tree - fail closed', where=None)
            return None
        self.analysed_fns.add(b.name)
        self.focus(b)
        return b

    def focus(self, body):
        """patterns name parameters as they were called when the rules were written; a later rename is resolved by position"""
        old = self._pnames.get(body.name)
        cur = [body.local_name(i) for i in range(1, body.argc + 1)]
        if old and len(old) == len(cur) and old != cur:
            self._P.PARAM_ALIAS = {n: i + 1 for i, n in enumerate(old) if n}
            self._P.PARAM_CURRENT = tuple(c for c in cur if c)
        else:
            self._P.PARAM_ALIAS = None
            self._P.PARAM_CURRENT = ()

    def pidx(self, body, name):
        """position of the parameter called `name` now, or that was called `name` when the rules were written"""
        i = body.param_index(name)
        if i:
            return i
        old = self._pnames.get(body.name) or []
        return old.index(name) + 1 if name in old and len(old) == body.argc else None

    def adt(self, path):
        a = self.facts.adt(path)
        if a is None:
            self.ob('ANCHOR', f'anchor:adt:{path}', False, f'anchored type {path} not found - fail closed')
        return a

    # ---------------------------------------------------------------- obligations
    def ob(self, rule, key, ok, desc, where=None, found=None, expected=None):
        if found is not None and not isinstance(found, str):
            found = show(found)
        if isinstance(where, Site):
            where = where.span
        o = Obligation(rule, f'{self.prop}:{rule}:{key}', bool(ok), desc, where, found, expected)
        for prev in self.obs:
            if prev.key == o.key and prev.ok == o.ok:
                return bool(ok)      # the same obligation reached through another site
        self.obs.append(o)
        return bool(ok)

    def floor(self, rule, key, count, floor, what):
        return self.ob(rule, f'{key}:floor', count >= floor, f'{what}: {count} instance(s) analysed (floor {floor})',
                       found=str(count), expected=f'>= {floor}')

    def note(self, s):
        self.notes.append(s)

    # ---------------------------------------------------------------- DAG helpers
    def arg(self, site, k):
        b = site.body
        self.focus(b)
        t = site.data
        if k >= len(t['args']):
            return ('missing',)
        return simplify(b.dag().operand(t['args'][k], site.bb, site.idx))

    def call(self, site):
        return simplify(site.body.dag().call_dag(site.data, site.bb))

    def aggval(self, site):
        return simplify(site.body.dag().rvalue(site.data['rv'], site.bb, site.idx))

    def rets(self, body):
        """[(site, dag)] for every definition of the return place"""
        out = []
        dag = body.dag()
        for (bb, pos, kind, payload) in body.defs().get(0, []):
            if bb not in body.reachable():
                continue
            if kind == 'assign':
                out.append((Site(body, bb, pos, 'ret', payload), simplify(dag.rvalue(payload['rv'], bb, pos))))
            elif kind == 'call':
                d = simplify(dag.call_dag(payload, bb))
                if d[0] == 'call' and d[1] == 'Result::ok' and len(d) == 3:
                    # `x.ok()` as the returned value = `if let Ok(v) = x { Some(v) } else { None }`: present the Some exit
                    d = ('agg', 'option::Option::Some', ('0', ('unwrap', d[2])))
                if d[0] == 'call' and d[1] in ('bool::then_some', 'bool::then') and len(d) == 4:
                    # `cond.then_some(v)` / `cond.then(|| v)` as the returned value: a Some exit under cond and a None exit under !cond
                    from .core import VBlock
                    from . import inline as _IN
                    v = d[3] if d[1] == 'bool::then_some' else (_IN.closure_apply(self.facts, d[3], ()) if d[3][0] == 'closure' else None)
                    if v is not None:
                        op = payload['args'][0]
                        out.append((Site(body, VBlock(bb, (op, True)), pos, 'ret', payload), ('agg', 'option::Option::Some', ('0', v))))
                        out.append((Site(body, VBlock(bb, (op, False)), pos, 'ret', payload), ('agg', 'option::Option::None')))
                        continue
                out.append((Site(body, bb, pos, 'ret', payload), d))
            elif kind == 'mut':
                out.append((Site(body, bb, pos, 'ret', payload.data), simplify(dag.local(0, bb, pos + 1))))
        return out

    def retval(self, body):
        """the DAG of _0 at the (unique) return; phi over all definitions"""
        self.focus(body)
        ex = body.exits()
        if not ex:
            return ('undef', 0)
        alts = [body.dag().local(0, e, len(body.blocks[e]['stmts']) + 1) for e in ex]
        from .core import mk_phi
        return simplify(mk_phi(alts))

    def guards(self, body, bb):
        self.focus(body)
        base = G.must_literals(body).get(int(bb), frozenset())
        cond = getattr(bb, 'cond', None)
        if cond is not None:
            op, pol = cond
            d = simplify(body.dag().operand(op, int(bb), len(body.blocks[int(bb)]['stmts'])))
            if d[0] not in ('phi', 'loop'):
                base = base | frozenset(G.norm_literal(d, pol))
        return base

    def guarded(self, body, bb, atom_pat, pol, env=None):
        """is block bb dominated by literal (atom matching atom_pat, pol)?  -> env or None"""
        pp = P(atom_pat) if isinstance(atom_pat, str) else atom_pat
        for (atom, p) in self.guards(body, bb):
            if p != pol:
                continue
            e = DEFAULT.match(pp, atom, env)
            if e is not None:
                return e
        return None

    def guarded_canon(self, body, bb, atom_pat, pol, env=None):
        """like guarded(), on the canonical index form of the literals (vpa/comp.py): a loop over `0..n` with `v[i]`, over `v.iter().enumerate()`
        or over `.enumerate().skip(k)` all look the same"""
        from . import comp as _C
        pp = P(atom_pat) if isinstance(atom_pat, str) else atom_pat
        for (atom, p) in self.guards(body, bb):
            if p != pol:
                continue
            e = DEFAULT.match(pp, _C.canon(atom), env)
            if e is not None:
                return e
        return None

    def all_paths(self, body, bb, pred):
        """pred(has) must hold on every back-edge-free path entry->bb; has(atom_pat, pol) tests the path's literals.
        -> (ok, offending literal set)"""
        try:
            sets = G.path_literal_sets(body, int(bb), final=getattr(bb, 'cond', None))
        except OverflowError:
            return False, ['<too many paths: fail closed>']
        for lits in sets:
            def has(pat, pol, env=None, lits=lits):
                pp = P(pat) if isinstance(pat, str) else pat
                return any(p == pol and DEFAULT.match(pp, a, env) is not None for a, p in lits)
            if not pred(has):
                return False, sorted(('' if p else 'NOT ') + show(a) for a, p in lits)
        return True, None

    def show_guards(self, body, bb):
        return sorted(('' if p else 'NOT ') + show(a) for a, p in self.guards(body, bb))

    def expect(self, rule, key, dag, pat, desc, where=None, env=None):
        """obligation: dag matches pat; returns env or None"""
        e = match(pat, dag, env)
        self.ob(rule, key, e is not None, desc, where=where, found=None if e is not None else dag,
                expected=None if e is not None else pat)
        return e

    def unroll(self, body, d, depth=1):
        """replace every (loop _l@bbH) marker in d by the value carried over the back edge(s) of H (one iteration)"""
        dag = body.dag()

        def rec(x, k):
            if not isinstance(x, tuple) or not x:
                return x
            if x[0] == 'loop':
                if k <= 0 or x[2] < 0:
                    return x
                c = simplify(dag.carried(x[1], x[2]))
                return rec(c, k - 1)
            if x[0] in ('param', 'const', 'fn', 'undef'):
                return x
            return tuple(rec(y, k) if isinstance(y, tuple) else y for y in x)
        return simplify(rec(d, depth))

    def pushes(self, body, d):
        """for a collection value d built in loops: (initial alternatives, [(callee, path, args)] of the in-place writes).
        Only the spine of the collection is unrolled (loop markers of the collection itself), never the element values."""
        dag = body.dag()
        inits, elems = [], []
        seen = set()

        def rec(x):
            if not isinstance(x, tuple) or not x:
                return
            if x[0] == 'phi':
                for a in x[1:]:
                    rec(a)
            elif x[0] == 'mut':
                rec(x[3])
                e = (x[1], x[2], x[4:])
                if e not in elems:
                    elems.append(e)
            elif x[0] == 'loop':
                if (x[1], x[2]) in seen or x[2] < 0:
                    return
                seen.add((x[1], x[2]))
                rec(simplify(dag.carried(x[1], x[2])))
            else:
                if x not in inits:
                    inits.append(x)
        rec(simplify(d))
        return inits, elems

    def alts(self, b, op, bb, pos, proj=()):
        """gated alternatives of an operand: [(def block, DAG of that alternative, must-literals at the def block)].
        Follows plain copies and field projections back to the local that has several reaching definitions."""
        from .core import mk_field, const_of
        if op['k'] == 'const':
            return [(bb, const_of(op), self.guards(b, bb))]
        if op['k'] not in ('copy', 'move'):
            return [(bb, ('other',), self.guards(b, bb))]
        pl = op['pl']
        fields = [e['n'] or str(e['f']) for e in pl['p'] if isinstance(e, dict) and 'f' in e]
        if any(isinstance(e, dict) and ('idx' in e or 'cidx' in e or 'dc' in e) for e in pl['p']):
            d = simplify(b.dag().place(pl, bb, pos))
            for f in proj:
                d = mk_field(f, d)
            return [(bb, simplify(d), self.guards(b, bb))]
        proj = tuple(fields) + tuple(proj)
        ds = b.reaching(pl['l'], bb, pos)
        out = []
        for d in ds:
            if d[0] in ('param', 'undef', 'carried'):
                v = simplify(b.dag().local(pl['l'], bb, pos))
                for f in proj:
                    v = mk_field(f, v)
                out.append((bb, simplify(v), self.guards(b, bb)))
                continue
            dbb, dpos, kind, payload = d
            if kind == 'assign' and payload['rv']['k'] == 'use' and payload['rv']['a']['k'] in ('copy', 'move', 'const'):
                # a copy made inside a branch keeps that branch's literals (`let x = if c { f(y) } else { y }`: the else alternative is y UNDER not c)
                here = list(self.guards(b, dbb))
                out.extend((bb2, dv2, list(g2) + [l for l in here if l not in g2]) for bb2, dv2, g2 in self.alts(b, payload['rv']['a'], dbb, dpos, proj))
                continue
            if kind == 'assign' and payload['rv']['k'] == 'ref' and not any(isinstance(e, dict) and ('idx' in e or 'cidx' in e or 'dc' in e) for e in payload['rv']['pl']['p']):
                rp = payload['rv']['pl']
                # a reborrow &*x is x for the value DAG (references are transparent there)
                rp = {'l': rp['l'], 'p': [e for e in rp['p'] if e != 'deref']}
                out.extend(self.alts(b, {'k': 'copy', 'pl': rp}, dbb, dpos, proj))
                continue
            if kind == 'call' and payload.get('args'):
                from .core import TRANSPARENT
                name, _ = b.callee(payload)
                if (name in TRANSPARENT or name.endswith(('::clone', '::deref', '::deref_mut'))) and payload['args'][0]['k'] in ('copy', 'move'):
                    out.extend(self.alts(b, payload['args'][0], dbb, len(b.blocks[dbb]['stmts']), proj))
                    continue
            v = b.dag().defdag(pl['l'], d)
            for f in proj:
                v = mk_field(f, v)
            out.append((dbb, simplify(v), self.guards(b, dbb)))
        return out

    def arg_alts(self, site, k):
        return self.alts(site.body, site.data['args'][k], site.bb, site.idx)

    # ---------------------------------------------------------------- closures
    def locals_by_def(self, body, pat, env=None, whole=True):
        """locals identified by ROLE, not by name: those with a (whole-local) definition whose value DAG matches pat"""
        out = []
        dag = body.dag()
        for l, ds in body.defs().items():
            if l == 0 or 1 <= l <= body.argc:
                continue
            for d in ds:
                if d[2] == 'mut':
                    continue
                if d[2] == 'assign' and d[3]['pl']['p']:
                    continue
                try:
                    v = simplify(dag.defdag(l, d))
                except Exception:
                    continue
                if match(pat, v, env) is not None:
                    out.append(l)
                    break
        # prefer user variables over compiler temporaries that merely copy them
        named = [l for l in out if body.local_name(l)]
        return named or out

    def push_events(self, body, callee='Vec::push'):
        """[(site, element DAG)] for every `callee` (Vec::push by default) performed by body - directly, or by a loop-free crate-local
        helper that is handed `&mut` to the vector (the helper's element DAGs are re-expressed over the caller's arguments)"""
        from . import inline as IN
        out = []
        for s_ in body.calls(callee):
            out.append((s_, self.arg(s_, 1)))
        for s_ in body.calls('*'):
            name, raw = body.callee(s_.data)
            f = self.facts.bodies.get(raw) if raw else None
            if f is None or f.loops() or f is body:
                continue
            mutp = [i + 1 for i in range(f.argc) if f.local_ty(i + 1).startswith('&mut')]
            if not mutp:
                continue
            cargs = tuple(self.arg(s_, k) for k in range(len(s_.data['args'])))
            for m in f.mutations():
                if m.kind == 'call' and m.callee == callee and m.root in mutp:
                    n = len(f.blocks[m.bb]['stmts'])
                    e = simplify(f.dag().operand(m.args[1], m.bb, n))

                    def sub(x, cargs=cargs):
                        if x[0] == 'param' and 1 <= x[1] <= len(cargs):
                            return cargs[x[1] - 1]
                        return None
                    out.append((s_, simplify(IN.subst(e, sub))))
        return out

    def pushes_through(self, body, d):
        """cx.pushes, following ONE crate-local helper that builds and returns the vector (`let v = helper(args)`): the helper's
        initial values and in-place writes, re-expressed over the caller's arguments"""
        from . import inline as IN
        d = simplify(d)
        if d[0] == 'call' and isinstance(d[1], str):
            lst = self.facts.by_short.get(d[1], [])
            if len(lst) == 1 and lst[0] is not body and len(d) - 2 == lst[0].argc:
                h = lst[0]
                args = d[2:]

                def sub(x):
                    if x[0] == 'param' and 1 <= x[1] <= len(args):
                        return args[x[1] - 1]
                    return None
                inits, elems = self.pushes(h, self.retval(h))
                self.focus(body)
                return ([simplify(IN.subst(i, sub)) for i in inits],
                        [(c, pth, tuple(simplify(IN.subst(a, sub)) if isinstance(a, tuple) else a for a in ar)) for (c, pth, ar) in elems])
        return self.pushes(body, d)

    def expect_comp(self, rule, key, body, d, src_pat, elem_pat, desc, where=None, n_conds=0, env=None):
        """obligation: the collection d is ONE comprehension `[elem(x) for x in src]` (push loop, index loop or iterator chain alike,
        vpa/comp.py) whose source matches src_pat, whose element matches elem_pat over the canonical running element
        `(index SRC (itervar (range 0 (len SRC))))`, with exactly n_conds filter conditions.  -> env or None"""
        from . import comp as _C
        comps = [c for c in _C.comprehensions(self, body, d) if c.get('elem') is not None]
        e = None
        if len(comps) == 1 and len(comps[0]['conds']) == n_conds:
            c = comps[0]
            e1 = match(src_pat, c['src'], env) if c['src'] is not None else None
            e = match(elem_pat, c['elem'], e1) if e1 is not None else None
        self.ob(rule, key, e is not None, desc, where=where or body.file,
                found=None if e is not None else '; '.join(f"{c['form']}: src={show(c['src']) if c['src'] else None} elem={show(c['elem'])[:200]} conds={len(c['conds'])}" for c in comps) or show(d)[:300])
        return e

    def expect_reduce(self, rule, key, body, d, ops, src_pat, elem_pat, desc, where=None, init_pat=None, n_conds=0, env=None):
        """obligation: the scalar d folds ONE sequence (vpa/comp.py reduction: accumulator loop or iterator chain alike) with an operation in `ops`,
        source matching src_pat, element matching elem_pat over the canonical running element, exactly n_conds conditions and, when given, an
        initial value matching init_pat.  -> (env, reduction record) or (None, record)"""
        from . import comp as _C
        r = _C.reduction(self, body, d)
        e = None
        if r is not None and r['op'] in ops and len(r['conds']) == n_conds and r['src'] is not None:
            e1 = match(src_pat, r['src'], env)
            e = match(elem_pat, r['elem'], e1) if e1 is not None else None
            if e is not None and init_pat is not None:
                e = match(init_pat, r['init'], e) if r['init'] is not None else None
        self.ob(rule, key, e is not None, desc, where=where or body.file,
                found=None if e is not None else (f"{r['form']}: op={r['op']} init={show(r['init']) if r['init'] else None} src={show(r['src']) if r['src'] else None} "
                                                  f"elem={show(r['elem'])[:240]} conds={len(r['conds'])}" if r else show(d)[:300]))
        return e, r

    def cases_by(self, body, site, operands, split_pat):
        """the values of several operands at `site`, separated by the polarity of ONE branch condition: {True: [dag...], False: [dag...]}.
        Works whether the code has two sites under `if c {..} else {..}` (then call it per site: the side not taken is None) or one site
        fed by `let (a, b) = if c {..} else {..}` (merged branches): each operand's alternatives are told apart by the guards at their
        definition. An operand with a single unconditional definition belongs to both sides."""
        # split_pat: a pattern, or (pattern of the condition, pattern of its complement) for enum tests that the literal normaliser turns
        # into the other variant (`x is Some` false  ==  `x is None` true)
        if isinstance(split_pat, tuple) and len(split_pat) == 2 and all(isinstance(x, str) for x in split_pat):
            pt, pf = P(split_pat[0]), P(split_pat[1])
        else:
            pt, pf = (P(split_pat) if isinstance(split_pat, str) else split_pat), None

        def side(lits):
            """True / False if the literal set decides the condition, else None"""
            for a, p in lits:
                if DEFAULT.match(pt, a) is not None:
                    return p
                if pf is not None and DEFAULT.match(pf, a) is not None:
                    return not p
            return None
        out = {True: [], False: []}
        site_side = side(self.guards(body, site.bb))
        for op in operands:
            al = self.alts(body, op, site.bb, site.idx)
            for pol in (True, False):
                if site_side is not None and site_side != pol:
                    out[pol].append(None)
                    continue
                pick = [dv for (dbb, dv, g) in al if side(g) == pol]
                if not pick and len(al) == 1 and (side(al[0][2]) is None or site_side is not None):
                    pick = [al[0][1]]
                out[pol].append(pick[0] if len(pick) == 1 else None)
        return out

    def returned_locals(self, body):
        """locals whose value is moved/copied into the return place (through whole-local copies), found by role not by name"""
        out = set()
        work = [0]
        seen = set()
        while work:
            l = work.pop()
            if l in seen:
                continue
            seen.add(l)
            for (bb, pos, kind, pay) in body.defs().get(l, []):
                if kind == 'assign' and not pay['pl']['p'] and pay['rv']['k'] == 'use' and pay['rv']['a']['k'] in ('copy', 'move') and not pay['rv']['a']['pl']['p']:
                    src = pay['rv']['a']['pl']['l']
                    out.add(src)
                    work.append(src)
        return out

    def closure_body(self, defpath):
        for b in self.facts.bodies.values():
            if b.path == defpath:
                return b
        return None

    def closure_ret(self, cl):
        """(body, return DAG) of a ('closure', defpath, caps..) node; captures appear as (field cap:NAME (param _1))"""
        b = self.closure_body(cl[1])
        if b is None:
            return None, None
        return b, self.retval(b)
