"""Tiny polynomial normal form over value DAGs: add/sub/mul/neg/const are expanded, every other node is an atom.
Used for identities such as "the barycentric weights sum to one" (affine combinations stay on the triangle)."""
from .core import show


def poly(d):
    """-> dict {tuple(sorted atom reprs): coefficient}"""
    h = d[0]
    if h == 'const' and isinstance(d[1], (int, float)) and not isinstance(d[1], bool):
        return {(): float(d[1])} if d[1] != 0 else {}
    if h in ('add', 'sub'):
        a, b = poly(d[1]), poly(d[2])
        out = dict(a)
        for k, v in b.items():
            out[k] = out.get(k, 0.0) + (v if h == 'add' else -v)
        return {k: v for k, v in out.items() if abs(v) > 1e-12}
    if h == 'neg':
        return {k: -v for k, v in poly(d[1]).items()}
    if h == 'mul':
        a, b = poly(d[1]), poly(d[2])
        out = {}
        for ka, va in a.items():
            for kb, vb in b.items():
                k = tuple(sorted(ka + kb))
                out[k] = out.get(k, 0.0) + va * vb
        return {k: v for k, v in out.items() if abs(v) > 1e-12}
    return {(show(d),): 1.0}


def is_const(p, c):
    return p == ({(): float(c)} if c != 0 else {})


def _mulp(a, b):
    out = {}
    for ka, va in a.items():
        for kb, vb in b.items():
            k = tuple(sorted(ka + kb))
            out[k] = out.get(k, 0.0) + va * vb
    return {k: v for k, v in out.items() if abs(v) > 1e-9}


def _addp(a, b, sign=1.0):
    out = dict(a)
    for k, v in b.items():
        out[k] = out.get(k, 0.0) + sign * v
    return {k: v for k, v in out.items() if abs(v) > 1e-9}


def rat(d):
    """rational normal form (numerator poly, denominator poly): add/sub/mul/div/neg/powi(k)/const expanded, the rest atoms"""
    h = d[0]
    if h == 'const' and isinstance(d[1], (int, float)) and not isinstance(d[1], bool):
        return ({(): float(d[1])} if d[1] != 0 else {}), {(): 1.0}
    if h in ('add', 'sub'):
        (n1, d1), (n2, d2) = rat(d[1]), rat(d[2])
        return _addp(_mulp(n1, d2), _mulp(n2, d1), 1.0 if h == 'add' else -1.0), _mulp(d1, d2)
    if h == 'neg':
        n, dd = rat(d[1])
        return {k: -v for k, v in n.items()}, dd
    if h == 'mul':
        (n1, d1), (n2, d2) = rat(d[1]), rat(d[2])
        return _mulp(n1, n2), _mulp(d1, d2)
    if h == 'div':
        (n1, d1), (n2, d2) = rat(d[1]), rat(d[2])
        return _mulp(n1, d2), _mulp(d1, n2)
    if h == 'call' and d[1] == 'f64::powi' and len(d) == 4 and d[3][0] == 'const' and isinstance(d[3][1], int) and 0 <= d[3][1] <= 4:
        n, dd = rat(d[2])
        rn, rd = {(): 1.0}, {(): 1.0}
        for _ in range(d[3][1]):
            rn, rd = _mulp(rn, n), _mulp(rd, dd)
        return rn, rd
    return {(show(d),): 1.0}, {(): 1.0}


def rat_equal(a, b):
    """a == b as rational functions (cross-multiplied polynomial identity)"""
    (n1, d1), (n2, d2) = rat(a), rat(b)
    return _addp(_mulp(n1, d2), _mulp(n2, d1), -1.0) == {}
