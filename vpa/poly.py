"""Tiny polynomial normal form over value DAGs: add/sub/mul/neg/const are expanded, every other node is an atom.
Used for identities such as "the barycentric weights sum to one" (affine combinations stay on the triangle)."""
from .core import show


def poly(d):
    """-> dict {tuple(sorted atom reprs): coefficient}"""
    h = d[0]
    if h == 'const' and isinstance(d[1], (int, float)) and not isinstance(d[1], bool):
        return {(): float(d[1])} if d[1] != 0 else {}
    if h in ('add', 'sub'):
        a, b = poly(d[1]), poly(d[2])
        out = dict(a)
        for k, v in b.items():
            out[k] = out.get(k, 0.0) + (v if h == 'add' else -v)
        return {k: v for k, v in out.items() if abs(v) > 1e-12}
    if h == 'neg':
        return {k: -v for k, v in poly(d[1]).items()}
    if h == 'mul':
        a, b = poly(d[1]), poly(d[2])
        out = {}
        for ka, va in a.items():
            for kb, vb in b.items():
                k = tuple(sorted(ka + kb))
                out[k] = out.get(k, 0.0) + va * vb
        return {k: v for k, v in out.items() if abs(v) > 1e-12}
    return {(show(d),): 1.0}


def is_const(p, c):
    return p == ({(): float(c)} if c != 0 else {})
