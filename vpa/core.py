"""Core of the static analyser: CFG, dominators, loops, mutation/alias summary, value DAGs.

Works on the JSON facts emitted by driver/ (MIR at mir-opt-level=0 of the type-checked crate).
Nothing here executes engeom code; everything is graph/term manipulation.
"""
import re
from collections import defaultdict
from functools import lru_cache

# ------------------------------------------------------------------------------------------------
# names


def _strip_generics(s):
    out = []
    depth = 0
    i = 0
    while i < len(s):
        c = s[i]
        if c == '<':
            depth += 1
        elif c == '>' and (i == 0 or s[i - 1] != '-'):
            depth -= 1
        elif depth == 0:
            out.append(c)
        i += 1
    r = ''.join(out)
    while '::::' in r:
        r = r.replace('::::', '::')
    if r.endswith('::'):
        r = r[:-2]
    return r


def _last_ident(ty):
    ty = ty.strip()
    ty = re.sub(r"^&(?:'\w+ )?(?:mut )?", '', ty)
    if ty.startswith('['):
        return 'slice'
    t = _strip_generics(ty)
    return t.split('::')[-1] or ty


def _split_top(s, sep):
    """split s at top-level (outside <> () []) occurrences of sep"""
    out = []
    d = 0
    i = 0
    last = 0
    while i < len(s):
        c = s[i]
        if c in '<([':
            d += 1
        elif c in ')]' or (c == '>' and (i == 0 or s[i - 1] != '-')):
            d -= 1
        elif d == 0 and s.startswith(sep, i):
            out.append(s[last:i])
            i += len(sep)
            last = i
            continue
        i += 1
    out.append(s[last:])
    return out


_STD_ROOTS = ('std::', 'core::', 'alloc::')
LOCAL_ROOTS = set()   # first path segments of crate-local modules, filled by db.Facts


def _type_name(x, local):
    """name used for a self type in a short callee name"""
    x = x.strip()
    x = re.sub(r"^&(?:'\w+ )?(?:mut )?", '', x)
    if x.startswith('['):
        return 'slice'
    if x.startswith('('):
        return 'tuple'
    if x.startswith('dyn '):
        x = x[4:]
    t = _strip_generics(x)
    if local and '::' in t and t.split('::')[0] in LOCAL_ROOTS:
        return t
    return t.split('::')[-1] or x


@lru_cache(maxsize=None)
def short_name(path, local=False):
    """Canonical short callee name.

    crate-local items keep their module path (without generic arguments): geom2::curve2::Curve2::length;
    `<X as Trait>::m` -> X::m ; `a::b::<impl Tr for X>::m` -> X::m ; `a::b::<impl X>::m` -> X::m ;
    foreign items keep their last two segments (Vec::push, f64::abs, Matrix::norm).
    """
    if path is None:
        return 'indirect'
    segs = _split_top(path, '::')
    if len(segs) == 1:
        return _strip_generics(path)
    # closures and nested items: keep everything after resolving the leading part
    # find the last segment that is an `<impl ..>` or `<X as T>` qualifier
    qi = -1
    for i, sg in enumerate(segs):
        if sg.startswith('<impl ') or (sg.startswith('<') and i == 0 and len(_split_top(sg[1:-1], ' as ')) == 2):
            qi = i
    if qi >= 0:
        q = segs[qi]
        rest = [_strip_generics(x) for x in segs[qi + 1:]]
        rest = [r for r in rest if r]
        if q.startswith('<impl '):
            inner = q[6:-1]
            parts = _split_top(inner, ' for ')
            x = parts[-1]
        else:
            x = _split_top(q[1:-1], ' as ')[0]
        tn = _type_name(x, local)
        if not local and len(rest) > 1:
            rest = rest[-1:]
        return '::'.join([tn] + rest)
    clean = [_strip_generics(x) for x in segs]
    clean = [c for c in clean if c]
    if local:
        return '::'.join(clean)
    return '::'.join(clean[-2:])


def trait_of_impl(path):
    """For `…::<impl Tr<..> for X>::m` return (Tr<..>, X) else None."""
    m = re.search(r'<impl (.*)>::[^:]+$', path or '')
    if not m:
        return None
    inner = m.group(1)
    dd = 0
    for j in range(len(inner)):
        if inner[j] == '<':
            dd += 1
        elif inner[j] == '>' and inner[j - 1] != '-':
            dd -= 1
        elif dd == 0 and inner.startswith(' for ', j):
            return inner[:j], inner[j + 5:]
    return None, inner


# ------------------------------------------------------------------------------------------------
# callee classes used by the DAG normaliser

TRANSPARENT = {
    'Vec::deref', 'Vec::deref_mut', 'Unit::deref', 'Box::deref', 'String::deref', 'Arc::deref', 'Rc::deref',
    'Vec::as_slice', 'Vec::as_mut_slice', 'Vec::as_ref', 'Vec::borrow',
    'Unit::into_inner', 'Unit::as_ref',
    'OPoint::deref', 'Matrix::deref', 'OPoint::deref_mut', 'Matrix::deref_mut',
    'slice::iter', 'slice::into_iter', 'Vec::into_iter', 'Vec::iter', 'I::into_iter', 'Iterator::copied', 'Iterator::cloned',
    'Iterator::by_ref', 'Option::as_ref', 'Option::as_mut', 'Option::copied', 'Option::cloned', 'slice::to_vec', 'slice::to_owned',
    'hint::must_use', 'Vec::clone', 'Option::clone', 'OPoint::clone', 'Matrix::clone', 'Unit::clone', 'Isometry::clone',
    'T::clone', 'Box::new', 'Option::as_deref', 'convert::identity', 'slice::iter_mut', 'Vec::iter_mut',
}
UNWRAP = {'Option::unwrap', 'Option::expect', 'Result::unwrap', 'Result::expect', 'Option::unwrap_unchecked'}
LEN = {'Vec::len', 'slice::len', 'VecDeque::len'}
MUT_PROJ = {  # calls returning a reference into their first (&mut) argument
    'Vec::deref_mut', 'Vec::index_mut', 'Vec::as_mut_slice', 'slice::index_mut', 'slice::iter_mut', 'Vec::iter_mut',
    'slice::last_mut', 'slice::first_mut', 'slice::get_mut', 'Vec::as_mut', 'Option::as_mut', 'HashMap::get_mut',
    'Matrix::index_mut', 'OPoint::index_mut', 'OPoint::deref_mut', 'Matrix::deref_mut', 'Option::unwrap', 'Option::expect',
    'HashMap::entry', 'Entry::or_insert', 'Entry::or_default', 'Entry::or_insert_with', 'slice::chunks_mut',
    'I::into_iter', 'Iterator::enumerate', 'Iterator::skip', 'Iterator::take', 'Iterator::zip', 'Iterator::rev',
    'Iterator::by_ref', 'IterMut::next', 'Enumerate::next', 'Skip::next', 'Take::next', 'Zip::next', 'Rev::next',
    'Mat::index_mut', 'Col::index_mut',
    'Option::iter_mut', 'Iterator::flatten', 'Flatten::next', 'Enumerate::next', 'Iterator::map',
}
COMMUTATIVE = {'add', 'mul', 'eq', 'ne', 'bitand', 'bitor', 'bitxor'}
CMP_FLIP = {'gt': 'lt', 'ge': 'le'}


class VBlock(int):
    """a block id that additionally carries `cond` = (operand, polarity): the synthetic Some / None exit of `cond.then_some(v)`,
    `cond.then(|| v)` returned as the function's value.  It IS the block (every CFG query works); the guard queries add the condition."""
    def __new__(cls, bb, cond):
        o = int.__new__(cls, bb)
        o.cond = cond
        return o


class Site:
    __slots__ = ('body', 'bb', 'idx', 'kind', 'data')

    def __init__(self, body, bb, idx, kind, data):
        self.body, self.bb, self.idx, self.kind, self.data = body, bb, idx, kind, data

    @property
    def span(self):
        d = self.data
        sp = d.get('sp') if isinstance(d, dict) else None
        if sp:
            f = sp['file']
            f = f[f.find('src/'):] if 'src/' in f else f
            return f"{f}:{sp['line']}"
        return self.body.file

    def __repr__(self):
        return f"<{self.kind} {self.body.path} bb{self.bb}[{self.idx}] {self.span}>"


class Mutation:
    """A write to (root local, field path): either a store or a call taking a &mut alias."""
    __slots__ = ('root', 'path', 'kind', 'callee', 'raw', 'bb', 'idx', 'args', 'data', 'elem')

    def __init__(self, root, path, kind, callee, raw, bb, idx, args, data, elem=False):
        self.root, self.path, self.kind, self.callee, self.raw = root, path, kind, callee, raw
        self.bb, self.idx, self.args, self.data, self.elem = bb, idx, args, data, elem

    def __repr__(self):
        return f"<mut _{self.root}.{'.'.join(self.path)} {self.kind} {self.callee or ''} bb{self.bb}[{self.idx}]>"


class Body:
    def __init__(self, d, facts):
        self.d = d
        self.facts = facts
        self.path = d['path']
        self.blocks = d['blocks']
        self.locals = d['locals']
        self.argc = d['argc']
        self.inlined_params = frozenset(d.get('inlined_params', ()))      # parameters of helpers spliced in by vpa/mirinline.py
        self.kind = d['kind']
        self.vis = d['vis']
        self.exp = d['span']['exp']
        f = d['span']['file']
        self.file = (f[f.find('src/'):] if 'src/' in f else f) + ':' + str(d['span']['line'])
        self.impl_self = d.get('impl_self')
        self.impl_trait = d.get('impl_trait')
        n = len(self.blocks)
        self.succ = [[] for _ in range(n)]
        self.pred = [[] for _ in range(n)]
        self.live = []
        for i, b in enumerate(self.blocks):
            if b['cleanup']:
                continue
            self.live.append(i)
            t = b['term']
            k = t['k']
            ss = []
            if k == 'goto':
                ss = [t['t']]
            elif k == 'switch':
                ss = [x[1] for x in t['t']] + [t['else']]
            elif k in ('drop', 'assert'):
                ss = [t['t']]
            elif k == 'call' and t['t'] >= 0:
                ss = [t['t']]
            elif k == 'other':
                # FalseEdge / FalseUnwind do not exist in optimized_mir; treat as exit
                ss = []
            seen = set()
            for s in ss:
                if s in seen:
                    continue
                seen.add(s)
                self.succ[i].append(s)
                self.pred[s].append(i)
        self._dom = None
        self._pdom = None
        self._loops = None
        self._alias = None
        self._muts = None
        self._defs = None
        self._dag = None
        self._reach = None

    # ---------------------------------------------------------------- names
    def local_name(self, l):
        return self.locals[l]['n']

    def local_ty(self, l):
        return self.locals[l]['ty']

    def param_index(self, name):
        for i in range(1, self.argc + 1):
            if self.locals[i]['n'] == name:
                return i
        return None

    def callee(self, term):
        f = term['f'].get('fn')
        if not f:
            return 'indirect', None
        raw = f['res'] or f['path']
        local = f.get('res_local') if f['res'] else f['local']
        return short_name(raw, bool(local)), raw

    # ---------------------------------------------------------------- graph
    def dominators(self):
        if self._dom is not None:
            return self._dom
        live = self.live
        allset = frozenset(live)
        dom = {i: allset for i in live}
        dom[0] = frozenset([0])
        order = self.rpo()
        ch = True
        while ch:
            ch = False
            for i in order:
                if i == 0:
                    continue
                ps = [p for p in self.pred[i] if p in dom]
                if not ps:
                    new = frozenset([i])
                else:
                    new = frozenset.intersection(*[dom[p] for p in ps]) | {i}
                if new != dom[i]:
                    dom[i] = new
                    ch = True
        self._dom = dom
        return dom

    def rpo(self):
        seen = set()
        order = []
        stack = [(0, iter(self.succ[0]))]
        seen.add(0)
        while stack:
            n, it = stack[-1]
            adv = False
            for s in it:
                if s not in seen:
                    seen.add(s)
                    stack.append((s, iter(self.succ[s])))
                    adv = True
                    break
            if not adv:
                order.append(n)
                stack.pop()
        order.reverse()
        return order

    def reachable(self):
        if self._reach is None:
            self._reach = set(self.rpo())
        return self._reach

    def exits(self):
        return [i for i in self.live if self.blocks[i]['term']['k'] == 'return']

    def postdominators(self):
        if self._pdom is not None:
            return self._pdom
        live = [i for i in self.live if i in self.reachable()]
        EXIT = -1
        allset = frozenset(live) | {EXIT}
        pd = {i: allset for i in live}
        pd[EXIT] = frozenset([EXIT])
        ch = True
        while ch:
            ch = False
            for i in reversed(self.rpo()):
                ss = list(self.succ[i])
                t = self.blocks[i]['term']['k']
                if t == 'return':
                    ss = [EXIT]
                ss = [x for x in ss if not (self.blocks[x]['term']['k'] == 'unreachable' and not self.blocks[x]['stmts'])]
                if not ss:
                    new = allset          # diverging (panic / unreachable): constrains nothing - post-dominance is about returning paths
                else:
                    new = frozenset.intersection(*[pd[s] for s in ss if s in pd]) | {i} if any(s in pd for s in ss) else frozenset([i])
                if new != pd[i]:
                    pd[i] = new
                    ch = True
        self._pdom = pd
        return pd

    def dominates(self, a, b):
        return a in self.dominators().get(b, ())

    def loops(self):
        """natural loops: list of (header, set(blocks), [back-edge sources])"""
        if self._loops is not None:
            return self._loops
        dom = self.dominators()
        by_header = {}
        for i in self.reachable():
            for s in self.succ[i]:
                if s in dom.get(i, ()):
                    # back edge i -> s
                    body = {s, i}
                    work = [i]
                    while work:
                        x = work.pop()
                        if x == s:
                            continue
                        for p in self.pred[x]:
                            if p not in body and p in self.reachable():
                                body.add(p)
                                work.append(p)
                    h = by_header.setdefault(s, (set(), []))
                    h[0].update(body)
                    h[1].append(i)
        self._loops = [(h, v[0], v[1]) for h, v in sorted(by_header.items())]
        return self._loops

    def regions(self):
        """block -> representative of its straight-line region (chains of single-successor/single-predecessor blocks)"""
        c = self.__dict__.get('_regions')
        if c is None:
            c = {}
            for b in self.rpo():
                if b in c:
                    continue
                c[b] = b
                x = b
                while len(self.succ[x]) == 1 and len(self.pred[self.succ[x][0]]) == 1 and self.succ[x][0] not in c:
                    x = self.succ[x][0]
                    c[x] = b
            self.__dict__['_regions'] = c
        return c

    def reach_from(self, start_blocks, avoid=()):
        seen = set()
        work = list(start_blocks)
        while work:
            x = work.pop()
            if x in seen or x in avoid:
                continue
            seen.add(x)
            work.extend(self.succ[x])
        return seen

    # ---------------------------------------------------------------- aliases and mutations
    def _resolve_place(self, pl, alias):
        """-> (root local, path tuple, through_index) following alias chains"""
        l = pl['l']
        path = []
        elem = False
        for e in pl['p']:
            if e == 'deref':
                continue
            if isinstance(e, dict):
                if 'f' in e:
                    path.append(e['n'] or str(e['f']))
                elif 'idx' in e or 'cidx' in e:
                    elem = True
                    path.append('[]')
                elif 'dc' in e:
                    path.append('as ' + (e['n'] or str(e['dc'])))
            else:
                path.append('?')
        seen = set()
        while l in alias and l not in seen:
            seen.add(l)
            r, p2, el2 = alias[l]
            l = r
            path = list(p2) + path
            elem = elem or el2
        return l, tuple(path), elem

    def aliases(self):
        """local -> (root, path, elem): locals holding a reference (or iterator) into another place."""
        if self._alias is not None:
            return self._alias
        alias = {}
        changed = True
        rounds = 0
        while changed and rounds < 6:
            changed = False
            rounds += 1
            for bi in self.live:
                blk = self.blocks[bi]
                for s in blk['stmts']:
                    pl, rv = s['pl'], s['rv']
                    if pl['p']:
                        continue
                    tgt = None
                    if rv['k'] in ('ref', 'rawptr'):
                        if rv['k'] == 'ref' and not rv['mut']:
                            continue
                        tgt = self._resolve_place(rv['pl'], alias)
                    elif rv['k'] == 'use' and rv['a']['k'] in ('copy', 'move'):
                        src = rv['a']['pl']
                        if src['l'] in alias or self.local_ty(pl['l']).startswith('&mut') or 'IterMut' in self.local_ty(pl['l']):
                            if src['l'] in alias or (src['l'] <= self.argc and src['l'] >= 1 and self.local_ty(src['l']).startswith('&mut')):
                                tgt = self._resolve_place(src, alias)
                    elif rv['k'] == 'cast' and rv['a']['k'] in ('copy', 'move') and rv['a']['pl']['l'] in alias:
                        tgt = self._resolve_place(rv['a']['pl'], alias)
                    elif rv['k'] == 'cast' and rv['a']['k'] in ('copy', 'move') and self.local_ty(rv['a']['pl']['l']).startswith('std::boxed::Box<std::mem::MaybeUninit<'):
                        tgt = (rv['a']['pl']['l'], (), False)   # vec![..] lowering: raw pointer into the fresh box
                    if tgt is not None and tgt[0] != pl['l'] and alias.get(pl['l']) != tgt:
                        alias[pl['l']] = tgt
                        changed = True
                t = blk['term']
                if t['k'] == 'call' and not t['dest']['p'] and t['args']:
                    name, _ = self.callee(t)
                    a0 = t['args'][0]
                    dty = self.local_ty(t['dest']['l'])
                    if a0['k'] in ('copy', 'move') and name in MUT_PROJ and (a0['pl']['l'] in alias or (1 <= a0['pl']['l'] <= self.argc and self.local_ty(a0['pl']['l']).startswith('&mut'))) \
                            and ('&mut' in dty or 'Mut' in dty or 'Entry' in dty):
                        r, p, el = self._resolve_place(a0['pl'], alias)
                        if name.endswith(('index_mut', 'next', 'last_mut', 'first_mut', 'get_mut', 'entry', 'or_insert', 'or_default', 'or_insert_with')):
                            el = True
                        tgt = (r, p, el)
                        if tgt[0] != t['dest']['l'] and alias.get(t['dest']['l']) != tgt:
                            alias[t['dest']['l']] = tgt
                            changed = True
        self._alias = alias
        return alias

    def mutations(self):
        if self._muts is not None:
            return self._muts
        alias = self.aliases()
        muts = []
        for bi in self.live:
            blk = self.blocks[bi]
            for si, s in enumerate(blk['stmts']):
                pl = s['pl']
                through = any(e == 'deref' for e in pl['p'])
                if pl['p'] and (through or pl['l'] in alias or True):
                    r, p, el = self._resolve_place(pl, alias)
                    # a projected store: into a local aggregate or through a reference
                    muts.append(Mutation(r, p, 'store', None, None, bi, si, [s['rv']], s, el))
            t = blk['term']
            if t['k'] == 'call':
                name, raw = self.callee(t)
                for ai, a in enumerate(t['args']):
                    if a['k'] not in ('copy', 'move'):
                        continue
                    l = a['pl']['l']
                    isalias = l in alias
                    isparam_mut = (1 <= l <= self.argc) and self.local_ty(l).startswith('&mut') and not a['pl']['p']
                    if not (isalias or isparam_mut):
                        continue
                    ty = self.local_ty(l)
                    if not (ty.startswith('&mut') or 'Mut' in ty or ty.startswith('*mut') or 'Entry' in ty):
                        continue
                    if name in MUT_PROJ and ai == 0:
                        continue  # only creates another alias
                    r, p, el = self._resolve_place(a['pl'], alias)
                    muts.append(Mutation(r, p, 'call', name, raw, bi, 'term', t['args'], t, el))
                if t['dest']['p']:
                    r, p, el = self._resolve_place(t['dest'], alias)
                    muts.append(Mutation(r, p, 'calldest', name, raw, bi, 'term', t['args'], t, el))
        self._muts = muts
        return muts

    # ---------------------------------------------------------------- definitions
    def defs(self):
        """local -> list of (bb, pos, kind, payload); pos: stmt index or len(stmts) for the terminator"""
        if self._defs is not None:
            return self._defs
        defs = defaultdict(list)
        for bi in self.live:
            blk = self.blocks[bi]
            n = len(blk['stmts'])
            for si, s in enumerate(blk['stmts']):
                if not s['pl']['p']:
                    defs[s['pl']['l']].append((bi, si, 'assign', s))
            t = blk['term']
            if t['k'] == 'call' and not t['dest']['p']:
                defs[t['dest']['l']].append((bi, n, 'call', t))
        for m in self.mutations():
            blk = self.blocks[m.bb]
            pos = len(blk['stmts']) if m.idx == 'term' else m.idx
            # the mutation event defines the root *after* the statement; whole-local call dests of the same
            # terminator are separate locals, so no clash
            defs[m.root].append((m.bb, pos, 'mut', m))
        for l in defs:
            defs[l].sort(key=lambda d: (d[0], d[1], 0 if d[2] != 'mut' else 1))
        self._defs = defs
        return defs

    def reaching(self, l, bb, pos, field=None):
        """definitions of local l reaching the point just before position `pos` of block bb.

        Back edges are not followed: a value that arrives over the back edge of the loop headed by h is
        reported as ('carried', l, h), so the result depends on (l, bb, pos) only and the induced
        recursion of Dag.local is over an acyclic graph."""
        byblock = self._defs_by_block(l, field)
        cand = [d for d in byblock.get(bb, ()) if d[1] < pos]
        if cand:
            return [cand[-1]]
        dom = self.dominators()
        res = []
        seen = set()
        work = [(p, bb) for p in self.pred[bb]]
        entry_reached = (bb == 0)
        while work:
            p, frm = work.pop()
            if frm in dom.get(p, ()):       # p -> frm is a back edge
                # a local with no definition inside the loop is loop-invariant: nothing is carried
                if any(x in byblock for x in self.loop_blocks(frm)):
                    c = ('carried', l, frm)
                    if c not in res:
                        res.append(c)
                continue
            if p in seen:
                continue
            seen.add(p)
            ds = byblock.get(p)
            if ds:
                res.append(ds[-1])
                continue
            if p == 0:
                entry_reached = True
            work.extend((q, p) for q in self.pred[p])
        if entry_reached and 1 <= l <= self.argc:
            res.append(('param', l))
        elif not res:
            res.append(('param', l) if 1 <= l <= self.argc else ('undef', l))
        return res

    def loop_blocks(self, header):
        for (h, blocks, backs) in self.loops():
            if h == header:
                return blocks
        return ()

    def _defs_by_block(self, l, field=None):
        """definitions of local l per block; with `field`, in-place writes that only touch OTHER fields are ignored"""
        c = self.__dict__.setdefault('_dbb', {})
        if (l, field) not in c:
            byblock = defaultdict(list)
            for d in self.defs().get(l, []):
                if field is not None and d[2] == 'mut':
                    path = d[3].path
                    if path and path[0] != field and not path[0].startswith('as '):
                        continue
                byblock[d[0]].append(d)
            c[(l, field)] = byblock
        return c[(l, field)]

    # ---------------------------------------------------------------- sites
    def calls(self, glob=None):
        out = []
        for bi in self.live:
            if bi not in self.reachable():
                continue
            t = self.blocks[bi]['term']
            if t['k'] == 'call':
                name, raw = self.callee(t)
                if glob is None or name_match(glob, name):
                    s = Site(self, bi, len(self.blocks[bi]['stmts']), 'call', t)
                    out.append(s)
        return out

    def aggregates(self, glob):
        out = []
        for bi in self.live:
            if bi not in self.reachable():
                continue
            for si, s in enumerate(self.blocks[bi]['stmts']):
                rv = s['rv']
                if rv['k'] == 'agg' and rv['ak'] == 'adt':
                    nm = rv['adt'] + '::' + rv['variant']
                    if name_match(glob, nm) or name_match(glob, rv['adt']):
                        out.append(Site(self, bi, si, 'agg', s))
        return out

    def dag(self):
        if self._dag is None:
            self._dag = Dag(self)
        return self._dag


def name_match(glob, name):
    if isinstance(glob, (set, frozenset, list, tuple)):
        return any(name_match(g, name) for g in glob)
    if glob == name or glob == '*':
        return True
    if '|' in glob:
        return any(name_match(g, name) for g in glob.split('|'))
    if '*' in glob:
        rx = '^' + re.escape(glob).replace(r'\*', '.*') + '$'
        return re.match(rx, name) is not None
    # a glob without '*' also matches as a path suffix at a '::' boundary
    return name.endswith('::' + glob)


# ------------------------------------------------------------------------------------------------
# value DAGs


def const_of(o):
    ty = o.get('ty', '')
    if 'fn' in o:
        f = o['fn']
        return ('fn', short_name(f['res'] or f['path'], bool(f.get('res_local') if f['res'] else f['local'])))
    if ty == 'bool' and 'bits' in o:
        return ('const', o['bits'] != '0')
    if 'f' in o:
        v = o['f']
        try:
            return ('const', float(v))
        except ValueError:
            return ('const', v)
    if 'bits' in o:
        b = int(o['bits'])
        size = o.get('size', 8)
        if ty.startswith('i') and ty[1:].isdigit() or ty == 'isize':
            if b >= 1 << (8 * size - 1):
                b -= 1 << (8 * size)
        return ('const', b)
    return ('const', o.get('txt', '?'))


def _key(x):
    return repr(x)


class Dag:
    MAXDEPTH = 400

    def __init__(self, body):
        self.b = body
        self.memo = {}
        self.stack = set()

    # -- entry points
    def operand(self, o, bb, pos):
        if o['k'] == 'const':
            c = const_of(o)
            if c[0] == 'const' and isinstance(c[1], str) and 'promoted[' in c[1]:
                pb = self.b.facts.bodies.get(c[1])
                if pb is not None and pb is not self.b:
                    ex = pb.exits()
                    if ex:
                        return pb.dag().local(0, ex[0], len(pb.blocks[ex[0]]['stmts']) + 1)
            return c
        if o['k'] in ('copy', 'move'):
            return self.place(o['pl'], bb, pos)
        return ('other',)

    def place(self, pl, bb, pos):
        # a read THROUGH a `&mut` alias of another local (`let s = &mut *self; .. s.transform ..`, as produced by inlining a `&mut self`
        # helper) is a read of that local: only so does it see the writes made to it earlier in this function
        if pl['p'] and pl['p'][0] == 'deref' and pl['l'] in self.b.inlined_params:
            al = self.b.aliases().get(pl['l'])
            if al is not None and not al[2] and all(isinstance(x, str) and not x.startswith('as ') for x in al[1]) and al[0] != pl['l']:
                root_is_ref = self.b.local_ty(al[0]).startswith('&')
                pl = {'l': al[0], 'p': (['deref'] if root_is_ref else []) + [{'f': -1, 'n': x} for x in al[1]] + list(pl['p'][1:])}
        first = None
        for e in pl['p']:
            if e == 'deref':
                continue
            if isinstance(e, dict) and 'f' in e:
                first = e['n'] or str(e['f'])
            break
        base = self.local(pl['l'], bb, pos, first)
        return self.project(base, pl['p'], bb, pos)

    def project(self, base, proj, bb, pos):
        for e in proj:
            if e == 'deref':
                continue
            if isinstance(e, dict):
                if 'f' in e:
                    base = mk_field(e['n'] or str(e['f']), base)
                elif 'idx' in e:
                    base = ('index', base, self.local(e['idx'], bb, pos))
                elif 'cidx' in e:
                    base = ('index', base, ('const', e['cidx']))
                elif 'dc' in e:
                    base = ('variant', e['n'] or str(e['dc']), base)
            else:
                base = ('proj?', base)
        return base

    def local(self, l, bb, pos, field=None):
        key = (l, bb, pos, field)
        if key in self.memo:
            return self.memo[key]
        if key in self.stack:
            return ('loop', l, -1)      # cannot happen on a reducible CFG; kept as a safety net
        self.stack.add(key)
        try:
            ds = self.b.reaching(l, bb, pos, field)
            alts = []
            for d in ds:
                if d[0] == 'param':
                    alts.append(('param', d[1], self.b.local_name(d[1]) or f'_{d[1]}'))
                elif d[0] == 'undef':
                    alts.append(('undef', d[1]))
                elif d[0] == 'carried':
                    alts.append(('loop', d[1], d[2]))
                else:
                    alts.append(self.defdag(l, d, field))
        finally:
            self.stack.discard(key)
        r = mk_phi(alts)
        self.memo[key] = r
        return r

    def carried(self, l, header):
        """the value(s) of local l at the back edge(s) of the loop headed by `header` (one iteration unrolled)"""
        alts = []
        for (h, blocks, backs) in self.b.loops():
            if h == header:
                for src in backs:
                    alts.append(self.local(l, src, len(self.b.blocks[src]['stmts']) + 1))
        return mk_phi(alts) if alts else ('undef', l)

    def call_dag(self, t, bb):
        n = len(self.b.blocks[bb]['stmts'])
        name, raw = self.b.callee(t)
        if name == 'indirect':
            fobj = self.operand(t['f'], bb, n)
            args = tuple(self.operand(a, bb, n) for a in t['args'])
            return ('callv', fobj) + args
        args = tuple(self.operand(a, bb, n) for a in t['args'])
        return norm_call(name, args, self.b, t)

    def defdag(self, l, d, field=None):
        bi, pos, kind, payload = d
        if kind == 'call':
            return self.call_dag(payload, bi)
        if kind == 'mut':
            m = payload
            prev = self.local(l, bi, pos, field)
            if m.kind == 'store':
                val = self.rvalue(m.data['rv'], bi, pos)
                return mk_update(prev, m.path, val)
            n = len(self.b.blocks[bi]['stmts'])
            al = self.b.aliases()
            args = tuple(self.operand(a, bi, n) for a in m.args
                         if not (a['k'] in ('copy', 'move') and (a['pl']['l'] in al or a['pl']['l'] == m.root) and self.b._resolve_place(a['pl'], al)[0] == m.root))
            return ('mut', m.callee, m.path, prev) + args
        s = payload
        return self.rvalue(s['rv'], bi, pos)

    def rvalue(self, rv, bi, si):
        k = rv['k']
        if k == 'use':
            return self.operand(rv['a'], bi, si)
        if k in ('ref', 'rawptr'):
            return self.place(rv['pl'], bi, si)
        if k == 'bin':
            op = rv['op'].replace('WithOverflow', '').replace('Unchecked', '').lower()
            a = self.operand(rv['a'], bi, si)
            b = self.operand(rv['b'], bi, si)
            return mk_bin(op, a, b)
        if k == 'un':
            op = rv['op'].lower()
            a = self.operand(rv['a'], bi, si)
            if op == 'ptrmetadata':
                return ('len', a)
            return mk_un(op, a)
        if k == 'cast':
            a = self.operand(rv['a'], bi, si)
            ck = rv['ck']
            if 'IntToFloat' in ck or 'FloatToInt' in ck or 'FloatToFloat' in ck:
                if a[0] == 'const' and isinstance(a[1], (int, float)) and not isinstance(a[1], bool) and 'IntToFloat' in ck:
                    return ('const', float(a[1]))
                return ('cast', 'f64' if rv['ty'].startswith('f') else 'int', a)
            return a
        if k == 'discr':
            x = self.place(rv['pl'], bi, si)
            return ('discr', x, tuple(rv.get('variants', ())))
        if k == 'agg':
            ops = tuple(self.operand(o, bi, si) for o in rv['ops'])
            if rv['ak'] == 'adt':
                return ('agg', short_name(rv['adt'], self.b.facts.is_local_path(rv['adt'])) + '::' + rv['variant']) + tuple(zip(rv['fields'], ops))
            if rv['ak'] == 'closure':
                return ('closure', rv['def']) + ops
            return ('agg', rv['ak']) + tuple((str(i), o) for i, o in enumerate(ops))
        if k == 'repeat':
            return ('repeat', self.operand(rv['a'], bi, si), rv['n'])
        return ('other', k, rv.get('txt', '')[:40])


def mk_phi(alts):
    flat = []
    for a in alts:
        if a[0] == 'phi':
            for x in a[1:]:
                if x not in flat:
                    flat.append(x)
        elif a not in flat:
            flat.append(a)
    if len(flat) == 1:
        return flat[0]
    return ('phi',) + tuple(sorted(flat, key=_key))


def has_loop(d):
    if isinstance(d, tuple) and d:
        if d[0] == 'loop':
            return True
        for x in d[1:]:
            if isinstance(x, tuple) and has_loop(x):
                return True
    return False


def contains_loop(d, l):
    if isinstance(d, tuple) and d:
        if d[0] == 'loop' and d[1] == l:
            return True
        return any(contains_loop(x, l) for x in d[1:])
    return False


def mk_field(name, base):
    # overflow-checked arithmetic: (a op b).0
    if name == '0' and base[0] in ('add', 'sub', 'mul', 'shl', 'shr'):
        return base
    if name == '1' and base[0] in ('add', 'sub', 'mul', 'shl', 'shr'):
        return ('overflowed', base)
    if name == '0' and base[0] == 'variant' and base[1] in ('Some', 'Ok', 'Continue'):
        return ('unwrap', base[2])
    if name == '0' and base[0] == 'variant' and base[1] in ('Err', 'Break'):
        return ('unwrap_err', base[2])
    if base[0] == 'agg':
        for fn, v in base[2:]:
            if fn == name:
                return v
    if base[0] == 'update':
        # ('update', prev, path, val)
        _, prev, path, val = base
        if path and path[0] == name:
            if len(path) == 1:
                return val
            return ('update', mk_field(name, prev), path[1:], val)
        return mk_field(name, prev)
    if base[0] == 'mut':
        path = base[2]
        if path and path[0] != name and not path[0].startswith('as '):
            return mk_field(name, base[3])
        if path and path[0] == name:
            return ('mut', base[1], path[1:], mk_field(name, base[3])) + base[4:]
    if base[0] == 'phi':
        alts = []
        for a in base[1:]:
            x = mk_field(name, a)
            if x not in alts:
                alts.append(x)
        if len(alts) == 1:
            return alts[0]
        return ('phi',) + tuple(sorted(alts, key=_key))
    return ('field', name, base)


def mk_update(prev, path, val):
    return ('update', prev, tuple(path), val)


def _num(x):
    return x[0] == 'const' and isinstance(x[1], (int, float)) and not isinstance(x[1], bool)


def mk_bin(op, a, b):
    if op in CMP_FLIP:
        op = CMP_FLIP[op]
        a, b = b, a
    if _num(a) and _num(b):
        try:
            if op == 'add':
                return ('const', a[1] + b[1])
            if op == 'sub':
                return ('const', a[1] - b[1])
            if op == 'mul':
                return ('const', a[1] * b[1])
            if op == 'div' and b[1] != 0 and isinstance(a[1], float):
                return ('const', a[1] / b[1])
        except OverflowError:
            pass
    if op in COMMUTATIVE:
        a, b = sorted([a, b], key=_key)
    return (op, a, b)


def mk_un(op, a):
    if op == 'neg' and _num(a):
        return ('const', -a[1])
    if op == 'not' and a[0] == 'const' and isinstance(a[1], bool):
        return ('const', not a[1])
    return (op, a)


BINOP_CALLS = {'add': 'add', 'sub': 'sub', 'mul': 'mul', 'div': 'div', 'rem': 'rem'}


def norm_call(name, args, body=None, term=None):
    if (name in TRANSPARENT or name.endswith(('::clone', '::deref', '::deref_mut'))) and args:
        return args[0]
    if name in UNWRAP and args:
        return ('unwrap', args[0])
    if (name in LEN or (name.endswith('::len') and len(args) == 1)) and args:
        return ('len', args[0])
    if name in ('Result::branch', 'Option::branch') and args:
        return ('branch', args[0])
    if name.endswith('::from_residual') and args:
        return ('residual', args[0])
    if name in ('Vec::index', 'slice::index', 'VecDeque::index', 'Matrix::index', 'OPoint::index', 'DiscreteDomain::index') and len(args) == 2:
        return ('index', args[0], args[1])
    if name in ('Vec::index_mut', 'slice::index_mut', 'Matrix::index_mut', 'OPoint::index_mut') and len(args) == 2:
        return ('index', args[0], args[1])
    if name in ('f64::lt', 'f64::le', 'f64::gt', 'f64::ge', 'usize::lt', 'usize::le', 'usize::gt', 'usize::ge') and len(args) == 2:
        return mk_bin(name.split('::')[1], args[0], args[1])
    if name in ('T::into', 'T::from') and body is not None and term is not None and args:
        # identity conversion when source and destination types agree
        a0 = term['args'][0]
        if a0['k'] in ('copy', 'move') and not a0['pl']['p'] and not term['dest']['p']:
            if body.local_ty(a0['pl']['l']) == body.local_ty(term['dest']['l']):
                return args[0]
    if name == 'boxed::box_assume_init_into_vec_unsafe' and args:
        return ('veclit', args[0])
    if name in ('slice::into_vec',) and args:
        return ('veclit', args[0])
    return ('call', name) + args


def unbranch(d):
    """`?`: variant Continue of branch(X) was already mapped to unwrap(branch(X)); collapse"""
    return d


def simplify(d):
    """post-pass normalisations on a finished DAG (bottom-up, each node rewritten to a fixpoint)"""
    if not isinstance(d, tuple) or not d:
        return d
    if d[0] in ('param', 'const', 'fn', 'undef', 'loop'):
        return d
    t = tuple(simplify(x) if isinstance(x, tuple) else x for x in d)
    for _ in range(8):
        n = _rewrite(t)
        if n is t or n == t:
            break
        t = n
    return t


def _rewrite(t):
    if t[0] == 'unwrap' and isinstance(t[1], tuple) and t[1] and t[1][0] == 'branch':
        return ('unwrap', t[1][1])
    if t[0] == 'unwrap_err' and isinstance(t[1], tuple) and t[1] and t[1][0] == 'branch':
        return ('unwrap_err', t[1][1])
    if t[0] == 'unwrap' and isinstance(t[1], tuple) and t[1] and t[1][0] == 'call' and t[1][1].endswith('::next') and len(t[1]) == 3:
        src = t[1][2]
        ident = ()
        if src[0] == 'phi':
            srcs = [a for a in src[1:] if a[0] != 'loop']
            lps = [a for a in src[1:] if a[0] == 'loop']
            if len(srcs) == 1 and len(src) == 3:
                src = srcs[0]
                ident = (('loopid', lps[0][1], lps[0][2]),)     # which loop's variable this is
        if src[0] == 'mut' and src[1] and src[1].endswith('::next'):
            src = src[3]
        if src[0] == 'agg' and src[1].endswith('Range::Range'):
            f = dict(src[2:])
            return ('itervar', ('range', f.get('start'), f.get('end'))) + ident
        if src[0] == 'call' and src[1] == 'RangeInclusive::new' and len(src) == 4:
            return ('itervar', ('rangeincl', src[2], src[3])) + ident
        return ('itervar', src) + ident
    # unwrapping a freshly built Ok / Some (a fallible helper spliced into its caller: `let v = helper(x)?` with `fn helper(..) { Ok(f(x)?) }`):
    # the value, when there is one, is the payload of the only success alternative
    if t[0] == 'unwrap' and isinstance(t[1], tuple) and t[1]:
        inner = t[1]
        alts_ = list(inner[1:]) if inner[0] == 'phi' else [inner]
        succ = [a for a in alts_ if isinstance(a, tuple) and a and a[0] == 'agg' and isinstance(a[1], str) and a[1].endswith(('Result::Ok', 'Option::Some')) and len(a) == 3]
        fail = [a for a in alts_ if isinstance(a, tuple) and a and (a[0] == 'residual' or (a[0] == 'agg' and isinstance(a[1], str) and a[1].endswith(('Result::Err', 'Option::None'))))]
        if len(succ) == 1 and len(succ) + len(fail) == len(alts_):
            return simplify(succ[0][2][1])
    # the value of `opt.ok_or(e)?` / `.ok_or_else(..)?` when it is there is the value of `opt` when it is there
    if t[0] == 'unwrap' and isinstance(t[1], tuple) and len(t[1]) == 4 and t[1][0] == 'call' and t[1][1] in ('Option::ok_or', 'Option::ok_or_else'):
        return simplify(('unwrap', t[1][2]))
    # spelling-independent forms of "the last / first element"
    if t[0] == 'unwrap' and isinstance(t[1], tuple) and len(t[1]) == 3 and t[1][0] == 'call' and t[1][1] in ('slice::last', 'slice::first'):
        return ('last', t[1][2]) if t[1][1] == 'slice::last' else ('index', t[1][2], ('const', 0))
    if t[0] == 'index' and len(t) == 3 and isinstance(t[2], tuple) and len(t[2]) == 3 and t[2][0] == 'sub' and t[2][2] == ('const', 1) and t[2][1] == ('len', t[1]):
        return ('last', t[1])
    if t[0] == 'veclit' and isinstance(t[1], tuple) and t[1] and t[1][0] == 'update':
        # Box<MaybeUninit<[T;N]>> written once with an array aggregate
        return ('veclit', t[1][3])
    return t


def subterms(d):
    if not d:
        return
    yield d
    if isinstance(d, tuple) and isinstance(d[0], str):
        for x in d[1:]:
            if isinstance(x, tuple) and x and isinstance(x[0], str):
                yield from subterms(x)
            elif isinstance(x, tuple) and x and isinstance(x[0], tuple):
                # e.g. (name, dag) pairs of an aggregate / argument tuples of a mut node
                for y in x:
                    if isinstance(y, tuple) and y and isinstance(y[0], str):
                        yield from subterms(y)


def leaves(d, acc=None):
    acc = set() if acc is None else acc
    if isinstance(d, tuple) and d and isinstance(d[0], str):
        if d[0] in ('param', 'const', 'undef', 'loop', 'fn'):
            acc.add(d)
        elif d[0] == 'field' and isinstance(d[2], tuple) and d[2] and d[2][0] == 'param':
            acc.add(d)
        else:
            for x in d[1:]:
                if isinstance(x, tuple):
                    leaves(x, acc)
    elif isinstance(d, tuple):
        for x in d:
            if isinstance(x, tuple):
                leaves(x, acc)
    return acc


def show(d, depth=0, maxdepth=40):
    """print a DAG in the pattern syntax"""
    if not isinstance(d, tuple) or not d:
        return repr(d) if not isinstance(d, str) else d
    if depth > maxdepth:
        return '…'
    h = d[0]
    if h == 'param':
        return f"(param {d[2]})"
    if h == 'const':
        v = d[1]
        if isinstance(v, bool):
            return 'true' if v else 'false'
        return repr(v) if not isinstance(v, str) else f"'{v}'"
    if h == 'fn':
        return f"(fn {d[1]})"
    if h == 'loop':
        return f"(loop _{d[1]}@bb{d[2]})"
    if h == 'undef':
        return f"(undef _{d[1]})"
    if h == 'field':
        return f"(field {d[1]} {show(d[2], depth+1)})"
    if h == 'variant':
        return f"(variant {d[1]} {show(d[2], depth+1)})"
    if h == 'call':
        return '(call ' + d[1] + ''.join(' ' + show(x, depth + 1) for x in d[2:]) + ')'
    if h == 'mut':
        return '(mut ' + str(d[1]) + ' ' + ('.'.join(d[2]) or '.') + ''.join(' ' + show(x, depth + 1) for x in d[3:]) + ')'
    if h == 'update':
        return '(update ' + show(d[1], depth + 1) + ' ' + ('.'.join(d[2]) or '.') + ' ' + show(d[3], depth + 1) + ')'
    if h == 'agg':
        return '(agg ' + d[1] + ''.join(f" ({fn} {show(v, depth+1)})" for fn, v in d[2:]) + ')'
    if h == 'closure':
        return '(closure ' + d[1] + ''.join(' ' + show(x, depth + 1) for x in d[2:]) + ')'
    if h == 'discr':
        return f"(discr {show(d[1], depth+1)})"
    if h == 'cast':
        return f"(cast {d[1]} {show(d[2], depth+1)})"
    if h == 'repeat':
        return f"(repeat {show(d[1], depth+1)} {d[2]})"
    if h == 'loopid':
        return f"#{d[1]}@{d[2]}"
    if h == 'itervar':
        return '(itervar ' + show(d[1], depth + 1) + (' ' + show(d[2]) if len(d) > 2 else '') + ')' 
    return '(' + h + ''.join(' ' + (show(x, depth + 1) if isinstance(x, tuple) else str(x)) for x in d[1:]) + ')'
