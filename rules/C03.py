"""C03 Measurements do not depend on the coordinate frame - structural clauses (the transform APIs only)."""
from vpa import evaluators as E
from vpa.core import show, Site, simplify, subterms, trait_of_impl
from vpa.pattern import match, find

EXPLANATION = """Structural obligations behind C03: (POSDOT, crate-wide) the coordinates of a stored / given position enter a dot product with a
direction only inside a difference of projections along that same direction (n.p - n.q compared or subtracted, n.p - d with the
offset stored beside the same normal, a running extremum of n.p over points) or as that offset itself - a lone n.p compared with a
constant depends on where the origin is; (completeness and kind of every rigid-motion API): every position of the result passes through
a FULL application of the transform parameter (nalgebra `&Isometry * Point`, transform_point, TriMesh::transform_vertices, or a
crate function already classified), every unit normal / direction through the rotation-only application (`&Isometry * Unit`),
exactly once, never through `.rotation` / `.translation` / `.inverse()` projections of the transform; every non-geometric
attribute (tolerance, closedness, solidity) is carried over unchanged: SurfacePoint::transformed and the four
Mul<SurfacePoint> impls, PointCloud::transform (points AND normals, element-wise in place), Mesh::transform, Plane3::transform_by
(representative point normal*d, rebuilt through From<&SurfacePoint3>), Curve2/Curve3::transformed_by, Segment2::transform_by,
transform_points, the TransformBy impls, Distance2::to_3d / Distance3::to_2d (a, b full; direction rotation-only);
SurfacePoint::reversed keeps the point and negates the normal.
Mesh::transform moves the vertices on every path (no isometry short-cut); Mesh::project_with_tol applies its optional transform to the query once and
judges the angle from that moved query (rules shared with C02); Plane3::intersection_distance = (n*d - p).n / (n.m) with n, d of the same plane.
A rebuilt Curve3 merges vertices by Euclidean distance and the crossing search treats exactly axis-aligned probes with the closed slab test (rules shared with C13 / C06). Round 5: the Plane3 (normal, d) convention - constructors, inverted_normal (negates normal AND d), signed distance, projection - shared with C19. Round 6: the blended normal / direction of a station inside an edge is the slerp of the two vertex vectors by the station fraction; the deviation functions' surface-normal fallback is taken under an ABSOLUTE 1e-6 test (shared with C16)."""
NOT_DECIDED = "invariance of any measurement (distances, deviations, fits) under a change of frame: numerical; a general frame-dependence taint analysis was rejected because correct code uses raw coordinates that cancel - only the narrow POSDOT form (a lone projection n.p of a stored position) is decided"
ASSUMPTIONS = ["nalgebra: &Isometry * OPoint applies rotation and translation; &Isometry * Unit<Vector> / * Vector applies the rotation only"]


def iso_apps(cx, b, tparam):
    """applications of the transform parameter in body b: [(site, kind)] with kind in point|unit|vector|other"""
    out = []
    for s in b.calls('Isometry::mul|Isometry::transform_point|Isometry::transform_vector|Isometry::inverse_transform_point|Isometry::inverse'):
        a0 = cx.arg(s, 0)
        if find(f'(param {tparam})', a0) is None and find(f'(field cap:{tparam} _)', a0) is None:
            continue
        name, raw = b.callee(s.data)
        kind = 'other'
        if name == 'Isometry::transform_point':
            kind = 'point'
        elif name == 'Isometry::transform_vector':
            kind = 'vector'
        elif name == 'Isometry::mul':
            ti = trait_of_impl(raw)
            tr = ti[0] if ti else ''
            if 'OPoint<' in tr:
                kind = 'point'
            elif 'Unit<' in tr:
                kind = 'unit'
            elif 'Matrix<' in tr:
                kind = 'vector'
            elif 'SurfacePoint' in tr:
                kind = 'surface_point'
        else:
            kind = name.split('::')[-1]
        out.append((s, kind))
    return out


def no_projections(cx, b, tparam, key):
    dag = b.dag()
    bad = []
    for bi in b.live:
        if bi not in b.reachable():
            continue
        for si, st in enumerate(b.blocks[bi]['stmts']):
            v = simplify(dag.rvalue(st['rv'], bi, si))
            for t in subterms(v):
                if t[0] == 'field' and t[1] in ('rotation', 'translation') and find(f'(param {tparam})', t[2]) is not None:
                    bad.append(t[1])
    for s in b.calls('Isometry::inverse|Isometry::inv_mul|Isometry::inverse_transform_point|Isometry::inverse_mut'):
        if find(f'(param {tparam})', cx.arg(s, 0)) is not None:
            bad.append('inverse')
    cx.ob('KIND', f'{key}:whole-transform', not bad, f'{key}: the transform is applied as a whole (no .rotation / .translation / inverse of it)', where=b.file, found=', '.join(bad) if bad else None)


def mesh_transform_rule(cx):
    """shared with C13 (a section of the moved mesh is the moved section only if the mesh really moved)"""
    b = cx.fn('geom3::mesh::Mesh::transform')
    if b:
        tv = b.calls('TriMesh::transform_vertices')
        ok = len(tv) == 1 and match('(param transform)', cx.arg(tv[0], 1)) is not None and match('(field shape (param self))', cx.arg(tv[0], 0)) is not None
        ok = ok and all(b.dominates(tv[0].bb, e) for e in b.exits())
        cx.ob('KIND', 'Mesh::transform', ok, 'Mesh::transform moves every vertex of the stored shape by the given isometry (parry transform_vertices), on EVERY path: no isometry is short-cut', where=b.file)
        no_projections(cx, b, 'transform', 'Mesh::transform')


def plane_transform_rule(cx):
    """shared with C13 (sectioning / splitting commutes with a rigid motion of mesh and plane together)"""
    b = cx.fn('geom3::plane3::Plane3::transform_by')
    if b:
        cx.expect('KIND', 'Plane3::transform_by', cx.retval(b),
                  '(call *Plane3::from (call *SurfacePoint::transformed (call *SurfacePoint::new (or (call T::into (call Matrix::mul (self normal) (self d))) (call OPoint::from (call Matrix::mul (self normal) (self d)))) (self normal)) (param iso)))',
                  'the plane is re-derived from its representative point normal*d and its normal, both moved by the same isometry', where=b.file)
        no_projections(cx, b, 'iso', 'Plane3::transform_by')


def plane_intersection_distance_rule(cx):
    from rules.C19 import plane3_rules
    plane3_rules(cx)
    # the blended normal / direction of a station inside an edge is the SLERP of the two vertex vectors by the station's fraction: a rotation-equivariant
    # blend (interpolating heading angles has a branch cut on the -x axis: the blended normal flips when the frame is turned)
    for fn, acc in (('geom2::curve2::CurveStation2::interpolated_surface_point', 'normal'), ('geom2::curve2::CurveStation2::interpolated_direction_point', 'direction')):
        bb_ = cx.fn(fn)
        if bb_:
            r_ = cx.retval(bb_)
            e_ = find(f'(call *SurfacePoint::new (field point (param self)) (call Unit::slerp (call *CurveStation2::{acc} _) (call *CurveStation2::{acc} _) (field fraction (param self))))', r_)
            cx.ob('EXPR', f'{fn.split("::")[-1]}:slerp', e_ is not None and not bb_.calls('f64::atan2'),
                  f'{fn.split("::")[-1]}: the blended {acc} is slerp(previous vertex {acc}, next vertex {acc}, fraction) at the station point', where=bb_.file, found=r_)
    # the surface-normal fallback of the deviation functions is taken under an ABSOLUTE 1e-6 test on the offset (shared with C16/C02: a threshold scaled by the distance
    # of the point from the origin makes the signed deviation depend on where the part sits in the frame)
    from rules.C16 import deviation_fallback_rules
    deviation_fallback_rules(cx)
    b = cx.fn('geom3::plane3::Plane3::intersection_distance')
    if not b:
        return
    N, SN, SPT = '(field normal (param self))', '(field normal (param sp))', '(field point (param sp))'
    P0 = f'(call OPoint::from (call Matrix::mul {N} (field d (param self))))'
    DEN = f'(or (call Matrix::dot {N} {SN}) (call Matrix::dot {SN} {N}))'
    GAP = f'(or (call Matrix::dot (call OPoint::sub {P0} {SPT}) {N}) (call Matrix::dot {N} (call OPoint::sub {P0} {SPT})) ' \
          f'(sub (field d (param self)) (or (call Matrix::dot {N} (field coords {SPT})) (call Matrix::dot (field coords {SPT}) {N}))))'
    somes = [(s, d) for s, d in cx.rets(b) if d[0] == 'agg' and d[1].endswith('Option::Some')]
    ok = len(somes) == 1
    if ok:
        s, d = somes[0]
        ok = match(f'(agg * (0 (div {GAP} {DEN})))', d) is not None
        ok = ok and cx.guarded(b, s.bb, f'(le {DEN} $eps)', False) is not None
    cx.ob('EXPR', 'Plane3::intersection_distance', ok,
          'distance along the surface point\'s normal to the plane = (n*d - p).n / (n.m), with n and d both of THIS plane (its reference point n*d lies on it) and m the '
          'surface point\'s normal; a position enters only as a difference projected on the plane normal', where=b.file, found=somes[0][1] if somes else None)



def distance_conversion_rules(cx):
    """shared with C16 (a converted distance keeps its value only if its direction stays a unit vector moved by the rotation alone)"""
    # ---------------------------------------------------------------- Distance 2D <-> 3D
    b = cx.fn('metrology::dimension::Distance::to_3d')
    if b:
        cx.expect('KIND', 'Distance2::to_3d', cx.retval(b),
                  '(call *Distance::new (call Isometry::mul (param iso) (call OPoint::to_3d (self a))) (call Isometry::mul (param iso) (call OPoint::to_3d (self b))) '
                  '(agg *Option::Some (0 (call Isometry::mul (param iso) (call Unit::to_3d (self direction))))))',
                  'a and b are lifted then moved by the full isometry, the direction is lifted then rotated', where=b.file)
        ks = sorted(k for _, k in iso_apps(cx, b, 'iso'))
        cx.ob('KIND', 'Distance2::to_3d:kinds', ks == ['point', 'point', 'unit'], 'two point applications and one rotation-only application', found=str(ks))
    b = cx.fn('metrology::dimension::Distance::to_2d')
    if b:
        cx.expect('KIND', 'Distance3::to_2d', cx.retval(b),
                  '(call *Distance::new (call OPoint::to_2d (call Isometry::mul (param iso) (self a))) (call OPoint::to_2d (call Isometry::mul (param iso) (self b))) '
                  '(agg *Option::Some (0 (call Unit::to_2d (call Isometry::mul (param iso) (self direction))))))',
                  'a and b are moved by the full isometry then projected, the direction is rotated then projected', where=b.file)
        ks = sorted(k for _, k in iso_apps(cx, b, 'iso'))
        cx.ob('KIND', 'Distance3::to_2d:kinds', ks == ['point', 'point', 'unit'], 'two point applications and one rotation-only application', found=str(ks))

def run(cx):
    # crate-wide: a position enters a dot product only inside a difference of projections (or as the plane offset)
    E.posdot(cx, floor=5)
    # orientation of a point list is decided by a vote around its convex hull; it must not depend on where the hull list starts (rule shared with C15)
    from rules.C15 import order_vote_rule
    order_vote_rule(cx)
    SP = 'common::surface_point::SurfacePoint'
    b = cx.fn(f'{SP}::transformed')
    if b:
        cx.expect('KIND', 'SurfacePoint::transformed', cx.retval(b), f'(call *SurfacePoint::new (call Isometry::mul (param t) (self point)) (call Isometry::mul (param t) (self normal)))',
                  'transformed = new(t * point, t * normal)', where=b.file)
        kinds = sorted(k for _, k in iso_apps(cx, b, 't'))
        cx.ob('KIND', 'SurfacePoint::transformed:kinds', kinds == ['point', 'unit'], 'the point gets the full isometry, the normal the rotation only (one application each)', where=b.file, found=str(kinds))
        no_projections(cx, b, 't', 'SurfacePoint::transformed')
    n = 0
    for bb in cx.facts.fns('Isometry::mul'):
        if 'SurfacePoint' not in bb.path:
            continue
        n += 1
        cx.analysed_fns.add(bb.name)
        cx.ob('KIND', f'Mul<SurfacePoint>:{n}', match('(call *SurfacePoint::transformed (param rhs) (param self))', cx.retval(bb)) is not None,
              '&Iso * SurfacePoint delegates to SurfacePoint::transformed with the same transform', where=bb.file, found=cx.retval(bb))
    cx.floor('KIND', 'Mul<SurfacePoint>', n, 4, 'Mul<SurfacePoint> impls for &Iso2/&Iso3')
    b = cx.fn(f'{SP}::reversed')
    if b:
        cx.expect('COMUT', 'SurfacePoint::reversed', cx.retval(b), '(call *SurfacePoint::new (self point) (call Unit::neg (self normal)))', 'reversed keeps the point and negates the normal', where=b.file)

    # ---------------------------------------------------------------- PointCloud::transform
    b = cx.fn('geom3::point_cloud::PointCloud::transform')
    if b:
        apps = iso_apps(cx, b, 'transform')
        got = {}
        for s, k in apps:
            a1 = cx.arg(s, 1)
            if match('(itervar (self points))', a1):
                got['points'] = k
            elif match('(itervar (unwrap (self normals)))', a1) or match('(itervar (call Iterator::flatten (call Option::iter_mut (self normals))))', a1):
                got['normals'] = k      # `if let Some(ns) = &mut self.normals { for n in ns {..} }` or `self.normals.iter_mut().flatten()` (for loop or desugared for_each)
            else:
                got[show(a1)[:40]] = k
        # the same element-wise update written as `collection.iter_mut().for_each(|x| *x = transform * *x)`
        fe_ok = 0
        for s in b.calls('*::for_each'):
            coll, clo = cx.arg(s, 0), cx.arg(s, 1)
            cl = cx.closure_body(clo[1]) if clo[0] == 'closure' else None
            if cl is None:
                continue
            capps = iso_apps(cx, cl, 'transform')
            sts = [m for m in cl.mutations() if m.kind == 'store' and m.root == 2 and not m.path]
            if len(capps) == 1 and len(sts) == 1 and match('(param 2)', cx.arg(capps[0][0], 1)) is not None and \
                    simplify(cl.dag().rvalue(sts[0].data['rv'], sts[0].bb, sts[0].idx)) == cx.call(capps[0][0]):
                if match('(self points)', coll):
                    got['points'] = capps[0][1]
                    fe_ok += 1
                elif match('(call Iterator::flatten (call Option::iter_mut (self normals)))', coll) or match('(unwrap (self normals))', coll):
                    got['normals'] = capps[0][1]
                    fe_ok += 1
                else:
                    got[show(coll)[:40]] = capps[0][1]
        cx.ob('KIND', 'PointCloud::transform:members', got == {'points': 'point', 'normals': 'unit'},
              'every point gets the full isometry and every normal (when present) the rotation only', where=b.file, found=str(got))
        # each transformed value is stored back into the element it was read from
        dag = b.dag()
        stores = [m for m in b.mutations() if m.kind == 'store']
        okst = 0
        for m in stores:
            tgt = simplify(dag.local(m.data['pl']['l'], m.bb, m.idx))
            val = simplify(dag.rvalue(m.data['rv'], m.bb, m.idx))
            e = match('(call Isometry::mul (param transform) $x)', val)
            if e and (tgt == e['x'] or find_same_iter(tgt, e['x'])):
                okst += 1
        cx.ob('KIND', 'PointCloud::transform:in-place', okst + fe_ok == 2, 'each element is overwritten by the transform of ITSELF (points and normals)', where=b.file, found=str(okst))
        no_projections(cx, b, 'transform', 'PointCloud::transform')
    mesh_transform_rule(cx)
    plane_transform_rule(cx)
    b = cx.fn('geom2::curve2::Curve2::transformed_by')
    if b:
        cx.expect('KIND', 'Curve2::transformed_by', cx.retval(b),
                  '(unwrap (call *Curve2::from_points (call *transform_points (call Polyline::vertices (field line (param self))) (param transform)) (self tol) (self is_closed)))',
                  'all own vertices are transformed; tolerance and closedness are carried over', where=b.file)
    b = cx.fn('geom3::curve3::Curve3::transformed_by')
    if b:
        cx.expect('KIND', 'Curve3::transformed_by', cx.retval(b),
                  '(unwrap (call *Curve3::from_points (call Iterator::collect (call Iterator::map (call Polyline::vertices (field line (param self))) (closure * (param iso)))) (self tol)))',
                  'all own vertices are transformed; the tolerance is carried over', where=b.file)
        for cl in cx.facts.closures_of(b.name):
            cx.expect('KIND', 'Curve3::transformed_by:vertex', cx.retval(cl), '(call Isometry::mul (field cap:iso (param 1)) (param p))', 'each vertex gets the full isometry', where=cl.file)
            ks = [k for _, k in iso_apps(cx, cl, 'iso')]
            cx.ob('KIND', 'Curve3::transformed_by:kind', ks == ['point'], 'applied as a point transform', found=str(ks))
    b = cx.fn('common::points::transform_points')
    if b:
        cx.expect('KIND', 'transform_points', cx.retval(b), '(call Iterator::collect (call Iterator::map (param points) (closure * (param transform))))', 'every input point is mapped, in order', where=b.file)
        for cl in cx.facts.closures_of(b.name):
            cx.expect('KIND', 'transform_points:vertex', cx.retval(cl), '(call Isometry::mul (field cap:transform (param 1)) (param p))', 'each point gets the full isometry', where=cl.file)
            ks = [k for _, k in iso_apps(cx, cl, 'transform')]
            cx.ob('KIND', 'transform_points:kind', ks == ['point'], 'applied as a point transform', found=str(ks))
    b = cx.fn('geom2::line2::Segment2::transform_by')
    if b:
        cx.expect('KIND', 'Segment2::transform_by', cx.retval(b), '(agg *Segment2 (a (call Isometry::transform_point (param t) (self a))) (b (call Isometry::transform_point (param t) (self b))))',
                  'both end points are moved by the full isometry', where=b.file)
    n = 0
    for bb in cx.facts.fns('*::transform_by'):
        if bb.impl_trait and bb.impl_trait.endswith('TransformBy') and 'Segment2' not in bb.path and not bb.exp:
            n += 1
            cx.analysed_fns.add(bb.name)
            r = cx.retval(bb)
            ok = match('(call Iterator::collect (call Iterator::map (param self) (closure * (param transform))))', r) is not None or find('(call *transform_points _ (param _))', r) is not None
            for cl in cx.facts.closures_of(bb.name):
                ok = ok and match('(call Isometry::mul (field _ (param 1)) (param 2))', cx.retval(cl)) is not None
            cx.ob('KIND', f'TransformBy:{n}', ok, 'TransformBy for point collections maps every point through the full isometry', where=bb.file, found=r)
    cx.floor('KIND', 'TransformBy', n, 2, 'TransformBy impls for point collections')
    distance_conversion_rules(cx)
    # the optional transform of project_with_tol: applied to the query exactly once, and the angle measured from that same query (rule shared with C02)
    from rules.C02 import project_with_tol_rules
    project_with_tol_rules(cx)
    plane_intersection_distance_rule(cx)
    # a rebuilt curve merges vertices by Euclidean distance (else its length depends on the frame); the crossing search treats exactly axis-aligned
    # probes with the closed slab test (else a crossing through a vertex is found in one frame and not in another) - rules shared with C13 / C06
    from rules.C13 import curve3_dedup_rule
    from rules.C06 import cast_ray_rules
    curve3_dedup_rule(cx)
    cast_ray_rules(cx)


def find_same_iter(tgt, x):
    """the store target and the transformed operand denote the same loop element"""
    a = [t for t in subterms(tgt) if t[0] == 'itervar']
    b = [t for t in subterms(x) if t[0] == 'itervar']
    return bool(a) and bool(b) and a[0][1] == b[0][1]
