"""Positive / negative twins for the generic evaluators (thorough tier).

The fixture crate /verif/fixtures is compiled (cargo check only, never run) against the CURRENT /repo tree by the same facts
driver; every `bad_*` item must be reported by its evaluator and every `good_*` twin must not. Rules whose expected count on
engeom is zero (TXN, AFFINE, ENC hand-outs, TERM, MEMO, PARAMUSE) would otherwise pass vacuously forever if a toolchain or
engine change broke the matcher."""
from vpa import facts as F, evaluators as E, term as T
from vpa.db import Facts
from vpa.rules import Ctx

_cache = {}


def _fx():
    if 'fx' not in _cache:
        facts = Facts(F.load_fixtures())
        _cache['fx'] = facts
    return Ctx(_cache['fx'], 'FIX')


def _verdicts(fx):
    return {o.key: o.ok for o in fx.obs}


def _expect(cx, name, fx, bad, good):
    v = _verdicts(fx)
    miss = [k for k in bad if v.get(k) is not False]
    spurious = [k for k in good if v.get(k) is not True]
    cx.ob('FIXTURE', name, not miss and not spurious,
          f'evaluator {name}: reports its violating fixture(s) {", ".join(k.split(":", 2)[2] for k in bad)} and is silent on the corrected twin(s)',
          found=(('not reported: ' + ', '.join(miss) + ' ') if miss else '') + (('false alarm on: ' + ', '.join(spurious)) if spurious else '') or None)


def txn(cx):
    fx = _fx()
    E.txn(fx, floor=0)
    _expect(cx, 'TXN', fx, ['FIX:TXN:fx::Cloud::bad_txn:self'], ['FIX:TXN:fx::Cloud::good_txn:self'])


def comut(cx):
    fx = _fx()
    E.comut_parallel(fx, 'fx::Cloud', ('points', 'normals'), floor=0)
    _expect(cx, 'COMUT', fx, ['FIX:COMUT:fx::Cloud:fx::Cloud::bad_comut:grow'], ['FIX:COMUT:fx::Cloud:fx::Cloud::good_comut:grow'])


def enc(cx):
    fx = _fx()
    E.enc(fx, 'fx::Leaky', ('vals',), constructors=['fx::Leaky::new'])
    E.enc(fx, 'fx::Tight', ('vals',), constructors=['fx::Tight::new'])
    _expect(cx, 'ENC', fx, ['FIX:ENC:fx::Leaky:no-mut-handout'], ['FIX:ENC:fx::Tight:no-mut-handout', 'FIX:ENC:fx::Tight.vals:private', 'FIX:ENC:fx::Tight:constructors'])


def term(cx):
    fx = _fx()
    T.check_function(fx, 'fx::bad_term')
    T.check_function(fx, 'fx::good_term')
    _expect(cx, 'TERM', fx, ['FIX:TERM:fx::bad_term:loop0'], ['FIX:TERM:fx::good_term:loop0'])


def insert(cx):
    from rules.C12 import insert_rule
    fx = _fx()
    insert_rule(fx, 'fx::bad_insert', 1)
    insert_rule(fx, 'fx::good_insert', 1)
    _expect(cx, 'INSERT', fx, ['FIX:INSERT:fx::bad_insert:owner'], ['FIX:INSERT:fx::good_insert:owner'])


def memo(cx):
    fx = _fx()
    E.memo(fx, 'fx::Memo', 'checked')
    E.memo(fx, 'fx::Memo2', 'checked')
    _expect(cx, 'MEMO', fx, ['FIX:MEMO:fx::Memo::bad_memo:key-covers-inputs'], ['FIX:MEMO:fx::Memo2::good_memo:key-covers-inputs'])


def paramuse(cx):
    fx = _fx()
    E.paramuse(fx, '*::find', 'front', floor=2)
    _expect(cx, 'PARAMUSE', fx, ['FIX:PARAMUSE:fx::BadLocate::find:front'], ['FIX:PARAMUSE:fx::GoodLocate::find:front'])


def affine(cx):
    from rules.C19 import affine_sites
    fx = _fx()
    bad, n = affine_sites(fx.facts)
    names = sorted({b for b, _, _ in bad})
    cx.ob('FIXTURE', 'AFFINE', names == ['fx::bad_affine'],
          'evaluator AFFINE: reports the fixture that scales a position (fx::bad_affine) and is silent on the affine combination through .coords (fx::good_affine)',
          found=str(names) if names != ['fx::bad_affine'] else None)
