"""C14 Mesh face selection is set algebra over a per-face predicate - structural clauses."""
from vpa import evaluators as E
from vpa import term as T
from vpa.core import show, Site, simplify, subterms
from vpa.pattern import match, find

EXPLANATION = """Structural obligations behind C14: (MEMO) the per-vertex memo of MeshNearCheck is keyed by everything the cached
verdict depends on (a parameter that influences the verdict but not the key makes the answer depend on evaluation order, which
is hash order for Remove/Keep); (COMUT) the Add arm of mutate / mutate_pass_list only grows the selection, Remove/Keep only
shrink it; to_check pairs Add with the complement and Remove|Keep with the selection; (EXPR) polarity of the predicate per
operation; create_from_indices builds vertices and the index remap from the same sorted unique list and keeps triangle order
and winding; unique_vertices collects exactly the three indices of each selected face; (ENC) TriangleFilter fields private.
vertex_check skips further tests only when BOTH planar_tol and angle_tol are None; face_select takes the starting selection as given. Round 5 (shared with C02): Mesh::project_with_max_dist is parry's capped projection on every path (no pre-filter). for_each closures writing the selection are read as the for loop they stand for. Round 6: near_check's normal test is Matrix::angle(face normal, reference normal) <= angle_tol (the clamped angle; no acos of a raw dot product)."""
NOT_DECIDED = "the values of the geometric predicates (nalgebra angle, parry projections); only which quantity is compared with which is decided"
ASSUMPTIONS = ["HashSet::insert grows, remove/retain shrink"]

F = 'geom3::mesh::filtering'
TF = f'{F}::TriangleFilter'
NC = f'{F}::MeshNearCheck'


def arm_of(cx, b, bb):
    """which SelectOp arm dominates block bb"""
    arms = set()
    for a, p in cx.guards(b, bb):
        if a[0] == 'is' and p and a[2] in ('Add', 'Remove', 'Keep'):
            arms.add(a[2])
        if a[0] == 'is' and not p and a[2] in ('Add', 'Remove', 'Keep'):
            arms.add('not-' + a[2])
    return arms


def near_check_angle_rule(cx):
    b = cx.fn(f'{NC}::near_check')
    if b:
        r = cx.retval(b)
        e = find('(le (call Matrix::angle (unwrap (param face_normal)) $rn) (unwrap (field angle_tol _)))', r)
        ok = e is not None and find('(call *vertex_check (param self) (param vertex_index))', e[1]['rn']) is not None and not b.calls('f64::acos') and len(b.calls('Matrix::angle')) == 1
        cx.ob('EXPR', 'near_check:angle-criterion', ok,
              'the normal test is Matrix::angle(face normal, reference normal) <= angle_tol - the clamped angle (acos of a raw dot product is NaN when two parallel unit normals round above 1, and a face parallel to the reference would be rejected)',
              where=b.file, found=r)


def run(cx):
    near_check_angle_rule(cx)
    from rules.C02 import project_with_max_dist_rule
    project_with_max_dist_rule(cx)
    # ---------------------------------------------------------------- MEMO
    E.memo(cx, NC, 'checked')
    E.enc(cx, NC, ('checked', 'this_mesh', 'ref_mesh', 'distance_tol', 'planar_tol', 'angle_tol'), constructors=[f'{NC}::new'])
    E.enc(cx, TF, ('mesh', 'indices'), constructors=['geom3::mesh::Mesh::face_select'])

    # ---------------------------------------------------------------- COMUT monotonicity
    for fn in (f'{TF}::mutate', f'{TF}::mutate_pass_list'):
        b = cx.fn(fn)
        if not b:
            continue
        seen = set()
        for m in b.mutations():
            if m.root != 1 or m.path != ('indices',):
                continue
            cls = E.classify(m)
            arms = arm_of(cx, b, m.bb)
            arm = 'Add' if 'Add' in arms else 'Remove' if 'Remove' in arms else 'Keep' if 'Keep' in arms else \
                ('Keep' if {'not-Add', 'not-Remove'} <= arms else '?')
            seen.add(arm)
            ok = (arm == 'Add' and cls == 'grow') or (arm in ('Remove', 'Keep') and cls == 'shrink')
            cx.ob('COMUT', f'{fn.split("::")[-1]}:{arm}:{m.callee}', ok,
                  f'{fn.split("::")[-1]}: in the {arm} arm the selection is only {"grown" if arm == "Add" else "shrunk"} ({m.callee})',
                  where=Site(b, m.bb, 0, 'm', m.data), found=f'{m.callee} is a `{cls}` write under arm {arm} ({sorted(arms)})')
        # ORDER: no path through the function avoids the SelectOp dispatch, and inside an arm no path to the exit avoids
        # the arm's operation (e.g. an early return for an empty pass list would turn Keep into a no-op)
        disp = [bi for bi in b.live if bi in b.reachable() and b.blocks[bi]['term']['k'] == 'switch' and
                match('(discr (param mode))', simplify(b.dag().operand(b.blocks[bi]['term']['d'], bi, len(b.blocks[bi]['stmts'])))) is not None]
        okd = len(disp) >= 1 and all(any(b.dominates(d0, e) for d0 in disp) for e in b.exits())
        cx.ob('ORDER', f'{fn.split("::")[-1]}:dispatch-unavoidable', okd, f'{fn.split("::")[-1]}: every path to the return passes the Add/Remove/Keep dispatch (no early exit)', where=b.file)
        ops = {}
        for m in b.mutations():
            if m.root == 1 and m.path == ('indices',):
                arms = arm_of(cx, b, m.bb)
                arm = 'Add' if 'Add' in arms else 'Remove' if 'Remove' in arms else 'Keep'
                blk = {m.bb}
                for (h, blocks, backs) in b.loops():
                    if m.bb in blocks:
                        blk.add(h)
                ops.setdefault(arm, set()).update(blk)
        for d0 in disp:
            for s2 in b.succ[d0]:
                arms = arm_of(cx, b, s2)
                arm = 'Add' if 'Add' in arms else 'Remove' if 'Remove' in arms else 'Keep' if ('Keep' in arms or {'not-Add', 'not-Remove'} <= arms) else None
                if arm is None or arm not in ops:
                    continue
                reach = b.reach_from([s2], avoid=ops[arm])
                esc = [e for e in b.exits() if e in reach]
                cx.ob('ORDER', f'{fn.split("::")[-1]}:{arm}:operation-unavoidable', not esc,
                      f'{fn.split("::")[-1]}: in the {arm} arm every path to the return passes the arm\'s operation on the selection', where=b.file)
        cx.ob('COMUT', f'{fn.split("::")[-1]}:arms', seen == {'Add', 'Remove', 'Keep'}, f'{fn.split("::")[-1]} writes the selection in each of the three arms', found=str(sorted(seen)))

    # polarity of the predicate in mutate
    b = cx.fn(f'{TF}::mutate')
    if b:
        for s in b.calls('HashSet::insert'):
            lits = cx.guards(b, s.bb)
            has_pred = any(p and match('(call Fn::call (param predicate) (agg tuple (0 (itervar _)) (1 _)))', a) is not None for a, p in lits)
            not_in = any((not p) and a[0] == 'call' and a[1] == 'HashSet::contains' for a, p in lits)
            cx.ob('EXPR', 'mutate:Add:polarity', has_pred and not_in, 'Add inserts face i exactly when it is not selected and predicate(i) holds', where=s,
                  found='; '.join(cx.show_guards(b, s.bb)))
            cx.expect('EXPR', 'mutate:Add:element', cx.arg(s, 1), '(itervar (range 0 (len (call *Mesh::faces (field mesh (param self))))))',
                      'Add ranges over every face index of the mesh and inserts the tested index', where=s)
        want = {'Remove': True, 'Keep': False}
        for s in b.calls('HashSet::retain'):
            arms = arm_of(cx, b, s.bb)
            arm = 'Remove' if 'Remove' in arms else 'Keep'
            cl = cx.arg(s, 1)
            body, r = cx.closure_ret(cl) if cl[0] == 'closure' else (None, None)
            neg = r is not None and r[0] == 'not'
            inner = r[1] if neg else r
            okc = inner is not None and match('(call Fn::call (field cap:predicate (param 1)) (agg tuple (0 (param 2)) (1 _)))', inner) is not None
            cx.ob('EXPR', f'mutate:{arm}:polarity', r is not None and neg == want[arm] and okc,
                  f'{arm} retains face i exactly when {"not " if want[arm] else ""}predicate(i)', where=s, found=r)
    b = cx.fn(f'{TF}::mutate_pass_list')
    if b:
        for callee, arm in (('HashSet::insert', 'Add'), ('HashSet::remove', 'Remove')):
            for s in b.calls(callee):
                cx.expect('EXPR', f'mutate_pass_list:{arm}:element', cx.arg(s, 1), '(itervar (param pass_list))', f'{arm} applies to exactly the faces of the pass list', where=s)
        for s in b.calls('HashSet::retain'):
            cl = cx.arg(s, 1)
            body, r = cx.closure_ret(cl) if cl[0] == 'closure' else (None, None)
            cx.ob('EXPR', 'mutate_pass_list:Keep:polarity', r is not None and match('(call HashSet::contains (field _ (param 1)) (param 2))', r) is not None and
                  find('(call Iterator::collect (param pass_list))', cl) is not None,
                  'Keep retains face i exactly when the pass list contains i', where=s, found=r)
    b = cx.fn(f'{TF}::to_check')
    if b:
        rets = cx.rets(b)
        ok = 0
        for s, d in rets:
            arms = arm_of(cx, b, s.bb)
            if 'Add' in arms:
                e = match('(call Iterator::collect (call Iterator::filter (agg *Range (start 0) (end (len (call *Mesh::faces (field mesh (param self)))))) (closure * (param self))))', d)
                cls = [c for c in cx.facts.closures_of(b.name)]
                neg = any(match('(not (call HashSet::contains (field indices _) (param 2)))', cx.retval(c)) is not None for c in cls)
                ok += 1 if (e is not None and neg) else 0
            else:
                e = match('(call Iterator::collect (call HashSet::iter (field indices (param self))))', d)
                ok += 1 if e is not None else 0
        cx.ob('EXPR', 'to_check:pairing', ok == 2 and len(rets) == 2, 'to_check evaluates the complement of the selection for Add and the selection itself for Remove|Keep',
              where=b.file, found='; '.join(show(d)[:160] for _, d in rets))
    # facing: the criterion is the ANGLE between the face normal and the given direction (whatever the length of that direction)
    b = cx.fn(f'{TF}::facing')
    if b:
        r = cx.retval(b)
        e = match('(call *TriangleFilter::mutate (param self) (param mode) $cl)', r)
        okf = e is not None and e['cl'][0] == 'closure'
        if okf:
            from vpa import inline as IN
            v = IN.closure_apply(cx.facts, e['cl'], (('param', 2, 'i'), ('param', 3, 'm')))
            okf = v is not None and match('(phi false (lt (call Matrix::angle (unwrap (call Triangle::normal (call TriMesh::triangle (field shape _) _))) (param normal)) (param angle)))', v) is not None
        cx.ob('EXPR', 'facing:criterion', okf,
              'face i passes exactly when it has a normal and angle(normal_i, direction) < angle: the angle itself (nalgebra normalises both vectors), not a dot product '
              'against cos(angle), which depends on the length of the direction and folds angles above pi', where=b.file, found=r)
    # near_mesh: evaluated list -> pass list -> mutate_pass_list with the same mode
    b = cx.fn(f'{TF}::near_mesh')
    if b:
        r = cx.retval(b)
        e = match('(call *mutate_pass_list (param self) (param mode) (call Iterator::collect (call Iterator::filter (call *to_check (param self) (param mode)) _)))', r)
        cx.ob('EXPR', 'near_mesh:wiring', e is not None, 'near_mesh filters to_check(mode) and applies the passes with the same mode', where=b.file, found=r)
        # every near_check of a face uses that face's own normal and one of its three vertices
        cl = [c for c in cx.facts.closures_of(b.name)]
        n = 0
        verts = set()
        okn = True
        for c in cl:
            for s in c.calls(f'{NC}::near_check'):
                n += 1
                v, nm = cx.arg(s, 1), cx.arg(s, 2)
                ev = match('(index (index (call *Mesh::faces _) $i) $k)', v)
                en = match('(call Triangle::normal (call TriMesh::triangle _ (cast _ $i)))', nm, {'i': ev['i']} if ev else None) or \
                    (match('(call Triangle::normal (call TriMesh::triangle _ $i))', nm, {'i': ev['i']} if ev else None))
                if ev is None or en is None:
                    okn = False
                else:
                    verts.add(ev['k'][1])
        cx.ob('EXPR', 'near_mesh:face-normal', n == 6 and okn and verts == {0, 1, 2},
              'each of the 6 near_check calls passes vertex k of face i together with the normal of that same face i', found=f'{n} calls, vertices {sorted(verts)}, coherent={okn}')
        # all-vertices mode is the conjunction over the face's THREE vertices, any-vertex mode the disjunction over the same three
        okm = len(cl) == 1
        detail = []
        for c in cl:
            AP = '(field cap:all_points (param 1))'
            for pol in (True, False):
                calls = [s for s in c.calls(f'{NC}::near_check') if cx.guarded(c, s.bb, AP, pol) is not None]
                ks = []
                chain_ok = True
                for s in calls:
                    ev = match('(index (index (call *Mesh::faces _) $i) $k)', cx.arg(s, 1))
                    ks.append(ev['k'][1] if ev else None)
                    # every other call of this mode that dominates s must have come out `pol` (true keeps an && chain going, false an || chain)
                    for t in calls:
                        if t is not s and c.dominates(t.bb, s.bb):
                            prev = cx.call(t)
                            if not any(p == pol and a[0] == 'call' and a[1].endswith('near_check') and a[3:] == prev[3:] for a, p in cx.guards(c, s.bb)):
                                chain_ok = False
                consts = [d for s_, d in cx.rets(c) if d[0] == 'const' and isinstance(d[1], bool) and cx.guarded(c, s_.bb, AP, pol) is not None]
                okm = okm and sorted(k for k in ks if k is not None) == [0, 1, 2] and len(ks) == 3 and chain_ok and all(d[1] == (not pol) for d in consts)
                detail.append(f'{"all" if pol else "any"}: vertices {ks} chain={chain_ok} early={[d[1] for d in consts]}')
        cx.ob('EXPR', 'near_mesh:mode', okm,
              'with all_points the face passes when vertex 0 AND 1 AND 2 are near (early exit false), otherwise when vertex 0 OR 1 OR 2 is near (early exit true): each mode examines each of the three vertices once',
              where=b.file, found='; '.join(detail))

    # ---------------------------------------------------------------- vertex_check: "nothing more to test" only when NO further tolerance was given
    b = cx.fn('geom3::mesh::filtering::MeshNearCheck::vertex_check')
    if b:
        ins = b.calls('HashMap::insert')
        okv = len(ins) == 1
        n_pass = 0
        if okv:
            for dbb, dv, g in cx.alts(b, ins[0].data['args'][2], ins[0].bb, ins[0].idx):
                if match('(agg *Option::Some (0 (agg *Option::None)))', dv) is not None:
                    n_pass += 1
                    has = lambda pat, pol: any(p == pol and match(pat, a) is not None for a, p in g)
                    okv = okv and has('(is (field planar_tol (param self)) None)', True) and has('(is (field angle_tol (param self)) None)', True) and \
                        has('(is (call *project_with_max_dist (field ref_mesh (param self)) _ (field distance_tol (param self))) Some)', True)
        cx.ob('GUARD', 'vertex_check:no-further-test', okv and n_pass == 1,
              'a vertex within distance passes without a planar or angle test only when BOTH planar_tol and angle_tol are None (with an angle tolerance alone the reference normal must still be handed back)',
              where=b.file, found=f'{n_pass} such exits')
    # ---------------------------------------------------------------- face_select: the starting selection is taken as given
    b = cx.fn('geom3::mesh::Mesh::face_select')
    if b:
        cx.expect('EXPR', 'face_select:start', cx.retval(b),
                  '(agg *TriangleFilter (mesh (param self)) (indices (call Iterator::collect (phi (call Vec::new) (call *index_vec (agg *Option::None) (len (call *Mesh::faces (param self)))) (field 0 (variant Indices (param start)))))))',
                  'the filter starts from nothing, from every face index 0..faces.len(), or from exactly the indices given (none dropped)', where=b.file)
    # ---------------------------------------------------------------- create_from_indices
    b = cx.fn('geom3::mesh::Mesh::create_from_indices')
    if b:
        # vertices, the old->new map and the triangles as three comprehensions (chains or push loops alike, in any statement order)
        from vpa import comp as CMP
        K = '(call *unique_vertices (param self) (param indices))'
        IK = f'(itervar (range 0 (len {K})))'
        II = '(itervar (range 0 (len (param indices))))'
        news = b.calls('*Mesh::new')
        ok_list = ok_wind = ok_map = ok_copy = False
        r = cx.retval(b)
        if len(news) == 1 and match('false', cx.arg(news[0], 2)) is not None:
            cv = [c for c in CMP.comprehensions(cx, b, cx.arg(news[0], 0)) if c.get('elem') is not None]
            ct = [c for c in CMP.comprehensions(cx, b, cx.arg(news[0], 1)) if c.get('elem') is not None]
            if len(cv) == 1 and len(ct) == 1 and not cv[0]['conds'] and not ct[0]['conds'] and cv[0]['src'] is not None and ct[0]['src'] is not None:
                ok_list = match(K, cv[0]['src']) is not None and match('(param indices)', ct[0]['src']) is not None
                ok_copy = match(f'(index (call *Mesh::vertices (param self)) (index {K} {IK}))', cv[0]['elem']) is not None or \
                    match(f'(index (call *Mesh::vertices (param self)) (cast _ (index {K} {IK})))', cv[0]['elem']) is not None
                T = f'(index (call *Mesh::faces (param self)) (index (param indices) {II}))'
                e = match(f'(agg array (0 (call HashMap::index $m (index {T} 0))) (1 (call HashMap::index $m (index {T} 1))) (2 (call HashMap::index $m (index {T} 2))))', ct[0]['elem'])
                ok_wind = e is not None
                if e is not None:
                    cm = [c for c in CMP.comprehensions(cx, b, e['m']) if c.get('elem') is not None]
                    ok_map = len(cm) == 1 and not cm[0]['conds'] and cm[0]['src'] is not None and match(K, cm[0]['src']) is not None and \
                        (match(f'(agg tuple (0 (index {K} {IK})) (1 {IK}))', cm[0]['elem']) is not None or match(f'(agg tuple (0 (index {K} {IK})) (1 (cast _ {IK})))', cm[0]['elem']) is not None)
                    ok_list = ok_list and ok_map
        cx.ob('EXPR', 'create_from_indices:same-list', ok_list,
              'vertices and the old->new index map are both derived from the same unique_vertices(indices) list; triangles follow `indices` in order',
              where=b.file, found=r)
        cx.ob('EXPR', 'create_from_indices:winding', ok_wind, 'new triangle = [map[t0], map[t1], map[t2]] of the selected face, in order (winding kept)', where=b.file)
        cx.ob('EXPR', 'create_from_indices:map_back', ok_map, 'map_back sends old vertex id -> its position in the unique list', where=b.file)
        cx.ob('EXPR', 'create_from_indices:vertex-copy', ok_copy, 'new vertex j is the old vertex with id unique[j] (coordinates copied)', where=b.file)
    b = cx.fn('geom3::mesh::Mesh::unique_vertices')
    if b:
        # the set of vertex ids as a comprehension over the selected faces: three explicit inserts per face, or every element of the face array
        from vpa import comp as CMP
        sets = [cx.arg(s_, 0) for s_ in b.calls('Itertools::collect_vec')] + [cx.retval(b)]
        comps = []
        for d_ in sets:
            for x in subterms(d_):
                if isinstance(x, tuple) and x and ((x[0] == 'call' and x[1] == 'Iterator::collect') or x[0] in ('mut', 'phi')):
                    cs = [c for c in CMP.comprehensions(cx, b, x) if c.get('elem') is not None]
                    if cs and all(find('(call *Mesh::faces (param self))', c['elem']) is not None for c in cs):
                        comps = cs
                        break
            if comps:
                break
        FACE = '(index (call *Mesh::faces (param self)) (index (param triangle_indices) (itervar (range 0 (len (param triangle_indices))))))'
        ks = set()
        ins = comps
        for c in comps:
            e = match(f'(index {FACE} $k)', c['elem'])
            if e and not c['conds']:
                ks.add(e['k'][1] if e['k'][0] == 'const' else 'all')
        if ks == {'all'} and len(comps) == 1:
            ks, ins = {0, 1, 2}, [0, 1, 2]
        cx.ob('EXPR', 'unique_vertices:three', ks == {0, 1, 2} and len(ins) == 3, 'exactly the three vertex ids of each selected face are collected', found=str(sorted(ks)))
        r = cx.retval(b)
        cx.ob('ORDER', 'unique_vertices:sorted', match('(mut slice::sort_unstable . (call Itertools::collect_vec _))', r) is not None or match('(mut slice::sort . _)', r) is not None,
              'the unique vertex list is sorted before use (hash order cannot leak into vertex numbering)', where=b.file, found=r)


def run_thorough(cx):
    """thorough tier: the generic evaluators this property relies on must fire on their positive fixture twins"""
    from rules import fixture_check as FX
    FX.memo(cx)
    FX.enc(cx)
