"""C12 Mesh connectivity results are exact partitions and always terminate - structural clauses."""
from vpa import evaluators as E
from vpa import term as T
from vpa.core import show, Site, simplify, subterms
from vpa.pattern import match, find
from rules import chain_rules

EXPLANATION = """Structural obligations behind C12: (TERM) every loop of the connectivity walks and flood fills has a structural
variant (finite iterator, bounded counter, or a lexicographic (|R|,|W|) measure where R never grows and every growth of the
work-list W is control-dependent on a successful strict shrink of R); (EXPR) edge keys are functions of the unordered vertex
pair; (GUARD) the manifold test (count > 2 => Err) precedes every map construction and an edge enters the boundary map exactly
under count == 1; (INSERT) no insertion into a successor/owner map silently overwrites an existing entry; (ORDER) hash
iteration order cannot leak into edge indices (sort before use); both orientations of a popped edge are looked up and all three
edges of a new face are queued; the 26-neighbourhood is complete; (TABLE) the literal box tables are closed, consistently
wound and outward on the {0,1}^3 lattice, and the generated cylinder quads are consistently wound and outward by the sign
pattern of their corner lattice. Round 5: Mesh::get_patches is compute_patch_indices on every path (no shortcut from is_solid)."""
NOT_DECIDED = "that patches are maximal connected components for arbitrary winding (value-level), polynomial time bounds, set-equality of results across hash seeds beyond the index-leak channel"
ASSUMPTIONS = ["std collection semantics: pop/remove shrink by one on success, insert grows or overwrites",
               ]

ED = 'geom3::mesh::edges'
PA = 'geom3::mesh::patches'


def local_used(b, l):
    """is local l read anywhere (operand of a statement/terminator other than drops)?"""
    def in_op(o):
        return o.get('k') in ('copy', 'move') and (o['pl']['l'] == l or any(isinstance(e, dict) and e.get('idx') == l for e in o['pl']['p']))

    def in_place(p):
        return p['l'] == l
    for bi in b.live:
        blk = b.blocks[bi]
        for s in blk['stmts']:
            rv = s['rv']
            for k in ('a', 'b'):
                if k in rv and isinstance(rv[k], dict) and in_op(rv[k]):
                    return True
            if 'pl' in rv and in_place(rv['pl']):
                return True
            for o in rv.get('ops', ()):
                if in_op(o):
                    return True
        t = blk['term']
        if t['k'] == 'call':
            if any(in_op(a) for a in t['args']):
                return True
        elif t['k'] == 'switch' and in_op(t['d']):
            return True
    return False


def array_map_literal(cx, d):
    """`[a, b, c].map(f)` as the array literal `[f(a), f(b), f(c)]` (closure applied element by element), everywhere inside d"""
    from vpa import inline as IN

    def rw(n):
        if n[0] == 'call' and len(n) == 4 and n[1] in ('slice::map', 'array::map') and isinstance(n[2], tuple) and n[2][:2] == ('agg', 'array') and \
                isinstance(n[3], tuple) and n[3][0] == 'closure':
            out = []
            for comp_ in n[2][2:]:
                v = IN.closure_apply(cx.facts, n[3], (IN.subst(comp_[1], rw) if isinstance(comp_[1], tuple) else comp_[1],))
                if v is None:
                    return None
                out.append((comp_[0], simplify(IN.subst(v, rw))))
            return ('agg', 'array') + tuple(out)
        return None
    return simplify(IN.subst(d, rw)) if isinstance(d, tuple) else d


def identify_edges_rules(cx):
    """manifold guard, boundary-map entries and face_edges of identify_edges (shared with C20: the flattening works on these tables)"""
    # ---------------------------------------------------------------- GUARD / ORDER identify_edges, unique_edges
    b = cx.fn(f'{ED}::identify_edges')
    if b:
        errs = [s for s, d in cx.rets(b) if d[0] == 'agg' and d[1].endswith('Result::Err')]
        any_pat = '(call Iter::any (call *unique_edges (call *naive_edges (param faces))) (closure *))'
        cx.ob('GUARD', 'identify_edges:err-under-nonmanifold', len(errs) == 1 and cx.guarded(b, errs[0].bb, any_pat, True) is not None,
              'Err is returned exactly under any(count > 2)', where=errs[0] if errs else b.file)
        for cl in cx.facts.closures_of(b.name):
            if cl.name.endswith('{closure#0}'):
                cx.expect('GUARD', 'identify_edges:nonmanifold-predicate', cx.retval(cl), '(lt 2 (field 1 (param 2)))', 'the predicate is count > 2', where=cl.file)
        for glob, what in (('HashMap::new', 'map construction'), (f'{ED}::boundary_loops', 'the boundary walk'), ('HashMap::insert', 'boundary-map insertion')):
            for s in b.calls(glob):
                cx.ob('GUARD', f'identify_edges:manifold-first:{glob.split("::")[-1]}@bb{0}', cx.guarded(b, s.bb, any_pat, False) is not None,
                      f'{what} happens only after the manifold test passed', where=s)
        # boundary map: (v0 -> v1) of naive edge j enters exactly under count[unique index of edge j] == 1
        ins = b.calls('HashMap::insert')
        seen = set()
        for s in ins:
            k, v = cx.arg(s, 1), cx.arg(s, 2)
            e = match('(index (index (itervar (call slice::chunks (call *naive_edges (param faces)) 3)) $j) 0)', k)
            e2 = match('(index (index (itervar (call slice::chunks (call *naive_edges (param faces)) 3)) $j) 1)', v, e) if e else None
            g = None
            if e2:
                g = cx.guarded(b, s.bb, '(eq 1 (field 1 (index (call *unique_edges _) (call HashMap::index _ (call *edge_key (index (itervar _) $j))))))', True, e2)
                seen.add(e2['j'])
            # ... and under nothing else: no literal about ANOTHER edge's count may stand in front of the insertion (an `else if`
            # chain would drop the second boundary edge of an ear triangle)
            indep = True
            for a, pol in cx.guards(b, s.bb):
                ec = match('(eq 1 (field 1 (index (call *unique_edges _) $x)))', a)
                if ec is not None and not (pol and e2 and match('(call HashMap::index _ (call *edge_key (index (itervar _) $j)))', ec['x'], e2) is not None):
                    indep = False
            cx.ob('GUARD', f'identify_edges:boundary-entry:{show(e2["j"]) if e2 else "?"}', e2 is not None and g is not None and indep,
                  'directed edge j of the face enters the boundary map as (start -> end) exactly when the count of ITS OWN undirected key is 1 (and whatever the counts of the other two edges are)', where=s,
                  found=f'key={show(k)[:200]} guards={cx.show_guards(b, s.bb)[:3]}')
        if len(ins) == 1 and not seen:
            # the three copy-pasted guarded inserts as ONE loop over the face's edges zipped with their unique indices:
            #   for (directed, &id) in face_chunk.iter().zip([i0, i1, i2].iter()) { if count[id] == 1 { insert(directed[0], directed[1]) } }
            # zip pairs position k with position k, and the index array is [index(key(chunk[0])), index(key(chunk[1])), index(key(chunk[2]))]
            CHK = '(itervar (call slice::chunks (call *naive_edges (param faces)) 3))'
            IDS = f'(agg array (0 (call HashMap::index $m (call *edge_key (index {CHK} 0)))) (1 (call HashMap::index $m (call *edge_key (index {CHK} 1)))) (2 (call HashMap::index $m (call *edge_key (index {CHK} 2)))))'
            s0 = ins[0]
            k0, v0 = array_map_literal(cx, cx.arg(s0, 1)), array_map_literal(cx, cx.arg(s0, 2))
            lits0 = [(array_map_literal(cx, a), pol) for a, pol in cx.guards(b, s0.bb)]
            for fa, fb, Z in ((0, 1, f'(itervar (call Iterator::zip {CHK} {IDS}))'), (1, 0, f'(itervar (call Iterator::zip {IDS} {CHK}))')):
                ek = match(f'(index (field {fa} {Z}) 0)', k0)
                ev = match(f'(index (field {fa} {Z}) 1)', v0, ek) if ek else None
                if ev is None:
                    continue
                own = f'(eq 1 (field 1 (index (call *unique_edges _) (field {fb} {Z}))))'
                gz = [a for a, pol in lits0 if pol and match(own, a, ev) is not None]
                others = [a for a, pol in lits0 if match('(eq 1 (field 1 (index (call *unique_edges _) $x)))', a) is not None and not (pol and match(own, a, ev) is not None)]
                if gz and not others:
                    seen = {('const', 0), ('const', 1), ('const', 2)}
                    # retract the per-site report of the unrolled form: this site is the loop form
                    cx.obs[:] = [o for o in cx.obs if not o.key.endswith('GUARD:identify_edges:boundary-entry:?')]
                    cx.ob('GUARD', 'identify_edges:boundary-entry:zip-loop', True, 'each directed edge of the face, paired by position with the unique index of ITS OWN key, enters the boundary map exactly when that count is 1', where=s0)
        cx.ob('GUARD', 'identify_edges:boundary-entry:all-three', seen == {('const', 0), ('const', 1), ('const', 2)}, 'all three edges of each face are examined',
              found=str(sorted(show(x) for x in seen)))
        # face_edges[f] = unique indices of the keys of that face's own three naive edges, in order
        pushes = [s for s in b.calls('Vec::push')]
        okp = False
        for s in pushes:
            d = cx.arg(s, 1)
            e = match('(agg array (0 (call HashMap::index $m (call *edge_key (index $c 0)))) (1 (call HashMap::index $m (call *edge_key (index $c 1)))) '
                      '(2 (call HashMap::index $m (call *edge_key (index $c 2)))))', d)
            if e and match('(itervar (call slice::chunks (call *naive_edges (param faces)) 3))', e['c']):
                okp = True
            em = match('(call slice::map $arr $f)', d) or match('(call array::map $arr $f)', d)
            if em is not None:
                em = dict(em)
                em['arr'] = array_map_literal(cx, em['arr'])
            if em is not None:
                # `[i0, i1, i2].map(|id| id as u32)`: the same array behind an element-wise cast
                e = match('(agg array (0 (call HashMap::index $m (call *edge_key (index $c 0)))) (1 (call HashMap::index $m (call *edge_key (index $c 1)))) '
                          '(2 (call HashMap::index $m (call *edge_key (index $c 2)))))', em['arr'])
                fb_ = cx.closure_body(em['f'][1]) if isinstance(em['f'], tuple) and em['f'][0] == 'closure' else None
                if e and fb_ is not None and match('(itervar (call slice::chunks (call *naive_edges (param faces)) 3))', e['c']) and (match('(cast _ (param 2))', cx.retval(fb_)) is not None or match('(param 2)', cx.retval(fb_)) is not None):
                    okp = True
        cx.ob('EXPR', 'identify_edges:face_edges', okp, 'face_edges[f] = [index(key(edge0)), index(key(edge1)), index(key(edge2))] of the same face chunk, in order')


def boundary_loops_rules(cx):
    """every walk that is started is recorded (shared with C20: 'exactly one boundary loop' is counted on this list)"""
    b = cx.fn(f'{ED}::boundary_loops')
    if not b:
        return
    loops = b.loops()
    outer = max(loops, key=lambda lp: len(lp[1])) if loops else None
    pushes = [(s_, d) for s_, d in cx.push_events(b) if outer and s_.bb in outer[1] and not any(s_.bb in lp[1] for lp in loops if lp is not outer)]
    rec = [(s_, d) for s_, d in pushes if find('(call Vec::remove _ _)', d) is None]
    ok = outer is not None and len(rec) == 1 and all(b.dominates(rec[0][0].bb, x) for x in outer[2]) and \
        not any(find('(len _)', a) is not None for a, p in cx.guards(b, rec[0][0].bb))
    cx.ob('ORDER', 'boundary_loops:every-walk-recorded', ok,
          'every boundary walk that is started is appended to the result, whatever its length (a triangle hole is a boundary loop of three vertices): the append is on every cycle of the outer loop',
          where=b.file, found=f'{len(rec)} recording push(es) in the outer loop')
    walk = [(s_, d) for s_, d in cx.push_events(b) if any(s_.bb in lp[1] for lp in loops if lp is not outer)]
    cx.ob('EXPR', 'boundary_loops:walk', len(walk) == 1 and find('(call HashMap::remove _ _)', walk[0][1]) is not None,
          'each step appends the successor that was just consumed from the map', where=b.file)


def insert_rule(cx, fname, floor):
    b = cx.fn(fname)
    if b is None:
        return
    sites = b.calls('HashMap::insert')
    # a site inside a loop over a three-element array literal (the copy-pasted cases of the three edges written as one loop) stands for three sites
    eff = 0
    for s in sites:
        over3 = any(p and a[0] == 'is' and isinstance(a[1], tuple) and a[1][0] == 'call' and str(a[1][1]).endswith('::next') and find('(agg array (0 _) (1 _) (2 _))', a[1]) is not None
                    for a, p in cx.guards(b, s.bb))
        eff += 3 if over3 else 1
    cx.floor('INSERT', fname, eff, floor, f'HashMap::insert sites in {fname}')
    # each distinct map gets one obligation (the finding is about the map, not the statement)
    bymap = {}
    for s in sites:
        m = [x for x in b.mutations() if x.bb == s.bb and x.callee == 'HashMap::insert']
        name = T.coll_name(b, T.coll_id(m[0])) if m else '?'
        dest = s.data['dest']['l']
        consumed = local_used(b, dest)
        guarded = any(p is False and a[0] == 'call' and a[1] == 'HashMap::contains_key' for a, p in cx.guards(b, s.bb))
        bymap.setdefault(name, []).append((s, consumed or guarded))
    for name, lst in sorted(bymap.items()):
        bad = [s for s, ok in lst if not ok]
        cx.ob('INSERT', f'{fname}:{name}', not bad,
              f'{fname}: every insertion into `{name}` (key -> unique successor/owner) checks for an existing entry '
              f'(result of insert consumed, Entry::Vacant, or contains_key false); {len(lst)} site(s)',
              where=bad[0] if bad else lst[0][0],
              found=f'{len(bad)} of {len(lst)} insert result(s) discarded: an existing entry is silently overwritten' if bad else None)


def factors(d):
    """flatten a product/quotient into (numerator factors, denominator factors)"""
    if d[0] == 'mul':
        n1, d1 = factors(d[1])
        n2, d2 = factors(d[2])
        return n1 + n2, d1 + d2
    if d[0] == 'div':
        n1, d1 = factors(d[1])
        n2, d2 = factors(d[2])
        return n1 + d2, d1 + n2
    return [d], []



def create_box_rule(cx):
    """shared with C13 (sections of generated boxes are compared with their analytic outline): width, height, depth reach the table generator in this order"""
    b = cx.fn('geom3::mesh::Mesh::create_box')
    if b:
        G = '(call *mesh::box_geom (param width) (param height) (param depth))'
        cx.expect('EXPR', 'Mesh::create_box', cx.retval(b), f'(call *Mesh::new (field 0 {G}) (field 1 {G}) (param is_solid))',
                  'create_box(width, height, depth) builds the mesh from box_geom(width, height, depth) - x extent = width, y extent = height, z extent = depth (box_geom:lattice) - '
                  'vertices first, triangles second, with the requested solidity', where=b.file)

def run(cx):
    # the public entry points are the analysed algorithms on every path (no shortcut that answers from a flag)
    for fn, pat, what in (('geom3::mesh::Mesh::get_patches', '(call *patches::compute_patch_indices (param self))', 'get_patches is the flood fill over shared edges for every mesh (a solid mesh can hold several bodies)'),):
        b = cx.fn(fn)
        if b:
            cx.expect('EXPR', fn.split('::')[-1] + ':delegates', cx.retval(b), pat, what, where=b.file)
    # ---------------------------------------------------------------- TERM
    for fn, nloops in ((f'{ED}::boundary_loops', 1), (f'{PA}::take_one_boundary', 1), (f'{PA}::compute_boundary_points', 2),
                       (f'{PA}::compute_patch_indices', 3), ('raster3::clusters_from_sparse', 5), (f'{ED}::identify_edges', 1),
                       (f'{ED}::unique_edges', 1), (f'{ED}::naive_edges', 1), (f'{PA}::compute_boundary_edges', 2),
                       ('geom3::mesh::Mesh::create_cylinder', 1), ('geom3::mesh::Mesh::get_patch_boundary_points', 1)):
        T.check_function(cx, fn, expect_loops=nloops)

    # ---------------------------------------------------------------- EXPR key symmetry
    b = cx.fn(f'{ED}::edge_key')
    if b:
        cx.expect('EXPR', 'edges::edge_key:symmetric', cx.retval(b),
                  '(agg array (0 (call Ord::min (index (param edge) $i) (index (param edge) $j))) (1 (call Ord::max (index (param edge) $i) (index (param edge) $j))))',
                  'edge_key = [min(e0,e1), max(e0,e1)]: a function of the unordered pair', where=b.file)
        e = match('(agg array (0 (call Ord::min (index _ $i) (index _ $j))) (1 _))', cx.retval(b))
        cx.ob('EXPR', 'edges::edge_key:both-ends', e is not None and {e['i'], e['j']} == {('const', 0), ('const', 1)}, 'edge_key reads both ends of the edge',
              found=cx.retval(b))
    b = cx.fn(f'{PA}::make_sym')
    if b:
        rets = cx.rets(b)
        ok = len(rets) == 2
        for s, d in rets:
            lt = cx.guarded(b, s.bb, '(lt (field 0 (param k)) (field 1 (param k)))', True) is not None
            ge = cx.guarded(b, s.bb, '(lt (field 0 (param k)) (field 1 (param k)))', False) is not None
            want = '(agg tuple (0 (field 0 (param k))) (1 (field 1 (param k))))' if lt else '(agg tuple (0 (field 1 (param k))) (1 (field 0 (param k))))'
            ok = ok and (lt or ge) and match(want, d) is not None
        cx.ob('EXPR', 'patches::make_sym:symmetric', ok, 'make_sym returns (a,b) when a<b and (b,a) otherwise: a function of the unordered pair', where=b.file,
              found='; '.join(show(d) for _, d in rets))

    identify_edges_rules(cx)
    boundary_loops_rules(cx)
    b = cx.fn(f'{ED}::naive_edges')
    if b:
        # three edges per face, in this order, whether pushed in a loop or produced by flat_map over an array literal
        from vpa import comp as CMP
        comps = [c for c in CMP.comprehensions(cx, b, cx.retval(b)) if c.get('elem') is not None]
        F = '(index (param faces) (itervar (range 0 (len (param faces)))))'
        want = [(1, 2), (2, 0), (0, 1)]
        ok = len(comps) == 3 and all(not c['conds'] for c in comps)
        for c, (i, j) in zip(comps, want):
            ok = ok and match(f'(agg array (0 (index {F} {i})) (1 (index {F} {j})))', c['elem']) is not None
        cx.ob('EXPR', 'naive_edges:order', ok, 'edge j of a face is the edge opposite vertex j: (1,2), (2,0), (0,1) - three per face, in face order',
              found='; '.join(show(c['elem']) for c in comps))
    b = cx.fn(f'{ED}::unique_edges')
    if b:
        r = cx.retval(b)
        cx.ob('ORDER', 'unique_edges:sorted', match('(mut slice::sort . (call Iterator::collect (call HashMap::into_iter _)))', r) is not None,
              'the vector collected from hash iteration is sorted before it is returned (hash order cannot leak into edge indices)', where=b.file, found=r)
        ks = [cx.arg(s, 1) for s in b.calls('HashMap::entry')]
        okk = len(ks) == 1 and match('(call *edge_key (itervar (param all_edges)))', ks[0]) is not None
        if not ks:
            # the same count written as all_edges.iter().map(edge_key).fold(HashMap::new(), |counts, key| { *counts.entry(key).or_insert(0) += 1; counts })
            fm = find('(call *::fold (call Iterator::map (param all_edges) (fn *edge_key)) (call HashMap::new) (closure *))', r)
            for hit in ([fm[0]] if fm else ()):
                clo = [x for x in subterms(hit) if x[0] == 'closure']
                cl = cx.closure_body(clo[0][1]) if clo else None
                if cl is not None:
                    ent = cl.calls('HashMap::entry')
                    okk = len(ent) == 1 and match('(param 2)', cx.arg(ent[0], 0)) is not None and match('(param 3)', cx.arg(ent[0], 1)) is not None and \
                        match('(update (param 2) _ (add (call Entry::or_insert (call HashMap::entry (param 2) (param 3)) 0) 1))', cx.retval(cl)) is not None
        cx.ob('EXPR', 'unique_edges:key', okk, 'edges are counted under their symmetric key')

    # ---------------------------------------------------------------- INSERT
    insert_rule(cx, f'{ED}::identify_edges', 3)
    insert_rule(cx, f'{PA}::compute_patch_indices', 3)
    b = cx.fn(f'{PA}::compute_boundary_points')
    if b:
        vi = b.calls('VacantEntry::insert')
        errs = [s for s, d in cx.rets(b) if d[0] == 'agg' and d[1].endswith('Result::Err')]
        cx.ob('INSERT', 'compute_boundary_points:order', len(vi) == 1 and len(b.calls('HashMap::insert')) == 0 and len(errs) == 1,
              'the successor map of a patch boundary is filled through Entry::Vacant only; an occupied entry is an error', where=b.file)

    # ---------------------------------------------------------------- compute_patch_indices wiring
    b = cx.fn(f'{PA}::compute_patch_indices')
    if b:
        gets = [cx.arg(s, 1) for s in b.calls('HashMap::get')]
        fw = [g for g in gets if match('(agg tuple (0 (field 0 $e)) (1 (field 1 $e)))', g)]
        bw = [g for g in gets if match('(agg tuple (0 (field 1 $e)) (1 (field 0 $e)))', g)]
        okpop = all(match('(agg tuple (0 (field _ (unwrap (call Vec::pop _)))) (1 _))', g) is not None for g in gets)
        cx.ob('EXPR', 'compute_patch_indices:both-orientations', len(gets) == 2 and len(fw) == 1 and len(bw) == 1 and okpop,
              'every popped edge (v0,v1) is looked up as (v0,v1) AND as (v1,v0)', where=b.file, found='; '.join(show(g)[:120] for g in gets))
        # faces added to a patch: each growth region pushes the three edges of the SAME face
        pushes = cx.push_events(b)          # direct pushes and pushes made by a helper that is handed the queue
        edgepushes = []
        for s, d in pushes:
            e = match('(agg tuple (0 (index (index (call *Mesh::faces (param mesh)) $f) $i)) (1 (index (index (call *Mesh::faces (param mesh)) $f) $j)))', d)
            if e:
                edgepushes.append((b.regions().get(s.bb), show(e['f']), e['i'][1], e['j'][1]))
        byface = {}
        for reg, f, i, j in edgepushes:
            byface.setdefault((f,), set()).add((i, j))
        groups = {}
        for reg, f, i, j in edgepushes:
            groups.setdefault(f, set()).add((i, j))
        ok = len(groups) == 3 and all(v == {(0, 1), (1, 2), (2, 0)} for v in groups.values())
        cx.ob('EXPR', 'compute_patch_indices:queue-three-edges', ok,
              'the seed face and each face reached (forward / reversed lookup) queue all three of their edges (0,1),(1,2),(2,0)', where=b.file,
              found=str({k[:60]: sorted(v) for k, v in groups.items()}))
        ins = [(cx.arg(s, 1), cx.arg(s, 2)) for s in b.calls('HashMap::insert')]
        ks = set()
        for k, v in ins:
            e = match('(agg tuple (0 (index (field 1 $it) $i)) (1 (index (field 1 $it) $j)))', k)
            if e and match('(field 0 $it)', v, e):
                ks.add((e['i'][1], e['j'][1]))
        cx.ob('EXPR', 'compute_patch_indices:edge_table', ks == {(0, 1), (1, 2), (2, 0)}, 'each face registers its three directed edges under its own index',
              found=str(sorted(ks)))

    # ---------------------------------------------------------------- clusters: complete 26-neighbourhood
    b = cx.fn('raster3::clusters_from_sparse')
    if b:
        rm = [s for s in b.calls('HashSet::remove')]
        ok = False
        for s in rm:
            k = cx.arg(s, 1)
            e = match('(agg tuple (0 (add (field 0 $c) (itervar (rangeincl -1 1)))) (1 (add (field 1 $c) (itervar (rangeincl -1 1)))) (2 (add (field 2 $c) (itervar (rangeincl -1 1)))))', k)
            if e and match('(unwrap (call Vec::pop _))', e['c']):
                ok = True
        cx.ob('EXPR', 'clusters_from_sparse:neighbourhood', ok, 'the neighbour tested is current + (x,y,z) with each of x,y,z ranging over -1..=1', where=b.file,
              found='; '.join(show(cx.arg(s, 1))[:200] for s in rm))
        # the only skipped offset is the origin: the `continue` is guarded by x==0 && y==0 && z==0
        skip_ok = False
        from vpa import guards as GG
        for s in rm:
            ok2, off = cx.all_paths(b, s.bb, lambda has: has('(eq 0 (itervar (rangeincl -1 1)))', False))
            # ... and each of the THREE offsets can be the one that is non-zero: over all paths that reach the test, the non-zero literal is
            # seen on three different loop variables (x == 0 && y == 0 && x == 0 would skip the two neighbours straight above and below)
            nonzero_vars = set()
            try:
                for lits in GG.path_literal_sets(b, s.bb):
                    for a, p in lits:
                        if not p and match('(eq 0 (itervar (rangeincl -1 1)))', a) is not None:
                            nonzero_vars.add(a[2] if a[1] == ('const', 0) else a[1])
            except OverflowError:
                nonzero_vars = set()
            skip_ok = ok2 and len(nonzero_vars) == 3
        cx.ob('GUARD', 'clusters_from_sparse:skip-origin-only', skip_ok, 'a neighbour is tested unless all three offsets are zero', where=b.file)
        for s in b.calls('Vec::push'):
            d = cx.arg(s, 1)
            if match('(agg tuple (0 (add _ _)) (1 _) (2 _))', d):
                g = any(p and a[0] == 'call' and a[1] == 'HashSet::remove' for a, p in cx.guards(b, s.bb))
                cx.ob('GUARD', 'clusters_from_sparse:queue-on-remove', g, 'a neighbour is queued exactly when indices.remove(neighbour) succeeded', where=s)

    # ---------------------------------------------------------------- index chaining (exactly-once, maximal chains)
    chain_rules.run(cx)

    # ---------------------------------------------------------------- TABLE box
    create_box_rule(cx)
    b = cx.fn('geom3::mesh::box_geom')
    if b:
        r = cx.retval(b)
        e = match('(agg tuple (0 (veclit $v)) (1 (veclit $t)))', r)
        cx.ob('TABLE', 'box_geom:literals', e is not None, 'box_geom returns two literal tables', where=b.file, found=r)
        if e:
            verts = []
            okv = True
            for _, p in e['v'][2:]:
                m = match('(call OPoint::new $x $y $z)', p)
                if not m:
                    okv = False
                    break
                c = []
                for ax, pn in (('x', 'width'), ('y', 'height'), ('z', 'depth')):
                    t = m[ax]
                    if t == ('const', 0.0):
                        c.append(0)
                    elif t[0] == 'param' and t[2] == pn:
                        c.append(1)
                    else:
                        okv = False
                verts.append(tuple(c))
            tris = []
            for _, p in e['t'][2:]:
                tri = [x[1] for _, x in p[2:]]
                tris.append(tuple(tri))
            cx.ob('TABLE', 'box_geom:lattice', okv and len(verts) == 8 and len(set(verts)) == 8, 'the 8 vertices are the corners of the {0,p}^3 lattice, each axis using its own parameter',
                  found=str(verts))
            if okv and len(verts) == 8:
                dirs = {}
                for t in tris:
                    for k in range(3):
                        ed = (t[k], t[(k + 1) % 3])
                        dirs[ed] = dirs.get(ed, 0) + 1
                closed = all(n == 1 and dirs.get((b2, a), 0) == 1 for (a, b2), n in dirs.items())
                cx.ob('TABLE', 'box_geom:closed-consistent', closed and len(tris) == 12,
                      'every directed edge occurs once and its reverse once (closed, consistently wound, 12 faces)', found=str(sorted(dirs.items()))[:300])

                def det3(a, b3, c):
                    return (a[0] * (b3[1] * c[2] - b3[2] * c[1]) - a[1] * (b3[0] * c[2] - b3[2] * c[0]) + a[2] * (b3[0] * c[1] - b3[1] * c[0]))
                outward = True
                badf = []
                for t in tris:
                    p, q, rr = (verts[i] for i in t)
                    u = tuple(q[i] - p[i] for i in range(3))
                    w = tuple(rr[i] - p[i] for i in range(3))
                    pc = tuple(2 * p[i] - 1 for i in range(3))     # 2*(p - centre)
                    if det3(u, w, pc) <= 0:
                        outward = False
                        badf.append(t)
                cx.ob('TABLE', 'box_geom:outward', outward, 'every face normal points away from the box centre (sign of det[q-p, r-p, p-c] on the unit lattice; invariant under positive axis scaling)',
                      found=str(badf))

    # ---------------------------------------------------------------- TABLE cylinder
    b = cx.fn('geom3::mesh::Mesh::create_cylinder')
    if b:
        i_pat = '(itervar (range 0 (param steps)))'
        sym = {
            f'(mul 2 {i_pat})': 'A', f'(add 1 (mul 2 {i_pat}))': 'B',
            f'(mul 2 (rem (add 1 {i_pat}) (param steps)))': 'C', f'(add 1 (mul 2 (rem (add 1 {i_pat}) (param steps))))': 'D',
        }
        tris = []
        for s in b.calls('Vec::push'):
            d = cx.arg(s, 1)
            if d[0] == 'agg' and d[1] == 'array' and len(d) == 5:
                t = []
                for _, x in d[2:]:
                    nm = None
                    for pat, n in sym.items():
                        if match(pat, x) is not None:
                            nm = n
                    t.append(nm)
                tris.append(tuple(t))
        cx.ob('TABLE', 'create_cylinder:quad', len(tris) == 2 and all(None not in t for t in tris),
              'each step pushes two triangles over the corners A=2i, B=2i+1, C=2k, D=2k+1 with k=(i+1)%steps', where=b.file, found=str(tris))
        # vertex layout: 2i at z=0, 2i+1 at z=height, same (x,y); angle increases with i (counter-clockwise), radius scales x,y
        vp = [cx.arg(s, 1) for s in b.calls('Vec::push') if cx.arg(s, 1)[0] == 'call' and cx.arg(s, 1)[1] == 'OPoint::new']
        layout = False
        if len(vp) == 2:
            e0 = match('(call OPoint::new $x $y 0.0)', vp[0])
            e1 = match('(call OPoint::new $x $y (param height))', vp[1], e0) if e0 else None
            if e1:
                ex = match('(mul (call f64::cos $a) (param radius))', e1['x'])
                ey = match('(mul (call f64::sin $a) (param radius))', e1['y'], ex) if ex else None
                if ey:
                    num, den = factors(ey['a'])
                    ivar = [f for f in num if match(f'(cast f64 {i_pat})', f) is not None]
                    rest = [f for f in num if f not in ivar]
                    layout = len(ivar) == 1 and all(f[0] == 'const' and f[1] > 0 for f in rest) and \
                        all((f[0] == 'const' and f[1] > 0) or match('(cast f64 (param steps))', f) is not None for f in den)
        cx.ob('TABLE', 'create_cylinder:layout', layout,
              'vertex 2i is (r cos a, r sin a, 0), vertex 2i+1 the same (x,y) at z=height, a = (positive constant) * i / steps (counter-clockwise)', where=b.file,
              found='; '.join(show(v)[:160] for v in vp))
        if len(tris) == 2 and all(None not in t for t in tris):
            dirs = {}
            for t in tris:
                for k in range(3):
                    ed = (t[k], t[(k + 1) % 3])
                    dirs[ed] = dirs.get(ed, 0) + 1
            dup = [ed for ed, n in dirs.items() if n > 1]
            diag = [ed for ed in dirs if (ed[1], ed[0]) in dirs]
            seam_i = [ed for ed in dirs if set(ed) == {'C', 'D'}]
            seam_n = [ed for ed in dirs if set(ed) == {'A', 'B'}]
            # quad i+1 has A'=C, B'=D: its (A,B)-edge in terms of this quad's symbols
            seam_ok = len(seam_i) == 1 and len(seam_n) == 1 and \
                ({'A': 'C', 'B': 'D'}[seam_n[0][0]], {'A': 'C', 'B': 'D'}[seam_n[0][1]]) == (seam_i[0][1], seam_i[0][0])
            cx.ob('TABLE', 'create_cylinder:winding', not dup and len(diag) == 2 and seam_ok,
                  'no directed edge is used twice inside a quad, the shared diagonal is traversed in opposite directions, and the seam edge of quad i is opposite to that of quad i+1',
                  where=b.file, found=f'triangles={tris} duplicated directed edges={dup}')
            # outward: corners on the (t,u) lattice A=(0,0) B=(0,1) C=(1,0) D=(1,1); t x u is outward for ccw t and upward u
            lat = {'A': (0, 0), 'B': (0, 1), 'C': (1, 0), 'D': (1, 1)}
            inward = []
            for t in tris:
                p, q, r = (lat[x] for x in t)
                a1, b1 = q[0] - p[0], q[1] - p[1]
                a2, b2 = r[0] - p[0], r[1] - p[1]
                if a1 * b2 - a2 * b1 <= 0:
                    inward.append(t)
            cx.ob('TABLE', 'create_cylinder:outward', layout and not inward,
                  'both triangles of a quad have outward normals (sign of the 2x2 determinant of their corner offsets on the tangent/axis lattice)', where=b.file,
                  found=f'inward-facing: {inward}')


def run_thorough(cx):
    """thorough tier: the generic evaluators this property relies on must fire on their positive fixture twins"""
    from rules import fixture_check as FX
    FX.term(cx)
    FX.insert(cx)
