"""C01 Curve stations are consistent with arc length - structural clauses, evaluated on Curve2 and Curve3 alike."""
from vpa import evaluators as E
from vpa.core import show, Site, simplify, subterms
from vpa.pattern import match, find

EXPLANATION = """Structural obligations behind C01, each evaluated on both siblings (Curve2, Curve3): (ENC) lengths/line/tol/is_closed and
the station fields are private, no &mut hand-out, one construction site; CurveStation::new is private to the curve module;
(CONSTRUCT) `lengths` starts as the literal [0.0] and every further element is (most recent element) + dist(v[i+1], v[i]) over
the vertices of the stored polyline, one push per edge - so it starts at 0, is non-decreasing and ends at the sum of the edge
lengths; de-duplication and closedness use the same tolerance, the closing vertex is a copy of the first pushed only under
force_closed and dist > tol, is_closed is evaluated after that push; fewer than 2 points => Err; (GUARD) at_length returns Some
only under `length < 0` false AND `length > self.length()` false, both strict, with no clamping of the length used afterwards;
(EXPR) one edge index i = next_index-1 feeds the station index, the direction dir_of_edge(i), the fraction
(l - L[i])/(L[i+1]-L[i]) and the point vtx(i) + dir*(l - L[i]); the binary search compares stored lengths against the query in
that order; last-vertex rule (index-1, 1.0) exactly under index == len-1; length_along = L[i] + (L[i+1]-L[i])*f; at_fraction,
at_front, at_back and both iterators delegate to at_length / at_vertex; dir_of_vertex uses the adjacent edges named in the
property."""
NOT_DECIDED = "that the binary search returns the right slot for every float, float equality of length_along() and l, one-ulp behaviour at vertices, that parry's Polyline keeps the vertex order (trusted)"
ASSUMPTIONS = ["common::points::dist, Matrix::norm are non-negative", "slice::binary_search_by returns Ok(i) for a match and Err(insertion index) otherwise"]

DIMS = [
    dict(mod='geom2::curve2', C='Curve2', S='CurveStation2', It='Curve2Iterator', d='2D', fields=('line', 'lengths', 'is_closed', 'tol')),
    dict(mod='geom3::curve3', C='Curve3', S='CurveStation3', It='Curve3Iterator', d='3D', fields=('line', 'lengths', 'tol')),
]
NONNEG = ('common::points::dist', 'Matrix::norm', 'Matrix::magnitude', 'f64::abs', 'f64::sqrt')


def curve2_closedness_rules(cx, b, aggs):
    """closing vertex and the closedness flag of Curve2::from_points (shared with C04: portions are rebuilt through from_points and every
    portioning decision reads is_closed)"""
    # closing vertex
    pushes = [s for s in b.calls('Vec::push') if match('(unwrap (call slice::first _))', cx.arg(s, 1)) is not None]
    okc = len(pushes) == 1
    if okc:
        pb = pushes[0].bb
        okc = cx.guarded(b, pb, '(param force_closed)', True) is not None and \
            cx.guarded(b, pb, '(lt (param tol) (call *points::dist (unwrap (call slice::first $p)) (unwrap (call slice::last $p))))', True) is not None
    cx.ob('GUARD', 'Curve2::from_points:closing-vertex', okc, 'a copy of the first vertex is appended exactly under force_closed and dist(first,last) > tol',
          where=pushes[0] if pushes else b.file)
    for s in aggs:
        ic = dict(cx.aggval(s)[2:]).get('is_closed')
        line = dict(cx.aggval(s)[2:]).get('line')
        e2 = find('(le (call *points::dist (index $p 0) (unwrap (call slice::last $p))) (param tol))', ic)
        okp = e2 is not None and match('(call Polyline::new $p _)', line, {'p': e2[1]['p']}) is not None
        cx.ob('EXPR', 'Curve2::from_points:is_closed', okp,
              'is_closed = dist(pts[0], last) <= tol evaluated on the final point list (after the optional closing vertex), same tol', where=s, found=ic)


def at_length_rules(cx, CP, C, S):
    """shared with C04 (portions are cut at stations found by at_length): the station at an arc length"""
    # ---------------------------------------------------------------- at_length
    b = cx.fn(f'{CP}::at_length')
    if b:
        somes = [(s, dd) for s, dd in cx.rets(b) if dd[0] == 'agg' and dd[1].endswith('Option::Some')]
        nones = [(s, dd) for s, dd in cx.rets(b) if dd[0] == 'agg' and dd[1].endswith('Option::None')]
        cx.ob('GUARD', f'{C}::at_length:shape', len(somes) == 2 and len(nones) == 1, 'at_length has one None exit and two Some exits (vertex hit / inside an edge)',
              found=f'{len(somes)} Some, {len(nones)} None')
        for s, dd in somes:
            g0 = cx.guarded(b, s.bb, '(lt (param length) 0.0)', False)
            g1 = cx.guarded(b, s.bb, f'(lt (call *{C}::length (param self)) (param length))', False)
            cx.ob('GUARD', f'{C}::at_length:range', g0 is not None and g1 is not None,
                  'a station is produced only under NOT(length < 0) and NOT(length > self.length()), both strict, so l = 0 and l = L are accepted and nothing outside is',
                  where=s, found='; '.join(cx.show_guards(b, s.bb))[:400])
        for s, dd in nones:
            ok, off = cx.all_paths(b, s.bb, lambda has: has('(lt (param length) 0.0)', True) or has(f'(lt (call *{C}::length (param self)) (param length))', True))
            cx.ob('GUARD', f'{C}::at_length:none-only-outside', ok, 'None is returned only for a length outside [0, L]', where=s, found='; '.join(off) if off else None)
        search = '(call slice::binary_search_by (self lengths) (closure * (param length)))'
        for s, dd in somes:
            inner = dd[2][1]
            if match(f'(call *{C}::at_vertex (param self) (unwrap {search}))', inner):
                cx.ob('EXPR', f'{C}::at_length:vertex-hit', True, 'an exact hit Ok(i) returns at_vertex(i)', where=s)
                continue
            e = match(f'(call *{S}::new $pt $dir $i $f (param self))', inner)
            okx = e is not None and match(f'(sub (unwrap_err {search}) 1)', e['i']) is not None
            cx.ob('EXPR', f'{C}::at_length:index', okx, 'the station index is next_index - 1 where Err(next_index) is the binary-search insertion point (no clamping of the query)',
                  where=s, found=e['i'] if e else inner)
            if not okx:
                continue
            env = {'i': e['i']}
            cx.ob('EXPR', f'{C}::at_length:direction', match(f'(call *{C}::dir_of_edge (param self) $i)', e['dir'], env) is not None,
                  'direction = dir_of_edge(i) for the same i', where=s, found=e['dir'])
            cx.ob('EXPR', f'{C}::at_length:fraction', match('(div (sub (param length) (index (self lengths) $i)) (sub (index (self lengths) (add 1 $i)) (index (self lengths) $i)))', e['f'], env) is not None,
                  'fraction = (l - L[i]) / (L[i+1] - L[i]) for the same i', where=s, found=e['f'])
            cx.ob('EXPR', f'{C}::at_length:point',
                  match(f'(call OPoint::add (call *{C}::vtx (param self) $i) (call Matrix::mul (call *{C}::dir_of_edge (param self) $i) (sub (param length) (index (self lengths) $i))))', e['pt'], env) is not None,
                  'point = vtx(i) + dir_of_edge(i) * (l - L[i]) for the same i', where=s, found=e['pt'])
        for cl in cx.facts.closures_of(b.name):
            cx.expect('EXPR', f'{C}::at_length:comparator', cx.retval(cl), '(unwrap (call f64::partial_cmp (param 2) (field cap:length (param 1))))',
                      'the search orders stored lengths against the query (element.partial_cmp(query))', where=cl.file)


def from_points_rules(cx, CP, C, d):
    """construction of a curve from points: the length table is the running sum of the edge lengths of the STORED vertices (shared with C02: the
    length reported for a closest point is read from this table)"""
    # ---------------------------------------------------------------- from_points
    b = cx.fn(f'{CP}::from_points')
    if b:
        aggs = b.aggregates(CP)
        cx.ob('CONSTRUCT', f'{C}::from_points:sites', len(aggs) == 1, f'{C}::from_points has exactly one {C} literal', found=str(len(aggs)))
        for s in aggs:
            lit = cx.aggval(s)
            fl = dict(lit[2:])
            line = fl.get('line')
            e = match('(call Polyline::new $pts (agg *Option::None))', line)
            cx.ob('EXPR', f'{C}::from_points:polyline', e is not None, 'the polyline is built from the de-duplicated points with implicit (i, i+1) edges', where=s, found=line)
            # tolerance stored is the parameter
            cx.expect('EXPR', f'{C}::from_points:tol', fl.get('tol'), '(param tol)', 'the stored tolerance is the construction tolerance', where=s)
            # accumulator
            inits, elems = cx.pushes_through(b, fl.get('lengths'))       # built in place, or by a helper that returns it
            ok_init = inits == [('veclit', ('agg', 'array', ('0', ('const', 0.0))))]
            if not ok_init and inits and all(i_[0] == 'call' and i_[1] in ('Vec::new', 'Vec::with_capacity') for i_ in inits) and elems and elems[0][0] == 'Vec::push' and \
                    elems[0][2][0] == ('const', 0.0):
                # `let mut lengths = Vec::with_capacity(n); lengths.push(0.0);` is the literal [0.0] spelled in two statements
                ok_init = True
                elems = elems[1:]
            cx.ob('CONSTRUCT', f'{C}::from_points:lengths:init', ok_init, 'lengths starts as the literal [0.0]', where=s, found='; '.join(show(i) for i in inits))
            ok_el = len(elems) == 1 and elems[0][0] == 'Vec::push'
            m = None
            if ok_el:
                from vpa import comp as CMP
                el = CMP.canon(elems[0][2][0])        # index form: `for i in 0..n-1` with v[i], v[i+1] and `v.windows(2).enumerate()` alike
                m = match('(add $prev (call $f (index $v (add 1 $i)) (index $v $i)))', el) or match('(call f64::add $prev (call $f (index $v (add 1 $i)) (index $v $i)))', el) or \
                    match('(call f64::add (call $f (index $v (add 1 $i)) (index $v $i)) $prev)', el)
                if m is None:
                    # d + lengths.last().unwrap_or(&0.0) goes through f64::add on references
                    m = match('(call f64::add (call $f (index $v (add 1 $i)) (index $v $i)) $prev)', el)
            step_ok = False
            if m is not None:
                callee = m['f'][1]
                step_ok = callee in NONNEG
            cx.ob('CONSTRUCT', f'{C}::from_points:lengths:step', step_ok,
                  'every further element is (previous element) + dist(v[i+1], v[i])  (non-negative increment over consecutive vertices)', where=s,
                  found=elems[0][2][0] if elems else None)
            if m:
                prev_ok = match('(call Option::unwrap_or (call slice::last $L) _)', m['prev']) is not None or match('(unwrap (call slice::last $L))', m['prev']) is not None or \
                    match('(phi 0.0 (loop))', m['prev']) is not None or \
                    (match('(index $L $i)', m['prev'], {'i': m['i']}) is not None)
                cx.ob('CONSTRUCT', f'{C}::from_points:lengths:prev', prev_ok, 'the increment is added to the most recent element of lengths (last(), or lengths[i] with one push per i)',
                      where=s, found=m['prev'])
                cx.ob('EXPR', f'{C}::from_points:lengths:vertices', match('(call Polyline::vertices $line)', m['v'], {'line': line}) is not None,
                      'the edge lengths are measured on the vertices of the stored polyline', where=s, found=m['v'])
                cx.ob('EXPR', f'{C}::from_points:lengths:range', match('(itervar (range 0 (sub (len (call Polyline::vertices $line)) 1)))', m['i'], {'line': line}) is not None,
                      'one element per edge: i ranges over 0..len(vertices)-1', where=s, found=m['i'])
            if e:
                pts = e['pts']
                # de-duplication with the same tol; NotEnoughPoints under len < 2
                dd = find('(mut Vec::dedup_by . (param points) (closure * (param tol)))', pts)
                cx.ob('EXPR', f'{C}::from_points:dedup', dd is not None, 'consecutive duplicates are removed with the construction tolerance before anything else', where=s, found=pts)
        for cl in cx.facts.closures_of(b.name):
            r = cx.retval(cl)
            if find('(field cap:tol _)', r):
                cx.expect('EXPR', f'{C}::from_points:dedup-predicate', r, '(le (call *points::dist (param 2) (param 3)) (field cap:tol (param 1)))', 'points closer than tol (inclusive) are duplicates', where=cl.file)
        errs = [s for s, dd in cx.rets(b) if dd[0] == 'agg' and dd[1].endswith('Result::Err')]
        okerr = len(errs) >= 1 and all(cx.guarded(b, s.bb, '(lt (len _) 2)', True) is not None for s in errs)
        cx.ob('GUARD', f'{C}::from_points:not-enough-points', okerr, 'Err(NotEnoughPoints) exactly under fewer than 2 de-duplicated points', where=errs[0] if errs else b.file)
        for s in b.calls('Polyline::new'):
            cx.ob('GUARD', f'{C}::from_points:polyline-after-check', cx.guarded(b, s.bb, '(lt (len _) 2)', False) is not None, 'the polyline is built only with at least 2 points', where=s)
        if d == '2D':
            curve2_closedness_rules(cx, b, aggs)


def length_along_rule(cx, SP, C, S):
    """shared with C04: between_lengths, the trims and the closed splits order their end stations by length_along (the seam of a closed curve is L, not 0)"""
    # ---------------------------------------------------------------- length_along
    b = cx.fn(f'{SP}::length_along')
    if b:
        r = cx.retval(b)
        e = match('(add (index $L (self index)) (mul (self fraction) (sub (index $L (add 1 (self index))) (index $L (self index)))))', r)
        okL = e is not None and (match('(field lengths (field curve (param self)))', e['L']) is not None or match(f'(call *{C}::lengths (field curve (param self)))', e['L']) is not None)
        cx.ob('EXPR', f'{S}::length_along', okL, 'length_along = L[i] + (L[i+1] - L[i]) * fraction with i the stored index, on the owning curve', where=b.file, found=r)


def run(cx):
    for D in DIMS:
        mod, C, S, It, d = D['mod'], D['C'], D['S'], D['It'], D['d']
        CP = f'{mod}::{C}'
        SP = f'{mod}::{S}'
        # ---------------------------------------------------------------- ENC
        E.enc(cx, CP, D['fields'], constructors=[f'{CP}::from_points'])
        E.immutable_after_construction(cx, CP, D['fields'])
        E.enc(cx, SP, ('point', 'direction', 'index', 'fraction', 'curve'), constructors=[f'{SP}::new'])
        nb = cx.fn(f'{SP}::new')
        if nb:
            cx.ob('ENC', f'{S}::new:private', nb.vis.startswith('Restricted'), f'{S}::new is not callable from outside the curve module', found=nb.vis)
            callers = sorted({s.body.name for s in cx.facts.callers_of(f'{SP}::new')})
            cx.ob('ENC', f'{S}::new:callers', set(callers) <= {f'{CP}::at_vertex', f'{CP}::at_length', f'{CP}::at_closest_to_point'},
                  f'{S} is forged only by at_vertex, at_length and at_closest_to_point', found=', '.join(callers))
            cx.expect('EXPR', f'{S}::new', cx.retval(nb), '(agg * (point (param point)) (direction (param direction)) (index (param index)) (fraction (param fraction)) (curve (param curve)))',
                      f'{S}::new stores its arguments field by field', where=nb.file)
        lb = cx.fn(f'{CP}::lengths')
        if lb:
            cx.ob('ENC', f'{C}::lengths:shared', '&mut' not in lb.local_ty(0), f'{C}::lengths() hands out a shared reference only', found=lb.local_ty(0))

        from_points_rules(cx, CP, C, d)

        at_length_rules(cx, CP, C, S)

        # ---------------------------------------------------------------- at_vertex (last-vertex rule)
        b = cx.fn(f'{CP}::at_vertex')
        if b:
            cs = b.calls(f'{SP}::new')
            cx.ob('EXPR', f'{C}::at_vertex:sink', len(cs) == 1, 'at_vertex builds one station')
            for c in cs:
                last = f'(eq (param index) (sub (len (call Polyline::vertices (field line (param self)))) 1))'
                ia, fa = cx.arg_alts(c, 2), cx.arg_alts(c, 3)
                ok = len(ia) == 2 and len(fa) == 2
                for (bb, dv, g) in ia:
                    is_last = any(p and match(last, a) is not None for a, p in g)
                    not_last = any((not p) and match(last, a) is not None for a, p in g)
                    ok = ok and ((is_last and match('(sub (param index) 1)', dv) is not None) or (not_last and match('(param index)', dv) is not None))
                for (bb, dv, g) in fa:
                    is_last = any(p and match(last, a) is not None for a, p in g)
                    not_last = any((not p) and match(last, a) is not None for a, p in g)
                    ok = ok and ((is_last and dv == ('const', 1.0)) or (not_last and dv == ('const', 0.0)))
                cx.ob('GUARD', f'{C}::at_vertex:last-vertex-rule', ok, 'the last vertex is reported as (index-1, 1.0), every other vertex as (index, 0.0)', where=c,
                      found='; '.join(f'{show(dv)} under {[("" if p else "NOT ") + show(a)[:40] for a, p in g]}' for _, dv, g in ia + fa))
                pt = cx.arg(c, 0)
                cx.ob('EXPR', f'{C}::at_vertex:point', match(f'(call *{C}::vtx (param self) (param index))', pt) is not None or match('(index (call Polyline::vertices (field line (param self))) (param index))', pt) is not None,
                      'the station point is vertex[index]', where=c, found=pt)
                cx.expect('EXPR', f'{C}::at_vertex:direction', cx.arg(c, 1), f'(call *{C}::dir_of_vertex (param self) (param index))', 'the direction is dir_of_vertex(index)', where=c)
        b = cx.fn(f'{CP}::vtx')
        if b:
            cx.expect('EXPR', f'{C}::vtx', cx.retval(b), '(index (call Polyline::vertices (field line (param self))) (param i))', 'vtx(i) = vertices[i]', where=b.file)
        b = cx.fn(f'{CP}::dir_of_edge')
        if b:
            cx.expect('EXPR', f'{C}::dir_of_edge', cx.retval(b), f'(call Unit::new_normalize (call OPoint::sub (call *{C}::vtx (param self) (add 1 (param edge_index))) (call *{C}::vtx (param self) (param edge_index))))',
                      'dir_of_edge(i) = normalize(v[i+1] - v[i])', where=b.file)
        b = cx.fn(f'{CP}::length')
        if b:
            r = cx.retval(b)
            cx.ob('EXPR', f'{C}::length', match('(call Option::unwrap_or (call slice::last (self lengths)) _)', r) is not None or match('(unwrap (call slice::last (self lengths)))', r) is not None,
                  'length() is the last cumulative length', where=b.file, found=r)
        length_along_rule(cx, SP, C, S)
        # ---------------------------------------------------------------- delegation
        for fn, pat, what in ((f'{CP}::at_fraction', f'(call *{C}::at_length (param self) (mul (call *{C}::length (param self)) (param fraction)))', 'at_fraction(f) = at_length(f * length())'),
                              (f'{CP}::at_front', f'(call *{C}::at_vertex (param self) 0)', 'at_front = at_vertex(0)'),
                              (f'{CP}::at_back', f'(call *{C}::at_vertex (param self) (sub (len (call Polyline::vertices (field line (param self)))) 1))', 'at_back = at_vertex(len-1)')):
            b = cx.fn(fn)
            if b:
                cx.expect('EXPR', fn.split('::')[-2] + '::' + fn.split('::')[-1], cx.retval(b), pat, what, where=b.file)
        b = cx.fn(f'{mod}::{It}::next')
        if b:
            r = cx.retval(b)
            ok = match(f'(phi (agg *Option::None) (agg *Option::Some (0 (call *{C}::at_vertex (field curve (param self)) (field index (param self))))))', r) is not None
            st = [m for m in b.mutations() if m.root == 1 and m.path == ('index',)]
            inc = len(st) == 1 and match('(add 1 (self index))', simplify(b.dag().rvalue(st[0].data['rv'], st[0].bb, st[0].idx))) is not None
            somes = [s for s, dd in cx.rets(b) if dd[0] == 'agg' and dd[1].endswith('Option::Some')]
            g = somes and (cx.guarded(b, somes[0].bb, f'(lt (self index) (call *{C}::count (field curve (param self))))', True) is not None or
                           cx.guarded(b, somes[0].bb, '(lt (self index) (len (call Polyline::vertices (field line (field curve (param self))))))', True) is not None or
                           # the same test on unsigned integers written as an early return under `index >= count`
                           cx.guarded(b, somes[0].bb, f'(le (call *{C}::count (field curve (param self))) (self index))', False) is not None or
                           cx.guarded(b, somes[0].bb, '(le (len (call Polyline::vertices (field line (field curve (param self))))) (self index))', False) is not None)
            cx.ob('EXPR', f'{It}::next', ok and inc and bool(g), 'the iterator yields at_vertex(index) for index < count and then advances by one', where=b.file, found=r)
        b = cx.fn(f'{CP}::iter')
        if b:
            cx.expect('EXPR', f'{C}::iter', cx.retval(b), '(agg * (curve (param self)) (index 0))', 'iteration starts at vertex 0', where=b.file)

    # ---------------------------------------------------------------- dir_of_vertex (2D averages adjacent edges; 3D uses the edge)
    b = cx.fn('geom2::curve2::Curve2::dir_of_vertex')
    if b:
        lenv = '(len (call Polyline::vertices (field line (param self))))'
        rets = cx.alts(b, {'k': 'copy', 'pl': {'l': 0, 'p': []}}, b.exits()[0], len(b.blocks[b.exits()[0]]['stmts']) + 1)
        seen = set()
        ok = True
        FIRST = '(eq (param index) 0)'
        LAST = f'(eq (param index) (sub {lenv} 1))'
        CLOSED = '(field is_closed (param self))'
        seam = '(call Unit::new_normalize (call Matrix::add (call *dir_of_edge (param self) 0) (call *dir_of_edge (param self) (sub %s 2))))' % lenv
        interior = '(call Unit::new_normalize (call Matrix::add (call *dir_of_edge (param self) (sub (param index) 1)) (call *dir_of_edge (param self) (param index))))'
        for (bb, dv, g) in rets:
            if match(seam, dv):
                seen.add('seam')
                o, _ = cx.all_paths(b, bb, lambda has: has(CLOSED, True) and (has(FIRST, True) or has(LAST, True)))
            elif match(interior, dv):
                seen.add('interior')
                o, _ = cx.all_paths(b, bb, lambda has: has(FIRST, False) and has(LAST, False))
            elif match('(call *dir_of_edge (param self) 0)', dv):
                seen.add('first')
                o, _ = cx.all_paths(b, bb, lambda has: has(FIRST, True) and (has(CLOSED, False) or has(LAST, False)))
            elif match('(call *dir_of_edge (param self) (sub %s 2))' % lenv, dv):
                seen.add('last')
                o, _ = cx.all_paths(b, bb, lambda has: has(LAST, True) and has(FIRST, False))
            else:
                o = False
            ok = ok and o
        cx.ob('GUARD', 'Curve2::dir_of_vertex', ok and seen == {'seam', 'interior', 'first', 'last'},
              'seam of a closed curve: normalize(edge 0 + last edge); open ends: the single adjacent edge; interior: normalize(edge i-1 + edge i) - each under its own condition',
              where=b.file, found='; '.join(f'{show(dv)[:90]}' for _, dv, g in rets))
    b = cx.fn('geom3::curve3::Curve3::dir_of_vertex')
    if b:
        rets = cx.alts(b, {'k': 'copy', 'pl': {'l': 0, 'p': []}}, b.exits()[0], len(b.blocks[b.exits()[0]]['stmts']) + 1)
        ok = len(rets) == 2
        lenv = '(len (call Polyline::vertices (field line (param self))))'
        for (bb, dv, g) in rets:
            last_t = any(p and match(f'(eq (param index) (sub {lenv} 1))', a) is not None for a, p in g)
            last_f = any((not p) and match(f'(eq (param index) (sub {lenv} 1))', a) is not None for a, p in g)
            ok = ok and ((last_t and match('(call *dir_of_edge (param self) (sub (param index) 1))', dv) is not None) or
                         (last_f and match('(call *dir_of_edge (param self) (param index))', dv) is not None))
        cx.ob('GUARD', 'Curve3::dir_of_vertex', ok, 'the last vertex uses the last edge, every other vertex its outgoing edge', where=b.file)


def run_thorough(cx):
    """thorough tier: the generic evaluators this property relies on must fire on their positive fixture twins"""
    from rules import fixture_check as FX
    FX.enc(cx)
    from vpa import witness as W
    W.check(cx, ['C01LengthsImmutable', 'C01LengthsPrivate', 'C01Lengths3Private'])
