"""C13 Plane sections and splits of a mesh lie on the plane and on the surface - structural clauses."""
from vpa import evaluators as E
from vpa.core import show, Site, simplify, subterms
from vpa.pattern import match, find
from rules import chain_rules

EXPLANATION = """Structural obligations behind C13 (wiring around parry's plane intersection / split; incidence itself is parry's):
Mesh::section hands plane.normal and plane.d of the SAME plane to parry, builds every curve from the polyline vertices of one
chain in chain order with tol.unwrap_or(1e-6); Mesh::split maps Pair->Pair (both halves non-solid, negative/positive order kept),
Negative->Negative, Positive->Positive; chained_indices consumes every segment when it uses it (append/prepend paired with
swap_remove of the same candidate, seed popped), starts every new chain in forward mode, stops at ambiguous junctions, and each
of its cycles consumes a pair, switches direction or flushes the finished chain.
Mesh::transform moves the vertices on every path (shared with C03); Mesh::create_box hands width, height, depth to box_geom in its own order (shared with C12).
The on-plane epsilon of section is a constant <= 1e-6; every exit of split, of each kind, is parry's verdict (no short-cut classification). Round 5: Mesh::new / new_with_uv store TriMesh::new(vertices, triangles) as built (no flags set afterwards, nothing depending on is_solid). Round 6 (shared with C19): the Plane3 (normal, d) convention - a plane built from a normal and a point keeps that normal."""
NOT_DECIDED = "incidence of section vertices with the plane and the surface, closedness for watertight meshes, area conservation (all parry)"
ASSUMPTIONS = ["parry intersection_with_local_plane returns a polyline whose index pairs are the crossing segments"]

M = 'geom3::mesh::Mesh'



def curve3_dedup_rule(cx):
    """shared with C03 (a duplicate filter that is not a Euclidean distance makes the rebuilt curve depend on the frame)"""
    # the only filter between the chained crossing vertices and the returned curve is the duplicate filter of Curve3::from_points
    b = cx.fn('geom3::curve3::Curve3::from_points')
    if b:
        n = 0
        for cl in cx.facts.closures_of(b.name):
            r = cx.retval(cl)
            if find('(field cap:tol _)', r):
                n += 1
                cx.expect('EXPR', 'Curve3::from_points:dedup-predicate', r, '(le (call *points::dist (param 2) (param 3)) (field cap:tol (param 1)))',
                          'section vertices are merged only when their DISTANCE is within tol (a crossing segment longer than tol is never dropped)', where=cl.file)
        cx.ob('EXPR', 'Curve3::from_points:filters', n == 1 and len(b.calls('Vec::dedup_by')) == 1 and not b.calls('Vec::retain') and not b.calls('Vec::truncate') and not b.calls('Vec::remove'),
              'the duplicate filter is the only thing that removes section vertices', where=b.file)

def run(cx):
    # the cutting plane keeps the orientation it was given: Positive / Negative of a split follow the plane's normal (Plane3 convention rules, shared with C19 / C03)
    from rules.C19 import plane3_rules
    plane3_rules(cx)
    # the TriMesh that split / section run on is built from the vertices and faces alone: the solid flag is a query option, not a build option
    # (with ORIENTED pseudo-normals parry's split caps both halves, and the areas of the parts no longer add up to the area of the mesh)
    M = 'geom3::mesh::Mesh'
    for fn in (f'{M}::new', f'{M}::new_with_uv'):
        b = cx.fn(fn)
        if b:
            lits = b.aggregates(M)
            ok = len(lits) == 1 and match('(unwrap (call TriMesh::new (param vertices) (param triangles)))', dict(cx.aggval(lits[0])[2:]).get('shape')) is not None
            cx.ob('CONSTRUCT', f'{fn.split("::")[-1]}:plain-trimesh', ok, f'{fn.split("::")[-1]} stores TriMesh::new(vertices, triangles) as built: no flags are set on it afterwards and nothing about it depends on is_solid',
                  where=b.file, found='; '.join(show(dict(cx.aggval(l_)[2:]).get('shape'))[:200] for l_ in lits))
    # 'sectioning commutes with rigid motion of mesh and plane together' needs the plane to move as a plane (rule shared with C03)
    from rules.C03 import plane_transform_rule, mesh_transform_rule
    plane_transform_rule(cx)
    mesh_transform_rule(cx)
    from rules.C12 import create_box_rule
    create_box_rule(cx)
    b = cx.fn(f'{M}::section')
    if b:
        calls = b.calls('TriMesh::intersection_with_local_plane')
        ok = len(calls) == 1 and match('(field normal (param plane))', cx.arg(calls[0], 1)) is not None and match('(field d (param plane))', cx.arg(calls[0], 2)) is not None
        cx.ob('EXPR', 'Mesh::section:plane', ok, 'normal and offset of the same plane reach the intersection routine', where=b.file)
        eps = cx.arg(calls[0], 3) if len(calls) == 1 else None
        cx.ob('EXPR', 'Mesh::section:on-plane-epsilon', eps is not None and eps[0] == 'const' and isinstance(eps[1], float) and 0 < eps[1] <= 1e-6,
              'the thickness within which a mesh vertex counts as lying on the plane is a constant no larger than 1e-6 - not the caller\'s curve-merging tolerance - so every section vertex is on the plane to that accuracy',
              where=b.file, found=eps)
        # the collected curves as a comprehension over the chains (push loop or extend(filter_map) alike); each curve's points as a
        # comprehension over one chain
        from vpa import comp as CMP
        r = cx.retval(b)
        ev = match('(agg *Result::Ok (0 $v))', r)
        comps = [c for c in CMP.comprehensions(cx, b, ev['v']) if c.get('elem') is not None] if ev else []
        okf = okv = okp = False
        if len(comps) == 1:
            c = comps[0]
            CH = '(call *chained_indices (call Polyline::indices $pl))'
            e = match('(unwrap (call *Curve3::from_points $pts (call Option::unwrap_or (param tol) 1e-06)))', c['elem'])
            esrc = match(CH, c['src']) if c['src'] else None
            if e is not None and esrc is not None:
                inner = CMP._chain(cx.facts, match('(call Iterator::collect $ch)', e['pts'])['ch']) if match('(call Iterator::collect $ch)', e['pts']) else None
                if inner and len(inner) == 1:
                    S, el, cnd = inner[0]
                    # one chain of the SAME chained_indices list, in chain order, nothing filtered
                    okf = match(f'(index {CH} _)', S, esrc) is not None and not cnd
                    okv = match('(index (call Polyline::vertices $pl) (index $s _))', el, {'pl': esrc['pl'], 's': S}) is not None
            okp = len(c['conds']) == 1 and CMP.has_cond(c, '(is (call *Curve3::from_points _ _) Ok)', True)
        cx.ob('EXPR', 'Mesh::section:curves', okf, 'each curve is built from the vertices of ONE chain of chained_indices(pline.indices()), in chain order, with tol.unwrap_or(1e-6)', where=b.file)
        cx.ob('EXPR', 'Mesh::section:vertex-lookup', okv, 'chain entry i maps to pline.vertices()[i]', where=b.file)
        cx.ob('GUARD', 'Mesh::section:collect', okp, 'every chain that forms a valid curve is collected (the only condition is that from_points succeeds)', where=b.file)
    curve3_dedup_rule(cx)
    b = cx.fn(f'{M}::split')
    if b:
        LS = '(call TriMesh::local_split (field shape (param self)) (field normal (param plane)) (field d (param plane)) 1e-06)'
        rets = cx.rets(b)
        seen = {}
        for s, d in rets:
            if d[0] != 'agg':
                continue
            var = d[1].split('::')[-1]
            g = cx.guarded(b, s.bb, f'(is {LS} {var})', True) is not None
            if var == 'Pair':
                okp = match(f'(agg * (0 (call *new_take_trimesh (field 0 (variant Pair {LS})) false)) (1 (call *new_take_trimesh (field 1 (variant Pair {LS})) false)))', d) is not None
                seen[var] = seen.get(var, True) and g and okp
            else:
                seen[var] = seen.get(var, True) and g       # EVERY exit with this variant is parry's verdict (no short-cut classification)
        cx.ob('EXPR', 'Mesh::split:mapping', seen == {'Pair': True, 'Negative': True, 'Positive': True},
              'Pair -> Pair(first, second) as non-solid meshes in the same order; Negative -> Negative; Positive -> Positive', where=b.file, found=str(seen))
    chain_rules.run(cx)
