"""C05 Resampling, simplifying and gap filling stay on the curve and cover it all - structural clauses."""
from vpa import evaluators as E
from vpa.core import show, Site, simplify, subterms
from vpa.pattern import match, find

EXPLANATION = """Structural obligations behind C05, on Curve2 and Curve3 alike: (EXPR/units) every position handed to the arc-length API
at_length is a length: resample_by_count produces (i/(n-1)) * length() (or goes through at_fraction); resample_by_spacing starts
at the literal 0, steps by the requested spacing while below length(), and centres by (length() - last)/2; resample_at_positions
maps every position through at_length(p).point in order and rebuilds with the source tolerance (and closedness in 2D);
(RANGE) where a point count n is derived from a maximum spacing s and a length L and handed to a sampler that lays n points
over n-1 equal intervals, n - 1 >= L/s is provable (ceil(q) gives q <= ceil(q) < q+1); (EXPR) simplify rebuilds from
rdp(own vertices, tol) only and keeps closedness in 2D; Rdp::simplify marks both end points before any early return, recurses
only on (i0,max_i),(max_i,i1) under max_dist > tol, and generate_points emits kept points in index order (a subsequence);
fill_gaps pushes every original point in order, inserts only under d > max_dist with n grown while d/(n+1) > max_dist, taking
the fill from evenly_spaced_points_between whose step is (end-start)/(n+1) over i in 1..=n."""
NOT_DECIDED = "chord error, exact equality of count/spacing with the request, the Hausdorff bound of RDP, minimality of n in fill_gaps"
ASSUMPTIONS = ["q <= ceil(q) < q + 1; `as usize` of a non-negative integral float is exact"]

DIMS = [dict(mod='geom2::curve2', C='Curve2', d='2D'), dict(mod='geom3::curve3', C='Curve3', d='3D')]


def factors(d):
    if d[0] == 'mul':
        n1, d1 = factors(d[1])
        n2, d2 = factors(d[2])
        return n1 + n2, d1 + d2
    if d[0] == 'div':
        n1, d1 = factors(d[1])
        n2, d2 = factors(d[2])
        return n1 + d2, d1 + n2
    return [d], []


def count_lower_bound(n, q_pat_env):
    """lower bound (an integer k with n - q >= k provable), or None.  n: DAG of a point count; q: the ratio L/s"""
    q = q_pat_env
    # strip int casts
    if n[0] == 'cast' and n[1] == 'int':
        return count_lower_bound(n[2], q)
    if n[0] == 'call' and n[1] == 'f64::ceil':
        inner = n[2]
        lb = count_lower_bound(inner, q)
        return lb            # ceil(x) >= x
    if n[0] in ('call',) and n[1] in ('f64::floor', 'f64::trunc', 'f64::round'):
        lb = count_lower_bound(n[2], q)
        return None if lb is None else lb - 1
    if n[0] == 'add':
        k = [x for x in n[1:] if x[0] == 'const' and isinstance(x[1], (int, float)) and float(x[1]).is_integer()]
        rest = [x for x in n[1:] if x not in k]
        if len(k) == 1 and len(rest) == 1:
            lb = count_lower_bound(rest[0], q)
            return None if lb is None else lb + int(k[0][1])
    if n[0] == 'sub' and n[2][0] == 'const' and float(n[2][1]).is_integer():
        lb = count_lower_bound(n[1], q)
        return None if lb is None else lb - int(n[2][1])
    if n == q:
        return 0
    return None


def run(cx):
    for D in DIMS:
        mod, C, d = D['mod'], D['C'], D['d']
        CP = f'{mod}::{C}'
        # ---------------------------------------------------------------- resample_by_count: positions are lengths
        b = cx.fn(f'{mod}::resample_by_count')
        if b:
            r = cx.retval(b)
            e = match('(call *resample_at_positions (param curve) $pos)', r) or match('(unwrap (call *resample_at_positions (param curve) $pos))', r)
            cx.ob('EXPR', f'{C}::resample_by_count:sink', e is not None, 'resample_by_count hands its position list to resample_at_positions (which uses at_length)', where=b.file, found=r)
            if e:
                from vpa import comp as CMP
                comps = [c_ for c_ in CMP.comprehensions(cx, b, e['pos']) if c_.get('elem') is not None]      # push loop over 0..n or (0..n).map(..).collect()
                ok = len(comps) == 1 and not comps[0]['conds']
                detail = None
                if ok:
                    el = comps[0]['elem']
                    num, den = factors(el)
                    npar = b.local_name(2)
                    ivar = [f for f in num if match(f'(cast f64 (itervar (range 0 (param {npar}))))', f) is not None]
                    lens = [f for f in num if match(f'(call *{C}::length (param curve))', f) is not None]
                    dn = [f for f in den if match(f'(cast f64 (sub (param {npar}) 1))', f) is not None]
                    ok = len(ivar) == 1 and len(lens) == 1 and len(dn) == 1 and len(num) == 2 and len(den) == 1
                    detail = el
                cx.ob('EXPR', f'{C}::resample_by_count:positions-are-lengths', ok,
                      f'{C}: position i handed to at_length is (i / (n-1)) * length(): an arc length spanning [0, L] (a bare fraction is only correct for a curve of length 1)',
                      where=b.file, found=detail)
        # ---------------------------------------------------------------- resample_by_max_spacing: RANGE obligation
        b = cx.fn(f'{mod}::resample_by_max_spacing')
        if b:
            r = cx.retval(b)
            e = match('(call *resample_by_count (param curve) $n)', r)
            cx.ob('EXPR', f'{C}::resample_by_max_spacing:sink', e is not None, 'resample_by_max_spacing derives a point count and delegates to resample_by_count', where=b.file, found=r)
            if e:
                q = ('div', ('call', f'{CP}::length', ('param', 1, 'curve')), ('param', 2, b.local_name(2)))
                lb = count_lower_bound(e['n'], q)
                cx.ob('RANGE', f'{C}::resample_by_max_spacing:spacing', lb is not None and lb >= 1,
                      f'{C}: n points give n-1 equal intervals of L/(n-1); the requested maximum spacing s is honoured iff n - 1 >= L/s, i.e. n >= L/s + 1 must be provable',
                      where=b.file, found=f'n = {show(e["n"])}: provable lower bound of n - L/s is {lb}; {"L/s" if lb == 0 else ""} ceil(L/s) points give ceil(L/s)-1 intervals, each longer than s unless L/s is just above an integer')
        # ---------------------------------------------------------------- resample_by_spacing
        b = cx.fn(f'{mod}::resample_by_spacing')
        if b:
            pushes = b.calls('Vec::push')
            okp = len(pushes) == 1
            if okp:
                s = pushes[0]
                v = cx.arg(s, 1)
                lp = [x for x in subterms(v) if x[0] == 'loop']
                okp = match('(phi 0.0 (loop))', v) is not None and len(lp) == 1
                if okp:
                    car = simplify(b.dag().carried(lp[0][1], lp[0][2]))
                    okp = match(f'(add (phi 0.0 (loop)) (param {b.local_name(2)}))', car) is not None
                    g = cx.guarded(b, s.bb, f'(lt (phi 0.0 (loop)) (call *{C}::length (param curve)))', True)
                    okp = okp and g is not None
            cx.ob('EXPR', f'{C}::resample_by_spacing:positions', okp,
                  'positions start at the literal 0, advance by exactly the requested spacing, and are pushed only while below length()', where=b.file)
            # centring: every position is shifted by (length() - last)/2
            st = [m for m in b.mutations() if m.kind == 'store' and m.elem]
            okc = False
            for m in st:
                val = simplify(b.dag().rvalue(m.data['rv'], m.bb, m.idx))
                if match(f'(add _ (div (call f64::sub (call *{C}::length (param curve)) (unwrap (call slice::last _))) 2.0))', val) is not None or \
                        match(f'(add _ (div (sub (call *{C}::length (param curve)) (unwrap (call slice::last _))) 2.0))', val) is not None:
                    okc = True
            PAD = f'(div (sub (call *{C}::length (param curve)) (unwrap (call slice::last _))) 2.0)'
            for s_ in b.calls('*::for_each'):
                # the same shift written as positions.iter_mut().for_each(|p| *p += padding)
                clo = cx.arg(s_, 1)
                cl = cx.closure_body(clo[1]) if clo[0] == 'closure' else None
                if cl is None or len(clo) != 3 or match(PAD, clo[2]) is None:
                    continue
                sts = [m for m in cl.mutations() if m.kind == 'store' and m.root == 2 and not m.path]
                if len(sts) == 1:
                    v_ = simplify(cl.dag().rvalue(sts[0].data['rv'], sts[0].bb, sts[0].idx))
                    ops_ = list(v_[1:]) if v_[0] == 'add' and len(v_) == 3 else []
                    if any(o[0] == 'param' and o[1] == 2 for o in ops_) and any(o[0] == 'field' and str(o[1]).startswith('cap:') and o[2][:2] == ('param', 1) for o in ops_):
                        okc = True
            cx.ob('EXPR', f'{C}::resample_by_spacing:centred', okc, 'every position is shifted by (length() - last position)/2: equal margins at both ends', where=b.file)
            r = cx.retval(b)
            cx.ob('EXPR', f'{C}::resample_by_spacing:sink', find('(call *resample_at_positions (param curve) _)', r) is not None, 'the centred positions go to resample_at_positions', where=b.file, found=r)
        # ---------------------------------------------------------------- resample_at_positions
        b = cx.fn(f'{mod}::resample_at_positions')
        if b:
            # the rebuilt point list as a comprehension over `positions` (a push loop or a map/collect chain alike)
            from vpa import comp as CMP
            r0 = cx.retval(b)
            ep = find(f'(call *{C}::from_points $pts ...)', r0)
            comps = [c for c in CMP.comprehensions(cx, b, ep[1]['pts']) if c.get('elem') is not None] if ep else []
            POS = '(index (param positions) (itervar (range 0 (len (param positions)))))'
            okp = len(comps) == 1 and match('(param positions)', comps[0]['src']) is not None and (
                match(f'(field point (unwrap (call *{C}::at_length (param curve) {POS})))', comps[0]['elem']) is not None or
                match(f'(call *::point (unwrap (call *{C}::at_length (param curve) {POS})))', comps[0]['elem']) is not None)
            cx.ob('EXPR', f'{C}::resample_at_positions:points', okp, 'point k of the result is at_length(positions[k]).point, in order (on the source curve by construction)', where=b.file)
            # every position yields a point: nothing filters the positions, and a position off the curve fails loudly (Option::unwrap)
            # instead of being skipped silently
            oku = len(comps) == 1 and not comps[0]['conds'] and okp
            if oku and comps[0]['form'] == 'loop':
                pushes = b.calls('Vec::push')
                lps = [lp for lp in b.loops() if pushes and pushes[0].bb in lp[1]]
                oku = len(pushes) == 1 and len(lps) == 1 and all(b.dominates(pushes[0].bb, x) for x in lps[0][2])
            cx.ob('ORDER', f'{C}::resample_at_positions:every-position', oku,
                  'every requested position produces exactly one vertex (unconditional push, at_length(..).unwrap()): a position that misses the curve cannot be dropped silently', where=b.file)
            r = cx.retval(b)
            if d == '2D':
                okr = match('(call *Curve2::from_points $pts (field tol (param curve)) (field is_closed (param curve)))', r) is not None
            else:
                okr = match('(unwrap (call *Curve3::from_points $pts (call *Curve3::tol (param curve))))', r) is not None or match('(unwrap (call *Curve3::from_points $pts (field tol (param curve))))', r) is not None
            cx.ob('EXPR', f'{C}::resample_at_positions:rebuild', okr, 'the result is rebuilt from exactly those points with the source tolerance' + (' and closedness' if d == '2D' else ''), where=b.file, found=r)
        # ---------------------------------------------------------------- resample dispatch
        b = cx.fn(f'{CP}::resample')
        if b:
            want = {'ByCount': 'resample_by_count', 'BySpacing': 'resample_by_spacing', 'ByMaxSpacing': 'resample_by_max_spacing'}
            ok = True
            n = 0
            for var, fn in want.items():
                for s in b.calls(f'{mod}::{fn}'):
                    n += 1
                    ok = ok and cx.guarded(b, s.bb, f'(is (param mode) {var})', True) is not None and match(f'(unwrap (param mode))', cx.arg(s, 1)) is None
                    a1 = cx.arg(s, 1)
                    ok = ok and match(f'(field 0 (variant {var} (param mode)))', a1) is not None
            cx.ob('EXPR', f'{C}::resample:dispatch', ok and n == 3, 'each Resample variant reaches its own sampler with its own payload', where=b.file)
        # ---------------------------------------------------------------- simplify
        b = cx.fn(f'{CP}::simplify')
        if b:
            r = cx.retval(b)
            if d == '2D':
                ok = match('(unwrap (call *Curve2::from_points (call *ramer_douglas_peucker (call Polyline::vertices (field line (param self))) (param tol)) (self tol) (self is_closed)))', r) is not None
                what = 'simplify = from_points(rdp(own vertices, tol), self.tol, self.is_closed): a subsequence of the own vertices, closedness kept'
            else:
                ok = match('(unwrap (call *Curve3::from_points (call *ramer_douglas_peucker (call Polyline::vertices (field line (param self))) (param tol)) _))', r) is not None
                what = 'simplify = from_points(rdp(own vertices, tol), ..): a subsequence of the own vertices'
            cx.ob('EXPR', f'{C}::simplify', ok, what, where=b.file, found=r)

    # ---------------------------------------------------------------- Series1::resampled_x (same RANGE obligation)
    b = cx.fn('func1::series1::Series1::resampled_x')
    if b:
        r = cx.retval(b)
        e = match('(call *Series1::resampled_n (param self) $n)', r)
        if cx.ob('EXPR', 'Series1::resampled_x:sink', e is not None, 'resampled_x derives a count and delegates to resampled_n', where=b.file, found=r):
            q = ('div', ('sub', ('call', 'func1::series1::Series1::x_max', ('param', 1, 'self')), ('call', 'func1::series1::Series1::x_min', ('param', 1, 'self'))), ('param', 2, b.local_name(2)))
            lb = count_lower_bound(e['n'], q)
            cx.ob('RANGE', 'Series1::resampled_x:spacing', lb is not None and lb >= 1, 'n - 1 >= (x_max - x_min)/spacing is provable for the count handed to resampled_n', where=b.file, found=f'lower bound {lb}')
    b = cx.fn('func1::series1::Series1::resampled_n')
    if b:
        # contract used above: n points over n-1 equal steps, clamped to x_max (one comprehension over 0..n, whatever is hoisted out of the closure)
        XMIN, XMAX = '(call *x_min (param self))', '(call *x_max (param self))'
        STEP = f'(div (sub {XMAX} {XMIN}) (sub (cast f64 (param n)) 1.0))'
        tf = b.calls('*DiscreteDomain::try_from')
        if len(tf) == 1:
            cx.expect_comp('EXPR', 'Series1::resampled_n:contract', b, cx.arg(tf[0], 0), '(range 0 (param n))', f'(call f64::min (add {XMIN} (mul (cast f64 (itervar (range 0 (param n)))) {STEP})) {XMAX})',
                           'resampled_n lays n abscissae x_min + i*(x_max-x_min)/(n-1) (clamped to x_max): n-1 equal steps')
        else:
            cx.ob('EXPR', 'Series1::resampled_n:contract', False, 'the abscissae are validated once', where=b.file, found=f'{len(tf)} try_from calls')

    # ---------------------------------------------------------------- Rdp
    b = cx.fn('common::points::Rdp::simplify')
    if b:
        st = [m for m in b.mutations() if m.root == 1 and m.path and m.path[0] == 'keep' and m.kind == 'store']
        idx = set()
        for m in st:
            tgt = simplify(b.dag().place(m.data['pl'], m.bb, m.idx))
            e = match('(index (field keep (param self)) (param $p))', tgt) or match('(index _ (param $p))', tgt)
            val = simplify(b.dag().rvalue(m.data['rv'], m.bb, m.idx))
            if val == ('const', True):
                for t in subterms(tgt):
                    if t[0] == 'param' and t[2] in ('i0', 'i1'):
                        idx.add((t[2], m.bb))
        rets_early = [bi for bi in b.live if b.blocks[bi]['term']['k'] == 'return']
        both = {n for n, _ in idx} == {'i0', 'i1'}
        dom_ok = both and all(all(b.dominates(bb, e) for e in b.exits()) for _, bb in idx)
        cx.ob('ORDER', 'Rdp::simplify:endpoints-kept', dom_ok, 'keep[i0] and keep[i1] are set on every path through simplify (before the early return): end points are always kept', where=b.file,
              found=str(sorted(idx)))
        rec = b.calls('common::points::Rdp::simplify')
        okr = len(rec) == 2
        spans = set()
        for s in rec:
            a, c = cx.arg(s, 1), cx.arg(s, 2)
            g = cx.guarded(b, s.bb, '(lt (self tol) _)', True)
            okr = okr and g is not None
            spans.add((show(a)[:30], show(c)[:30]))
            okr = okr and ((match('(param i0)', a) is not None and c[0] != 'param') or (match('(param i1)', c) is not None and a[0] != 'param'))
        cx.ob('GUARD', 'Rdp::simplify:recursion', okr, 'recursion happens only under max_dist > tol, on (i0, max_i) and (max_i, i1)', where=b.file, found=str(sorted(spans)))
        # the farthest-point search ranges over the open interval and measures against the chord through the kept ends
        # the chord line is built either in an `if` or in the closure of `(cond).then(|| ..)`: in both cases one construction with its condition
        from vpa import inline as IN, guards as GG
        CHORD = '(call OPoint::sub (index (self points) (param i1)) (index (self points) (param i0)))'
        cands = []      # (value DAG, literals that hold where it is built)
        for s_ in b.calls('*SurfacePoint::new_normalize'):
            cands.append((cx.call(s_), list(cx.guards(b, s_.bb))))
        for s_ in b.calls('bool::then'):
            d_ = cx.call(s_)
            if len(d_) == 4 and d_[3][0] == 'closure':
                v_ = IN.closure_apply(cx.facts, d_[3], ())
                if v_ is not None and match('(call *SurfacePoint::new_normalize _ _)', v_) is not None:
                    cands.append((v_, list(cx.guards(b, s_.bb)) + GG.norm_literal(d_[2], True)))
        oksp = len(cands) == 1 and match(f'(call *SurfacePoint::new_normalize (index (self points) (param i0)) {CHORD})', cands[0][0]) is not None
        cx.ob('EXPR', 'Rdp::simplify:chord', oksp, 'deviations are measured from the line through points[i0] and points[i1]', where=b.file)
        # a closed curve hands coincident end points to the first pass: the chord direction may be normalised only when the
        # chord is non-degenerate (otherwise every deviation is NaN, nothing is kept and the rebuilt curve has one vertex)
        def _g(pat):
            return any(p and match(pat, a) is not None for a, p in cands[0][1])
        okg = len(cands) == 1 and (_g(f'(lt 0.0 (call Matrix::norm {CHORD}))') or
                                   _g('(lt _ (call *points::dist (index (self points) (param i0)) (index (self points) (param i1))))') or
                                   _g(f'(lt _ (call Matrix::norm {CHORD}))'))
        cx.ob('GUARD', 'Rdp::simplify:degenerate-chord', okg,
              'the chord through the two kept end points is normalised only when it has non-zero length (closed curves start with coincident end points); otherwise another measure is used',
              where=b.file, found='; '.join(('' if p else 'NOT ') + show(a) for a, p in cands[0][1])[:300] if cands else None)
        # the quantity compared with the tolerance is a plain distance (same units as tol): |projection(p_i) - p_i|
        devs = [cx.call(c) for c in b.calls('Matrix::norm|Matrix::magnitude|Matrix::norm_squared|*points::dist')]
        devs = [d for d in devs if find('(itervar _)', d) is not None]      # the per-vertex measures (the chord-length test is not one)
        okd = 1 <= len(devs) <= 2 and all(
            match('(call Matrix::norm (call OPoint::sub (call *SurfacePoint::projection _ (index (self points) $i)) (index (self points) $i)))', d) is not None or
            match('(call Matrix::norm (call OPoint::sub (index (self points) $i) (index (self points) (param i0))))', d) is not None for d in devs)
        cmpok = False
        for s in rec:
            for a, p in cx.guards(b, s.bb):
                if p and a[0] == 'lt' and match('(self tol)', a[1]) is not None:
                    car = a[2]
                    lp = [x for x in subterms(car) if x[0] == 'loop']
                    vals = [simplify(b.dag().carried(x[1], x[2])) for x in lp]
                    cmpok = bool(vals) and all(find('(call Matrix::norm _)', v) is not None and find('(call Matrix::norm_squared _)', v) is None for v in vals)
        cx.ob('EXPR', 'Rdp::simplify:deviation-is-a-distance', okd and cmpok,
              'the deviation compared with tol is the distance |projection(p_i) - p_i| itself (not its square or another monotone function): "within e" is meant in length units', where=b.file,
              found='; '.join(show(d)[:160] for d in devs))
    b = cx.fn('common::points::Rdp::generate_points')
    if b:
        from vpa import comp as CMP
        comps = [c for c in CMP.comprehensions(cx, b, cx.retval(b)) if c.get('elem') is not None]
        ok = len(comps) == 1
        if ok:
            c = comps[0]
            I = '(itervar (range 0 (len (self points))))'
            ok = match('(self points)', c['src']) is not None and match(f'(index (self points) {I})', c['elem']) is not None and \
                CMP.has_cond(c, f'(index (self keep) {I})', True) and len(c['conds']) == 1
        cx.ob('EXPR', 'Rdp::generate_points:subsequence', ok, 'the output is points[i] for ascending i filtered by keep[i]: a subsequence of the input', where=b.file)
    b = cx.fn('common::points::ramer_douglas_peucker')
    if b:
        s = b.calls('common::points::Rdp::simplify')
        ok = len(s) == 1 and cx.arg(s[0], 1) == ('const', 0) and match('(sub (len (param points)) 1)', cx.arg(s[0], 2)) is not None
        cx.ob('EXPR', 'ramer_douglas_peucker:span', ok, 'simplification starts on the whole range (0, len-1)', where=b.file)

    # ---------------------------------------------------------------- fill_gaps
    b = cx.fn('common::points::fill_gaps')
    if b:
        pushes = b.calls('Vec::push')
        # the current original point: the items of original.iter().skip(1) or of &original[1..]; the fillers: pushed one by one or appended with extend
        W = '(itervar (call slice::windows (param original) 2))'
        PCUR = f'(or (or (itervar (call Iterator::skip (param original) 1)) (itervar (index (param original) (agg *RangeFrom (start 1))))) (index {W} 1))'
        # the previous point: the last one pushed so far, or - the same point - the first element of the window over the originals
        PREV = f'(or (unwrap (call slice::last _)) (index {W} 0))'
        orig = [s for s in pushes if match(PCUR, cx.arg(s, 1)) is not None]
        fill = [s for s in pushes if find('(call *evenly_spaced_points_between _ _ _)', cx.arg(s, 1)) is not None] + \
            [s for s in b.calls('Vec::extend') if match('(call *evenly_spaced_points_between _ _ _)', cx.arg(s, 1)) is not None]
        pd = b.postdominators()
        ok_orig = len(orig) == 1
        if ok_orig:
            # the original point is pushed on every iteration: its block post-dominates the loop body entry
            loops = [lp for lp in b.loops() if orig[0].bb in lp[1]]
            outer = max(loops, key=lambda lp: len(lp[1])) if loops else None
            ok_orig = outer is not None and all(b.dominates(orig[0].bb, s) for s in outer[2])
        r = cx.retval(b)
        ok_first = find('(veclit (agg array (0 (index (param original) 0))))', r) is not None
        cx.ob('ORDER', 'fill_gaps:originals-kept', ok_orig and ok_first, 'the first point starts the result and every further original point is pushed on every iteration, in order', where=b.file)
        ok_fill = len(fill) == 1
        if ok_fill:
            s = fill[0]
            g1 = cx.guarded(b, s.bb, f'(lt (param max_dist) (call *points::dist {PCUR} {PREV}))', True)
            # n was grown until d/(n+1) <= max_dist
            g2 = cx.guarded(b, s.bb, f'(lt (param max_dist) (div (call *points::dist {PCUR} {PREV}) (cast f64 (add 1 $n))))', False)
            e = find(f'(call *evenly_spaced_points_between {PREV} {PCUR} $n)', cx.arg(s, 1))
            ok_fill = g1 is not None and g2 is not None and e is not None and e[1]['n'] == g2['n']
            # the inserted points come before the original point of the same iteration
            ok_fill = ok_fill and orig and b.dominates(s.bb, orig[0].bb) is False and orig[0].bb in b.reach_from([s.bb])
        cx.ob('GUARD', 'fill_gaps:insertion', ok_fill,
              'points are inserted only under d > max_dist, between the previous result point and the current original, with the n for which d/(n+1) > max_dist no longer holds',
              where=b.file)
    b = cx.fn('common::points::evenly_spaced_points_between')
    if b:
        pushes = b.calls('Vec::push')
        ok = len(pushes) == 1
        if ok:
            v = cx.arg(pushes[0], 1)
            e = match('(call OPoint::add (param start) (call Matrix::mul (call Matrix::div (call OPoint::sub (param end) (param start)) (cast f64 (add 1 (param num_points)))) (cast f64 $i)))', v)
            ok = e is not None and match('(itervar (range 1 (add 1 (param num_points))))', e['i']) is not None
        cx.ob('EXPR', 'evenly_spaced_points_between', ok, 'inserted point i = start + i*(end-start)/(n+1) for i in 1..=n: end points excluded, spacing d/(n+1)', where=b.file)
