"""Rules for common::indices::chained_indices / chain_candidates shared by C12 (exactly-once, maximal chains) and C13."""
from vpa.core import show, Site, simplify, subterms
from vpa.pattern import match, find
from vpa import guards as G

CI = 'common::indices::chained_indices'
CC = 'common::indices::chain_candidates'


def run(cx):
    b = cx.fn(CI)
    if b:
        loops = b.loops()
        cx.ob('TERM', 'chained_indices:loops', len(loops) == 1, 'chained_indices has one loop (while pairs is not empty)', found=str(len(loops)))
        dag = b.dag()
        # loop state found by role, not by name: the list pairs are consumed from (swap_remove / pop), the chain being grown at both ends
        # (the only vector with an insert), and the boolean direction flag assigned both constants inside the loop
        lb = loops[0][1] if loops else ()
        allm = [m for m in b.mutations() if m.bb in lb]
        pairs = sorted({m.root for m in allm if m.callee == 'Vec::swap_remove'})
        working = sorted({m.root for m in allm if m.callee == 'Vec::insert'})
        fwd = []
        for l, ds in b.defs().items():
            if b.local_ty(l) == 'bool' and b.local_name(l):
                vs = {simplify(dag.defdag(l, d)) for d in ds if d[0] in lb and d[2] == 'assign' and not d[3]['pl']['p']}
                if ('const', True) in vs and ('const', False) in vs:
                    fwd.append(l)
        ok_names = bool(pairs and working and fwd)
        cx.ob('ANCHOR', 'chained_indices:state', ok_names, 'loop state pairs / working / forward present')
        if ok_names and loops:
            h, blocks, backs = loops[0]
            P, W, Fw = pairs[0], working[0], fwd[0]
            muts = [m for m in b.mutations() if m.bb in blocks]
            # ---- consume-on-use: every vertex appended/prepended from candidate (k, i) is paired with swap_remove(k) of that k
            grows = [m for m in muts if m.root == W and m.callee in ('Vec::push', 'Vec::insert')]
            removes = [m for m in muts if m.root == P and m.callee == 'Vec::swap_remove']
            pops = [m for m in muts if m.root == P and m.callee == 'Vec::pop']
            reg = b.regions()
            n_pairs = 0
            okc = True
            for g in grows:
                site = Site(b, g.bb, len(b.blocks[g.bb]['stmts']), 'call', g.data)
                val = cx.arg(site, 2 if g.callee == 'Vec::insert' else 1)
                cand = find('(call *chain_candidates ...)', val)
                if cand is None:
                    # seed pair: both ends of indices[pop()]
                    okc = okc and match('(index (index (param indices) (unwrap (call Vec::pop _))) _)', val) is not None
                    continue
                n_pairs += 1
                e = match('(index (index (param indices) (field 1 (unwrap $c))) $end)', val)
                partner = [r for r in removes if b.dominates(g.bb, r.bb) and not any(x for x in b.succ[g.bb] if False)]
                rs = None
                for r in removes:
                    rsite = Site(b, r.bb, len(b.blocks[r.bb]['stmts']), 'call', r.data)
                    if e and match('(field 0 (unwrap $c))', cx.arg(rsite, 1), {'c': e['c']}) is not None and reg.get(r.bb) == reg.get(g.bb):
                        rs = rsite
                okc = okc and e is not None and rs is not None
                if e is not None:
                    c = e['c']
                    fwd_flag = c[-1] if c[0] == 'call' else None
                    # forward extension appends the candidate's END vertex ([1]); backward prepends its START vertex ([0]) at index 0
                    if g.callee == 'Vec::push':
                        okc = okc and e['end'] == ('const', 1) and fwd_flag == ('const', True) and match('(unwrap (call slice::last _))', c[4]) is not None
                    else:
                        okc = okc and e['end'] == ('const', 0) and fwd_flag == ('const', False) and match('(unwrap (call slice::first _))', c[4]) is not None \
                            and cx.arg(site, 1) == ('const', 0)
            cx.ob('COMUT', 'chained_indices:consume-on-use', okc and n_pairs == 2 and len(removes) == 2,
                  'forward: push indices[i][1] of the unique candidate matching the LAST vertex and swap_remove(k) of the same candidate; backward: insert(0, indices[i][0]) of the '
                  'unique candidate matching the FIRST vertex and swap_remove(k); the seed pair is popped when used - each crossing segment is used at most once',
                  where=b.file, found=f'{n_pairs} candidate extensions, {len(removes)} swap_remove, {len(pops)} pop')
            # ---- a new chain starts in forward mode: the seed region sets forward = true
            seed_ok = False
            for p in pops:
                for d in b.defs().get(Fw, []):
                    if d[0] in blocks and simplify(dag.defdag(Fw, d)) == ('const', True) and (b.dominates(p.bb, d[0])) and \
                            cx.guarded(b, d[0], '(call Vec::is_empty _)', True) is not None:
                        seed_ok = True
            cx.ob('COMUT', 'chained_indices:new-chain-forward', seed_ok,
                  'starting a new chain (working empty) pops the seed pair AND resets the direction to forward, so every chain is grown in both directions', where=b.file)
            # ---- phase table for termination: classify every back-edge path
            dom = b.dominators()
            kinds = set()
            stack = [(h, frozenset(), ())]
            npaths = 0
            okt = True
            while stack:
                x, ev, lits = stack.pop()
                evs = set(ev)
                for m in muts:
                    if m.bb == x:
                        if m.root == P and m.callee in ('Vec::pop', 'Vec::swap_remove'):
                            evs.add('shrink')
                        if m.root == W and m.callee == 'Vec::clear':
                            evs.add('flush')
                for d in b.defs().get(Fw, []):
                    if d[0] == x and d[2] == 'assign' and simplify(dag.defdag(Fw, d)) == ('const', False):
                        evs.add('to-backward')
                if x in backs:
                    npaths += 1
                    k = 'shrink' if 'shrink' in evs else 'flush' if 'flush' in evs else 'to-backward' if 'to-backward' in evs else 'idle'
                    kinds.add(k)
                    continue
                for s2 in b.succ[x]:
                    if s2 in blocks and s2 != h and s2 not in dom.get(x, ()):
                        stack.append((s2, frozenset(evs), lits))
                if npaths > 5000:
                    okt = False
                    break
            cx.ob('TERM', 'chained_indices:phases', okt and kinds <= {'shrink', 'flush', 'to-backward'} and 'shrink' in kinds,
                  'every cycle either consumes a pair (pop / swap_remove), or switches forward->backward, or flushes the finished chain; the two non-consuming '
                  'cycles each falsify their own guard (forward flag, non-empty working), so at most two of them occur in a row',
                  where=b.file, found=str(sorted(kinds)))
            # the to-backward and flush transitions are guarded by the flag they change
            for d in b.defs().get(Fw, []):
                if d[0] in blocks and d[2] == 'assign' and simplify(dag.defdag(Fw, d)) == ('const', False):
                    g = any(p for a, p in cx.guards(b, d[0]) if (a[0] == 'phi' or a[0] == 'loop') and p)
                    cx.ob('GUARD', 'chained_indices:to-backward-guard', g, 'forward is cleared only while it is set', where=b.file)
            for m in muts:
                if m.root == W and m.callee == 'Vec::clear':
                    cx.ob('GUARD', 'chained_indices:flush-guard', any((not p) for a, p in cx.guards(b, m.bb) if (a[0] == 'phi' or a[0] == 'loop')) and
                          any(mm.root != W and mm.callee == 'Vec::push' and b.regions().get(mm.bb) == b.regions().get(m.bb) for mm in muts),
                          'the working chain is cleared only in backward mode, right after it was pushed to the result', where=b.file)
        # remaining chain is pushed at the end
        r = cx.retval(b)
        cx.ob('EXPR', 'chained_indices:final-chain', find('(mut Vec::push . _ _)', r) is not None, 'a chain still in progress when the pairs run out is added to the result', where=b.file)
    b = cx.fn(CC)
    if b:
        somes = [(s, d) for s, d in cx.rets(b) if d[0] == 'agg' and d[1].endswith('Option::Some')]
        ok = len(somes) == 1
        if ok:
            s, d = somes[0]
            ok = cx.guarded(b, s.bb, '(eq 1 (len _))', True) is not None and match('(agg * (0 (index _ 0)))', d) is not None
        cx.ob('GUARD', 'chain_candidates:unique', ok, 'a candidate is returned only when exactly one remaining pair matches (ambiguous junctions stop the chain)', where=b.file)
        # the candidate list as a comprehension (loop with push or iterator chain alike)
        from vpa import comp as CP
        okp = False
        if len(somes) == 1:
            ev = match('(agg * (0 (index $vec 0)))', somes[0][1])
            comps = [c for c in CP.comprehensions(cx, b, ev['vec']) if c.get('elem') is not None] if ev else []
            if len(comps) == 1:
                c = comps[0]
                PAIR = '(index (param pairs) (itervar (range 0 (len (param pairs)))))'
                okp = match('(param pairs)', c['src']) is not None and match(f'(agg tuple (0 (itervar (range 0 (len (param pairs))))) (1 {PAIR}))', c['elem']) is not None
                cj = [match(f'(eq (index (index (param indices) {PAIR}) $j) (param last))', a) for a, p in c['conds'] if p]
                cj = [x for x in cj if x is not None]
                okp = okp and len(cj) == 1 and cj[0]['j'] in (('phi', ('const', 0), ('const', 1)), ('phi', ('const', 1), ('const', 0)))
                # the column is 0 going forward and 1 going backward: the only local with two constant definitions 0 / 1 is set under `forward`
                dag = b.dag()
                cols = []
                for l, ds in b.defs().items():
                    vals = []
                    for (bb, pos, kind, pay) in ds:
                        if kind != 'assign' or pay['pl']['p']:
                            vals = None
                            break
                        v = simplify(dag.rvalue(pay['rv'], bb, pos))
                        ft = any(p and show(a) == '(param forward)' for a, p in cx.guards(b, bb))
                        ff = any((not p) and show(a) == '(param forward)' for a, p in cx.guards(b, bb))
                        vals.append((v, ft, ff))
                    if vals and len(vals) == 2 and {v for v, _, _ in vals} == {('const', 0), ('const', 1)}:
                        cols.append(all((v == ('const', 0) and ft) or (v == ('const', 1) and ff) for v, ft, ff in vals))
                okp = okp and cols == [True]
        cx.ob('EXPR', 'chain_candidates:match-end', okp,
              'candidate (k, i) is recorded when indices[i][j] == last with j = 0 (pair starts at the vertex) going forward and j = 1 (pair ends at it) going backward; k is the position in pairs, i the pair id',
              where=b.file)
