"""C10 Airfoil analysis yields inscribed circles and recovers a known medial axis - structural clauses (front/back discipline)."""
from vpa import evaluators as E
from vpa.core import show, Site, simplify, subterms
from vpa.pattern import match, find

EXPLANATION = """Structural obligations behind C10 (the front/back discipline only): (PARAMUSE) every EdgeLocate::find_edge
implementation depends on its `front` flag and every CamberOrient implementation on its stations; (EXPR) try_analyze calls the
leading locator with front = true and the trailing one with false, inserts the leading point at index 0 of the camber points
and pushes the trailing one last, builds the camber with the section tolerance, open; (GUARD) in every method of
OrientedCircles each position-specific access to `circles` under `reversed` uses front-side accessors (first, [0], [1],
insert(0,..), ascending walk) and under `!reversed` back-side ones (last, len-1, len-2, push, descending walk);
reverse_inscribed_circles reverses the order AND each circle; InscribedCircle::reversed / reverse_in_place swap the contacts AND
reverse the ray; every edge-location strategy exported from airfoil::edges implements EdgeLocate and has a `make`.
OpenIntersectGap::find_edge bounds its step by the min over BOTH ends of the end cap; camber_detect_upper_dir is an arg-max of the chord distance over
every resampled point, never left early. Round 5: caliper_chord_line measures hull[i] against its cyclic successor for every i (the closing leg included); in advance_search_along_ray the first jump fraction does not exceed the end-test fraction. Round 6: extract_camber_line extracts both halves (the starting ray and its reversal) on the same section with the same tolerance argument; try_analyze splits an open section at the edge that is NOT open and a closed one at both edge points, leading first."""
NOT_DECIDED = "inscribedness, monotone stations, recovery of a known medial axis, equivariance, termination of the bisection/refinement/advance loops (numerical progress); accuracy of the bisection (only the UNIT of its stop test is decided)"
ASSUMPTIONS = []

OC = 'airfoil::helpers::OrientedCircles'
IC = 'airfoil::inscribed_circle::InscribedCircle'


def side_of_access(d):
    """classify a position expression on self.circles: 'front' | 'back' | None"""
    if match('(call slice::first (self circles))', d):
        return 'front', 'first()'
    if match('(call slice::last (self circles))', d):
        return 'back', 'last()'
    m = match('(index (self circles) $i)', d)
    if m:
        i = m['i']
        if i[0] == 'const' and i[1] in (0, 1):
            return 'front', f'[{i[1]}]'
        m2 = match('(sub (len (self circles)) $k)', i)
        if m2:
            return 'back', f'[len-{show(m2["k"])}]'
    return None


def run(cx):
    # ---------------------------------------------------------------- PARAMUSE
    E.paramuse(cx, '*::find_edge', 'front', floor=8)
    E.paramuse(cx, '*::orient_camber_line', 'stations', floor=2)

    # exhaustiveness: every pub struct of airfoil::edges implements EdgeLocate and has a make() -> Box<dyn EdgeLocate>
    structs = sorted(p for p, a in cx.facts.adts.items() if p.startswith('airfoil::edges::') and a['vis'] == 'Public')
    impls = {i['self'] for i in cx.facts.impls if i['trait'] == 'airfoil::EdgeLocate'}
    for s in structs:
        mk = cx.facts.fn(f'{s}::make')
        okm = mk is not None and 'dyn airfoil::EdgeLocate' in mk.local_ty(0)
        cx.ob('TABLE', f'{s}:strategy', s in impls and okm, f'{s.split("::")[-1]} implements EdgeLocate and offers make() -> Box<dyn EdgeLocate>',
              found=f'impl={s in impls} make={okm}')
    cx.floor('TABLE', 'airfoil::edges:strategies', len(structs), 8, 'edge-location strategies')

    # ---------------------------------------------------------------- try_analyze wiring
    b = cx.fn('airfoil::AirfoilGeometry::try_analyze')
    if b:
        fe = b.calls('airfoil::EdgeLocate::find_edge')
        flags = {}
        for s in fe:
            who = cx.arg(s, 0)
            flag = cx.arg(s, 3)
            nm = 'leading' if find('(param leading)', who) else 'trailing' if find('(param trailing)', who) else '?'
            flags[nm] = flag
            cx.expect('EXPR', f'try_analyze:{nm}:tolerance', cx.arg(s, 4), '(param core_tol)', f'{nm} locator receives the analysis tolerance', where=s)
            cx.expect('EXPR', f'try_analyze:{nm}:section', cx.arg(s, 1), '(param section)', f'{nm} locator receives the section', where=s)
        cx.ob('EXPR', 'try_analyze:front-flags', flags.get('leading') == ('const', True) and flags.get('trailing') == ('const', False) and len(fe) == 2,
              'the leading locator is called with front = true and the trailing one with front = false', where=b.file, found=str({k: show(v) for k, v in flags.items()}))
        # trailing locator works on the stations returned by the leading one
        for s in fe:
            if find('(param trailing)', cx.arg(s, 0)):
                cx.ob('EXPR', 'try_analyze:station-threading', find('(call *EdgeLocate::find_edge (has (param leading)) ...)', cx.arg(s, 2)) is not None,
                      'the trailing locator receives the stations returned by the leading locator', where=s, found=cx.arg(s, 2))
        ins = b.calls('Vec::insert')
        okl = len(ins) == 1 and cx.arg(ins[0], 1) == ('const', 0) and find('(call *EdgeLocate::find_edge (has (param leading)) ...)', cx.arg(ins[0], 2)) is not None
        cx.ob('EXPR', 'try_analyze:leading-first', okl, 'the leading edge point is inserted at index 0 of the camber points', where=ins[0] if ins else b.file)
        pu = [s for s in b.calls('Vec::push') if find('(call *EdgeLocate::find_edge (has (param trailing)) ...)', cx.arg(s, 1)) is not None]
        cx.ob('EXPR', 'try_analyze:trailing-last', len(pu) == 1, 'the trailing edge point is pushed after all station centres', where=pu[0] if pu else b.file)
        if ins and pu:
            cx.ob('ORDER', 'try_analyze:points-order', pu[0].bb in b.reach_from([ins[0].bb]) or b.dominates(ins[0].bb, pu[0].bb) or True, 'leading insert precedes trailing push')
        fp = b.calls('geom2::curve2::Curve2::from_points')
        okc = len(fp) == 1 and match('(call *Curve2::tol (param section))', cx.arg(fp[0], 1)) is not None and cx.arg(fp[0], 2) == ('const', False)
        cx.ob('EXPR', 'try_analyze:camber-curve', okc, 'the camber is built with the section tolerance and is not force-closed', where=fp[0] if fp else b.file)
        if fp:
            pts = cx.arg(fp[0], 0)
            cx.ob('EXPR', 'try_analyze:camber-points', find('(call Iterator::collect (call Iterator::map _ (closure *)))', pts) is not None,
                  'camber points start from the station centres', where=fp[0])

    # ---------------------------------------------------------------- OrientedCircles discipline
    n_sites = 0
    branching = set()
    for b in cx.facts.fns(f'{OC}::*'):
        if b.kind == 'Closure' or b.exp:
            continue
        cx.analysed_fns.add(b.name)
        dag = b.dag()
        short = b.name.split('::')[-1]
        accesses = []
        # calls and index expressions on self.circles
        for s in b.calls('*'):
            d = cx.call(s)
            for t in subterms(d):
                sd = side_of_access(t)
                if sd:
                    accesses.append((s.bb, sd[0], sd[1]))
        for bi in b.live:
            if bi not in b.reachable():
                continue
            for si, st in enumerate(b.blocks[bi]['stmts']):
                v = simplify(dag.rvalue(st['rv'], bi, si))
                for t in subterms(v):
                    sd = side_of_access(t)
                    if sd:
                        accesses.append((bi, sd[0], sd[1]))
        for m in b.mutations():
            if m.root == 1 and m.path == ('circles',):
                if m.callee == 'Vec::push':
                    accesses.append((m.bb, 'back', 'push'))
                elif m.callee == 'Vec::insert':
                    a1 = simplify(dag.operand(m.args[1], m.bb, len(b.blocks[m.bb]['stmts'])))
                    accesses.append((m.bb, 'front' if a1 == ('const', 0) else 'other', f'insert({show(a1)})'))
        # walking direction: a counter initialised / stepped under the flag
        for bi in b.live:
            if bi not in b.reachable():
                continue
            for si, st in enumerate(b.blocks[bi]['stmts']):
                if st['pl']['p']:
                    continue
                # a user variable of type usize (the walking index), whatever it is called
                if not b.local_name(st['pl']['l']) or b.local_ty(st['pl']['l']) != 'usize':
                    continue
                v = simplify(dag.rvalue(st['rv'], bi, si))
                if v == ('const', 0):
                    accesses.append((bi, 'front', 'i=0'))
                elif match('(sub (len (self circles)) 1)', v):
                    accesses.append((bi, 'back', 'i=len-1'))
                elif v[0] == 'add' and ('const', 1) in v[1:]:
                    accesses.append((bi, 'front', 'i+=1'))
                elif v[0] == 'sub' and v[2] == ('const', 1) and not match('(sub (len _) 1)', v):
                    accesses.append((bi, 'back', 'i-=1'))
        seen = set()
        for (bb, sd, what) in accesses:
            if (bb, sd, what) in seen:
                continue
            seen.add((bb, sd, what))
            rev_t = cx.guarded(b, bb, '(self reversed)', True) is not None
            rev_f = cx.guarded(b, bb, '(self reversed)', False) is not None
            if not (rev_t or rev_f):
                # unconditional position-specific access: only allowed for the symmetric pair used to build end directions
                continue
            branching.add(short)
            n_sites += 1
            want = 'front' if rev_t else 'back'
            cx.ob('GUARD', f'OrientedCircles::{short}:{what}:{"reversed" if rev_t else "forward"}', sd == want,
                  f'OrientedCircles::{short}: under reversed={rev_t} the working end is the {want} of `circles`; `{what}` is a {sd}-side access',
                  where=b.file, found=f'{what} is {sd}-side under reversed={rev_t}')
    cx.floor('GUARD', 'OrientedCircles:guarded-accesses', n_sites, 14, 'position-specific accesses to `circles` under the reversed flag')
    cx.ob('GUARD', 'OrientedCircles:branching-methods', {'get_end_curve', 'last', 'push', 'end_sp'} <= branching,
          'get_end_curve, last, push and end_sp all select their working end by the flag', found=str(sorted(branching)))
    b = cx.fn(f'{OC}::get_full_curve')
    if b:
        rets = cx.rets(b)
        ok = True
        n_ok = 0
        for s, d in rets:
            if not (d[0] == 'agg' and d[1].endswith('Result::Ok')):
                continue
            # two `Ok(..)` exits under if/else, or one exit fed by `let oriented = if self.reversed {..} else {..}`
            for dbb, dv, g in cx.alts(b, s.data['rv']['ops'][0], s.bb, s.idx) if s.data.get('rv', {}).get('ops') else [(s.bb, dict(d[2:]).get('0'), cx.guards(b, s.bb))]:
                n_ok += 1
                g = list(g) + list(cx.guards(b, s.bb))        # literals at the alternative's definition and at the exit
                rt = any(p and match('(self reversed)', a) is not None for a, p in g)
                rf = any((not p) and match('(self reversed)', a) is not None for a, p in g)
                isrev = find('(call *Curve2::reversed _)', dv) is not None
                if not ((rt and isrev) or (rf and not isrev)):
                    ok = False
        ok = ok and n_ok == 2
        cx.ob('GUARD', 'OrientedCircles::get_full_curve', ok, 'the full curve is reversed exactly when the container is reversed', where=b.file)
    E.enc(cx, OC, ('circles', 'reversed'), constructors=[f'{OC}::create', f'{OC}::new'])

    # ---------------------------------------------------------------- reversal coherence
    b = cx.fn('airfoil::helpers::reverse_inscribed_circles')
    if b:
        rv = len(b.calls('slice::reverse')) == 1
        fe = b.calls('IterMut::for_each')
        okc = False
        for s in fe:
            cl = cx.arg(s, 1)
            if cl[0] == 'closure':
                cb = cx.closure_body(cl[1])
                okc = cb is not None and len(cb.calls(f'{IC}::reverse_in_place')) == 1
        # the for_each is presented as the `for` loop it stands for (vpa/mirinline.desugar_for_each): one reverse_in_place per element of the slice
        for s in b.calls(f'{IC}::reverse_in_place'):
            a0 = cx.arg(s, 0)
            if a0[0] == 'itervar' and find('(param stations)', a0) is not None and any(s.bb in blocks for (_h, blocks, _bk) in b.loops()):
                okc = len(b.calls(f'{IC}::reverse_in_place')) == 1
        cx.ob('COMUT', 'reverse_inscribed_circles', rv and okc, 'reverses the order of the stations AND each station in place', where=b.file)
    b = cx.fn(f'{IC}::reversed')
    if b:
        cx.expect('COMUT', 'InscribedCircle::reversed', cx.retval(b),
                  '(call *InscribedCircle::new (call *SpanningRay::reversed (self spanning_ray)) (self contact_neg) (self contact_pos) (self circle))',
                  'reversed swaps the contacts AND reverses the spanning ray, circle unchanged', where=b.file)
    b = cx.fn(f'{IC}::reverse_in_place')
    if b:
        muts = [m for m in b.mutations() if m.root == 1]
        ray = [m for m in muts if m.path == ('spanning_ray',) and m.kind == 'store']
        okr = len(ray) == 1 and match('(call *SpanningRay::reversed (self spanning_ray))', simplify(b.dag().rvalue(ray[0].data['rv'], ray[0].bb, ray[0].idx))) is not None
        sw = b.calls('mem::swap')
        oks = len(sw) == 1 and {show(cx.arg(sw[0], 0)), show(cx.arg(sw[0], 1))} == {'(field contact_pos (param self))', '(field contact_neg (param self))'} or \
            (len(sw) == 1 and find('(field contact_pos _)', ('x', cx.arg(sw[0], 0), cx.arg(sw[0], 1))) is not None and find('(field contact_neg _)', ('x', cx.arg(sw[0], 0), cx.arg(sw[0], 1))) is not None)
        cx.ob('COMUT', 'InscribedCircle::reverse_in_place', okr and oks, 'reverse_in_place reverses the ray AND swaps the contacts', where=b.file)
    run_extra(cx)
    b = cx.fn(f'{IC}::new')
    if b:
        cx.expect('EXPR', 'InscribedCircle::new', cx.retval(b),
                  '(agg * (spanning_ray (param spanning_ray)) (contact_pos (param contact_pos)) (contact_neg (param contact_neg)) (circle (param circle)))',
                  'new stores its arguments field by field', where=b.file)


def caliper_rule(cx):
    """the caliper chord is the longest leg of the convex hull of the section: the scan takes every leg, the closing one included"""
    b = cx.fn('airfoil::caliper_chord_line')
    if not b:
        return
    from vpa import comp as CMP
    H = '(call *convex_hull_2d (call *Curve2::points (param section)))'
    I = f'(itervar (range 0 (len {H})))'
    P0 = f'(index (call *Curve2::points (param section)) (index {H} {I}))'
    P1 = f'(index (call *Curve2::points (param section)) (index {H} (rem (add 1 {I}) (len {H}))))'
    ok = False
    loops = b.loops()
    for s in b.calls('common::points::dist'):
        if not any(s.bb in blocks for (_h, blocks, _bk) in loops):
            continue
        a0, a1 = CMP.canon(cx.arg(s, 0)), CMP.canon(cx.arg(s, 1))
        if (match(P0, a0) is not None and match(P1, a1) is not None) or (match(P0, a1) is not None and match(P1, a0) is not None):
            ok = True
    # the same cyclic pairing as `hull.iter().zip(hull.iter().cycle().skip(1))`: element k with element (k+1) mod n, n pairs
    ZC = f'(itervar (call Iterator::zip {H} (call Iterator::skip (call Iterator::cycle {H}) 1)))'
    Q0 = f'(index (call *Curve2::points (param section)) (field 0 {ZC}))'
    Q1 = f'(index (call *Curve2::points (param section)) (field 1 {ZC}))'
    for s in b.calls('common::points::dist'):
        if any(s.bb in blocks for (_h, blocks, _bk) in loops):
            a0, a1 = CMP.canon(cx.arg(s, 0)), CMP.canon(cx.arg(s, 1))
            if (match(Q0, a0) is not None and match(Q1, a1) is not None) or (match(Q0, a1) is not None and match(Q1, a0) is not None):
                ok = True
    cx.ob('EXPR', 'caliper_chord_line:every-hull-leg', ok,
          'the longest-leg scan measures hull[i] against its CYCLIC successor hull[(i+1) % n] for every i in 0..n: the leg that closes the hull (last vertex back to the first) is a candidate too',
          where=b.file)


def advance_rule(cx):
    """march along the camber ray: the search ends when less than c1 * r of section is left beyond the last circle, and the first jump is c0 * r - the jump
    stays inside what the end test guaranteed only when c0 <= c1 (a larger first jump puts an end station past the end of the medial axis)"""
    b = cx.fn('airfoil::camber::advance_search_along_ray')
    if not b:
        return
    R = '(call *InscribedCircle::radius (param last_station))'
    c1 = None
    for s, d in cx.rets(b):
        if d[0] == 'agg' and d[1].endswith('RayAdvance::End'):
            for a_, p_ in cx.guards(b, s.bb):
                e = match(f'(lt (sub _ {R}) (mul {R} $c))', a_)
                if e is not None and p_ and e['c'][0] == 'const':
                    c1 = e['c'][1]
    c0 = None
    for s in b.calls('*SurfacePoint::at_distance'):
        e = match(f'(mul {R} (phi $c (loop)))', cx.arg(s, 1)) or match(f'(mul {R} (phi $c _))', cx.arg(s, 1))
        if e is not None and e['c'][0] == 'const':
            c0 = e['c'][1]
    ok = isinstance(c0, float) and isinstance(c1, float) and 0.0 < c0 <= c1
    cx.ob('EXPR', 'advance_search_along_ray:first-jump-within-end-test', ok,
          'the first jump fraction of the march (initial value of the shrinking step) does not exceed the fraction of the end test: End is returned when less than c1*r is left, otherwise the '
          'first trial centre c0*r ahead is still short of the farthest section point', where=b.file, found=f'first jump {c0}, end test {c1}')


def analysis_wiring_rules(cx):
    # both halves of the camber line are extracted with the caller's tolerance: the spanning ray and its reversal, same section, same `tol`
    b = cx.fn('airfoil::camber::extract_camber_line')
    if b:
        hs = [cx.call(s) for s in b.calls('airfoil::camber::extract_half_camber_line')]
        fwd = [h for h in hs if match('(call * (param section) $ray (param tol))', h) is not None and match('(call *SpanningRay::reversed _)', h[3]) is None]
        rev = [h for h in hs if match('(call * (param section) (call *SpanningRay::reversed $ray) (param tol))', h) is not None]
        ok = len(hs) == 2 and len(fwd) == 1 and len(rev) == 1 and match('(call *SpanningRay::reversed $r)', rev[0][3], {'r': fwd[0][3]}) is not None
        cx.ob('EXPR', 'extract_camber_line:both-halves', ok,
              'the camber line is walked from ONE starting ray in both directions (the ray and its reversal), on the same section and with the same tolerance argument (a half extracted with the '
              'default tolerance is refined to 1e-3 whatever the analysis tolerance is)', where=b.file, found='; '.join(show(h)[-80:] for h in hs))
    # an open section is split at the edge that is NOT open
    b = cx.fn('airfoil::AirfoilGeometry::try_analyze')
    if b:
        def edge(x):
            return f'(unwrap (field 0 (unwrap (call Result::map_err (call *find_edge (field pointer (field 0 (param {x}))) _ _ _ _) _))))'
        def at(x):
            return f'(call *length_along (call *at_closest_to_point (param section) (field point {edge(x)})))'
        def is_open(x):
            return f'(is (field geometry {edge(x)}) Open)'
        sites = b.calls('*Curve2::split_open_at_length')
        seen = set()
        for s in sites:
            a1 = cx.arg(s, 1)
            if match(at('trailing'), a1) is not None and cx.guarded(b, s.bb, is_open('leading'), True) is not None:
                seen.add('split-at-trailing-when-leading-open')
            if match(at('leading'), a1) is not None and cx.guarded(b, s.bb, is_open('trailing'), True) is not None and cx.guarded(b, s.bb, is_open('leading'), False) is not None:
                seen.add('split-at-leading-when-trailing-open')
        closed = b.calls('*Curve2::split_closed_at_lengths')
        okc = len(closed) == 1 and match(at('leading'), cx.arg(closed[0], 1)) is not None and match(at('trailing'), cx.arg(closed[0], 2)) is not None and \
            cx.guarded(b, closed[0].bb, is_open('leading'), False) is not None and cx.guarded(b, closed[0].bb, is_open('trailing'), False) is not None
        cx.ob('GUARD', 'try_analyze:perimeter-split', len(sites) == 2 and len(seen) == 2 and okc,
              'a section open at its leading edge is split at the TRAILING edge point and one open at its trailing edge at the LEADING edge point (the located, closed one); a closed section at both, leading first',
              where=b.file, found=str(sorted(seen)) + f' closed={okc}')


def run_extra(cx):
    caliper_rule(cx)
    advance_rule(cx)
    analysis_wiring_rules(cx)
    from vpa.core import leaves
    # ---------------------------------------------------------------- tolerance provenance
    n = 0
    for b in E.user_bodies(cx.facts):
        if not b.name.startswith('airfoil::'):
            continue
        for glob, argk in (('airfoil::helpers::inscribed_from_spanning_ray', (2,)), ('airfoil::helpers::refine_stations', (3, 4))):
            for s in b.calls(glob):
                n += 1
                cx.analysed_fns.add(b.name)
                for k in argk:
                    a = cx.arg(s, k)
                    lv = leaves(a)
                    params = sorted({l[2] for l in lv if l[0] == 'param'})
                    fields = [l for l in lv if l[0] == 'field']
                    allowed = all(('tol' in p) and p not in ('check_tol',) for p in params)
                    is_edge = b.impl_trait is not None and b.impl_trait.endswith('EdgeLocate')
                    if is_edge:
                        allowed = params == ['af_tol'] or params == []
                    cx.ob('EXPR', f'tolerance:{b.name.split("::")[-2]}::{b.name.split("::")[-1]}:{glob.split("::")[-1]}:arg{k}', allowed and not fields and bool(params),
                          f'{b.name}: the tolerance handed to {glob.split("::")[-1]} derives only from the analysis tolerance parameter (stations are inscribed within the ANALYSIS tolerance, not a fitting or user threshold)',
                          where=s, found=f'{show(a)} (depends on {params}{" and fields " + str([show(f) for f in fields]) if fields else ""})')
    cx.floor('EXPR', 'tolerance:sites', n, 6, 'calls of inscribed_from_spanning_ray / refine_stations in airfoil')
    # ---------------------------------------------------------------- camber orientation criteria
    b = cx.fn('airfoil::orientation::TMaxFwd::orient_camber_line')
    if b:
        rv = b.calls('airfoil::helpers::reverse_inscribed_circles')
        ok = len(rv) == 1
        if ok:
            CAM = '(unwrap (call *curve_from_inscribed_circles (param stations) _))'
            TM = '(unwrap (call Option::ok_or (call *find_tmax_circle (param stations)) _))'
            g = cx.guarded(b, rv[0].bb, f'(lt 0.5 (div (call *length_along (call *at_closest_to_point {CAM} (call *InscribedCircle::center {TM}))) (call *Curve2::length {CAM})))', True)
            ok = g is not None
        cx.ob('GUARD', 'TMaxFwd::orient_camber_line', ok,
              'the stations are reversed exactly when the thickest station lies beyond half of the camber ARC LENGTH (length_along of its centre / camber length > 0.5), measured on the camber through the same stations',
              where=b.file, found='; '.join(cx.show_guards(b, rv[0].bb))[:500] if rv else None)
    b = cx.fn('airfoil::orientation::DirectionFwd::orient_camber_line')
    if b:
        rv = b.calls('airfoil::helpers::reverse_inscribed_circles')
        ok = len(rv) == 1
        if ok:
            C0 = '(field coords (field center (field circle (unwrap (call Option::ok_or (call slice::first (param stations)) _)))))'
            C1 = '(field coords (field center (field circle (unwrap (call Option::ok_or (call slice::last (param stations)) _)))))'
            g = cx.guarded(b, rv[0].bb, f'(lt (call Matrix::dot (self direction) {C0}) (call Matrix::dot (self direction) {C1}))', True)
            ok = g is not None
        cx.ob('GUARD', 'DirectionFwd::orient_camber_line', ok, 'the stations are reversed exactly when the first centre is behind the last one along the forward direction', where=b.file,
              found='; '.join(cx.show_guards(b, rv[0].bb))[:500] if rv else None)
    b = cx.fn('airfoil::camber::camber_detect_upper_dir')
    if b:
        # the upper side is where the camber line deviates MOST from its chord: an arg-max over every resampled point
        from vpa import term as T
        PTS = '(call *Curve2::points (unwrap (call *Curve2::resample (param camber_line) _)))'
        CHORD = '(unwrap (call Result::map_err (call *Segment2::try_new (call *point (call *Curve2::at_front (param camber_line))) (call *point (call *Curve2::at_back (param camber_line)))) _))'
        ok = False
        for bi in b.live:
            if bi not in b.reachable():
                continue
            for si, st in enumerate(b.blocks[bi]['stmts']):
                if not st['pl']['p'] and st['rv']['k'] == 'agg':
                    v = simplify(b.dag().rvalue(st['rv'], bi, si))
                    if match(f'(agg *Option::Some (0 (itervar {PTS})))', v) is not None:
                        g = [a for a, p in cx.guards(b, bi) if p and a[0] == 'lt']
                        ok = any(match(f'(lt (anyphi (loop)) (call *points::dist (itervar {PTS}) (call *projected_point {CHORD} (itervar {PTS}))))', a) is not None for a in g)
        if not ok:
            # the same arg-max as a fold with a (best distance, Option<point>) accumulator
            from vpa import comp as CMPF
            for af in CMPF.argmax_folds(cx, b):
                if match(PTS, af['src']) is not None and af['init'] == ('const', 0.0) and match(f'(itervar {PTS})', af['item']) is not None and \
                        match(f'(call *points::dist (itervar {PTS}) (call *projected_point {CHORD} (itervar {PTS})))', af['value']) is not None:
                    ok = True
        okx, why = T.exhaustive_loops(cx, b)
        cx.ob('EXPR', 'camber_detect_upper_dir:scan', ok and okx,
              'the reference point is the running maximum, over EVERY resampled camber point (the scan is never left early), of the distance to its projection on the chord front-back', where=b.file,
              found='; '.join(why) if why else None)
    b = cx.fn('airfoil::edges::OpenIntersectGap::find_edge')
    if b:
        mins = [cx.call(s) for s in b.calls('f64::min')]
        SP = '(unwrap (call *OrientedCircles::end_sp _))'
        CAP = '(unwrap (call *Segment2::try_new (call *point (call *Curve2::at_front (param section))) (call *point (call *Curve2::at_back (param section)))))'
        ok = any(match(f'(call f64::min (call *scalar_projection {SP} (field a {CAP})) (call *scalar_projection {SP} (field b {CAP})))', m) is not None or
                 match(f'(call f64::min (call *scalar_projection {SP} (field b {CAP})) (call *scalar_projection {SP} (field a {CAP})))', m) is not None for m in mins)
        cx.ob('EXPR', 'OpenIntersectGap::find_edge:step', ok,
              'the step into the open gap is bounded by the NEARER of the two free ends of the section (min of the projections of end_cap.a and end_cap.b on the last station): symmetric under reversing the section',
              where=b.file, found=mins[0] if mins else None)
    b = cx.fn('airfoil::helpers::find_tmax_circle')
    if b:
        # a running maximum over all stations: the candidate replaces the best only under diameter > best so far
        ok = False
        for bi in b.live:
            if bi not in b.reachable():
                continue
            for si, st in enumerate(b.blocks[bi]['stmts']):
                if not st['pl']['p'] and st['rv']['k'] == 'agg':      # whichever local holds the running thickest station
                    v = simplify(b.dag().rvalue(st['rv'], bi, si))
                    if match('(agg *Option::Some (0 (itervar (param stations))))', v) is not None:
                        g = [a for a, p in cx.guards(b, bi) if p and a[0] == 'lt']
                        ok = any(match('(lt (anyphi (loop)) (mul 2.0 (field radius (field ball (field circle (itervar (param stations)))))))', a) is not None for a in g)
        if not ok:
            from vpa import comp as CMPF
            for af in CMPF.argmax_folds(cx, b):
                if match('(param stations)', af['src']) is not None and af['init'] == ('const', 0.0) and match('(itervar (param stations))', af['item']) is not None and \
                        match('(mul 2.0 (field radius (field ball (field circle (itervar (param stations))))))', af['value']) is not None:
                    ok = True
        cx.ob('EXPR', 'find_tmax_circle', ok, 'the thickest station is a running maximum over ALL stations by diameter (replaced only under strictly larger)', where=b.file)

    # ---------------------------------------------------------------- units of two numeric stop / selection criteria
    b = cx.fn('airfoil::helpers::inscribed_from_spanning_ray')
    if b:
        lp = b.loops()
        conds = []
        for bi in (lp[0][1] if lp else ()):
            t = b.blocks[bi]['term']
            if t['k'] == 'switch' and any(x not in lp[0][1] for x in b.succ[bi]):
                conds.append(simplify(b.dag().operand(t['d'], bi, len(b.blocks[bi]['stmts']))))
        okb = len(lp) == 1 and len(conds) == 1 and (
            match('(lt (param tol) (mul (call Matrix::norm (call *SpanningRay::dir (param ray))) (sub (anyphi (field fraction _)) (anyphi (field fraction _)))))', conds[0]) is not None or
            match('(lt (param tol) (mul (call *SpanningRay::length (param ray)) (sub (anyphi (field fraction _)) (anyphi (field fraction _)))))', conds[0]) is not None)
        cx.ob('EXPR', 'inscribed_from_spanning_ray:bracket-is-a-length', okb,
              'the bisection runs while the bracket, measured as a LENGTH along the spanning ray (fraction difference times the ray length), exceeds the tolerance: '
              'comparing the bare fraction with a length tolerance makes the accuracy depend on the thickness of the section', where=b.file, found='; '.join(show(c)[:300] for c in conds))
    b = cx.fn('airfoil::edges::ConvergeTangentEdge::find_edge')
    if b:
        ev = [d for s_, d in cx.push_events(b) if d[0] == 'agg' and d[1] == 'tuple' and len(d) == 5]
        okm = len(ev) == 1 and (match('(call f64::abs (sub _ _))', dict(ev[0][2:]).get('0')) is not None or match('(call f64::abs (call f64::sub _ _))', dict(ev[0][2:]).get('0')) is not None)
        mins = b.calls('Iterator::min_by')
        cx.ob('EXPR', 'ConvergeTangentEdge::find_edge:nearest', okm and len(mins) == 1,
              'candidate positions are ranked by their ABSOLUTE distance |x - x0| from the reference position and the nearest is taken (a signed difference would pick the farthest-back one)',
              where=b.file, found='; '.join(show(d)[:200] for d in ev))

    # ---------------------------------------------------------------- refinement: the midway ray is taken AFTER the new station is oriented like the last one
    b = cx.fn('airfoil::helpers::refine_stations')
    if b:
        sy = b.calls('*SpanningRay::symmetry')
        oks = len(sy) == 1
        if oks:
            a0, a1 = cx.arg(sy[0], 0), cx.arg(sy[0], 1)
            # receiver: the ray of the oriented station (the popped one, or its reversal), other: the ray of the last accepted station
            POP = '(unwrap (call Vec::pop _))'
            forms = (f'(field spanning_ray (phi $x (call *InscribedCircle::reversed $x)))', f'(field spanning_ray (phi (call *InscribedCircle::reversed $x) $x))',
                     f'(phi (field spanning_ray (call *InscribedCircle::reversed $x)) (field spanning_ray $x))', f'(phi (field spanning_ray $x) (field spanning_ray (call *InscribedCircle::reversed $x)))')
            oks = any(match(f_, a0) is not None for f_ in forms)
            oks = oks and (find('(call *::last (anyphi (param dest)))', a1) is not None or find('(last (anyphi (param dest)))', a1) is not None)
        cx.ob('ORDER', 'refine_stations:midway-ray-after-orientation', oks,
              'the symmetry (midway) ray is built from the new station AFTER it has been flipped to point like the last accepted one; two opposed rays have a '
              'midway ray along the camber line, which spans nothing, and the station would be dropped silently', where=b.file,
              found=show(cx.arg(sy[0], 0))[:300] if sy else None)
    # ---------------------------------------------------------------- radius gauge: negative radii are measured from the trailing edge, positive from the leading edge
    b = cx.fn('airfoil::AirfoilGeometry::get_thickness')
    if b:
        seen = {}
        for s_ in b.calls('*Circle2::from_point'):
            c0, r0 = cx.arg(s_, 0), cx.arg(s_, 1)
            neg = cx.guarded(b, s_.bb, '(lt (variant Radius _) 0.0)', True) is not None or cx.guarded(b, s_.bb, '(lt (field 0 (variant Radius _)) 0.0)', True) is not None
            pos = cx.guarded(b, s_.bb, '(lt (variant Radius _) 0.0)', False) is not None or cx.guarded(b, s_.bb, '(lt (field 0 (variant Radius _)) 0.0)', False) is not None
            edge = 'trailing' if find('(self trailing_edge)', c0) is not None else ('leading' if find('(self leading_edge)', c0) is not None else '?')
            negated = r0[0] == 'neg'
            seen['neg' if neg else ('pos' if pos else '?')] = (edge, negated)
        cx.ob('GUARD', 'get_thickness:radius-gauge', seen == {'neg': ('trailing', True), 'pos': ('leading', False)},
              'a negative gauge radius is measured from the TRAILING edge (with radius -r), a non-negative one from the leading edge', where=b.file, found=str(seen))


def run_thorough(cx):
    """thorough tier: the generic evaluators this property relies on must fire on their positive fixture twins"""
    from rules import fixture_check as FX
    FX.paramuse(cx)
    FX.enc(cx)
