"""C17 Series and discrete domains stay sorted, finite and function-preserving - structural (typestate) clauses."""
from vpa import evaluators as E
from vpa.core import show, Site, simplify, subterms
from vpa.pattern import match, find

EXPLANATION = """Typestate obligations behind C17: DiscreteDomain.values is private with no mutable hand-out, so the ascending/finite
invariant can only be established at construction or by `push`; every non-derive construction site of DiscreteDomain is
(a) validated by are_all_finite and are_in_ascending_order on the very vector it stores, (b) fresh-empty, or (c) an arithmetic
progression lo + i*step whose step is provably non-negative (normalised min/max pair of the same two bounds) with the n-1 divisor
guarded; `push` appends only after the finite and order checks and cannot fail after mutating; Series1.x has the validated type
and every Series1 producer obtains x from try_from / a clone of an existing domain / a parameter of that type, with abscissae
and ordinates built in lock-step (same source length, pushes in the same blocks, both reversed or neither).
Series1::between appends the upper bound under `last kept abscissa < x1` and no further condition. Round 5: Series1 implements Func1 through f alone, f = interpolate, the provided fs is one f(x) per abscissa; sort_and_dedup merges under a small positive constant; try_from stores its input unchanged. Round 6: index_of searches with partial_cmp; resampled_x takes ceil(span / spacing + 1) points; bounds_at_y0 sorts and de-duplicates the crossings TOGETHER with x_min and x_max."""
NOT_DECIDED = "y.len()==x.len() for the public unchecked Series1::new / public fields; values of interpolation, crossings, areas and resampling (only their formulas, guards and order are decided), area additivity; serde Deserialize derives construct without validation (derive expansions are out of scope)"
ASSUMPTIONS = ["iterator adapters map/rev/cloned/collect preserve length; zip yields the common length"]

DD = 'common::discrete_domain::DiscreteDomain'
S1 = 'func1::series1::Series1'


def lenclass(cx, b, d):
    """a token naming the length of the sequence value d; None when unknown"""
    h = d[0]
    if h == 'call':
        n = d[1]
        if n in ('Iterator::collect', 'Iterator::rev', 'Iterator::map', 'Vec::into_iter', 'IntoIterator::into_iter', 'Iterator::cloned', 'Iterator::copied', 'Iterator::enumerate',
                 'Itertools::collect_vec') or n.endswith(('DiscreteDomain::values', 'DiscreteDomain::iter', 'DiscreteDomain::deref')):
            return lenclass(cx, b, d[2])
        if n.endswith('DiscreteDomain::try_from'):
            return lenclass(cx, b, d[2])
        if n == 'Iterator::zip':
            a, c = lenclass(cx, b, d[2]), lenclass(cx, b, d[3])
            return a if a == c else None
        if n.endswith('::fs') and len(d) > 3:
            return lenclass(cx, b, d[3])     # Func1::fs returns one ordinate per abscissa handed in
        return None
    if h == 'unwrap':
        return lenclass(cx, b, d[1])
    if h == 'len':
        return lenclass(cx, b, d[1])
    if h == 'range':
        if d[1] == ('const', 0):
            return lenclass(cx, b, d[2]) or ('count', d[2])
        return None
    if h == 'agg' and d[1].endswith('Range::Range'):
        f = dict(d[2:])
        return lenclass(cx, b, ('range', f.get('start'), f.get('end')))
    if h == 'field' and d[1] in ('x', 'y') and d[2][0] == 'param':
        return ('series', d[2][2])
    if h == 'param':
        return ('param', d[2])
    if h == 'phi':
        cl = {lenclass(cx, b, a) for a in d[1:]}       # every alternative has the same length class (a reversal keeps the length)
        return cl.pop() if len(cl) == 1 else None
    return None


def pushes_per_iteration(b, root):
    """(loop header, min, max) number of Vec::push on `root` along the paths of one loop iteration, or None"""
    ps = [m.bb for m in b.mutations() if m.root == root and m.callee == 'Vec::push']
    other = [m for m in b.mutations() if m.root == root and m.callee != 'Vec::push']
    if not ps or other:
        return None
    cand = [(h, blocks, backs) for (h, blocks, backs) in b.loops() if all(p in blocks for p in ps)]
    if not cand:
        return None
    h, blocks, backs = min(cand, key=lambda x: len(x[1]))
    cnt = {x: ps.count(x) for x in blocks}
    memo = {}

    def walk(x):
        if x in memo:
            return memo[x]
        memo[x] = (10 ** 6, -1)   # cycle guard (inner loops): treated as unknown
        res = []
        if x in backs:
            res.append((cnt[x], cnt[x]))
        for s2 in b.succ[x]:
            if s2 == h or s2 not in blocks:
                continue
            lo, hi = walk(s2)
            if hi >= 0:
                res.append((cnt[x] + lo, cnt[x] + hi))
        if not res:
            memo[x] = (10 ** 6, -1)
        else:
            memo[x] = (min(r[0] for r in res), max(r[1] for r in res))
        return memo[x]
    lo, hi = walk(h)
    return h, lo, hi


def built_len(cx, b, root):
    """length token of a vector local built by exactly one push per iteration of a for-loop over a known source"""
    r = pushes_per_iteration(b, root)
    if r is None:
        return None
    h, lo, hi = r
    if (lo, hi) != (1, 1):
        return None
    for c in b.calls('*::next'):
        if c.bb == h:
            v = simplify(('unwrap', cx.call(c)))
            if v[0] == 'itervar':
                return lenclass(cx, b, v[1])
    return None


def push_regions(b, local_root):
    reg = b.regions()
    return sorted(reg.get(m.bb, m.bb) for m in b.mutations() if m.root == local_root and m.callee == 'Vec::push')


def root_local_of_arg(b, site, k):
    """the local that the k-th argument of a call is moved from, following plain moves"""
    a = site.data['args'][k]
    if a['k'] not in ('copy', 'move') or a['pl']['p']:
        return None
    l = a['pl']['l']
    seen = set()
    while l not in seen:
        seen.add(l)
        ds = [d for d in b.defs().get(l, []) if d[2] == 'assign']
        if len(ds) == 1 and ds[0][3]['rv']['k'] == 'use' and ds[0][3]['rv']['a']['k'] in ('copy', 'move') and not ds[0][3]['rv']['a']['pl']['p'] \
                and not any(d[2] == 'mut' for d in b.defs().get(l, [])):
            l = ds[0][3]['rv']['a']['pl']['l']
        else:
            break
    return l


def try_from_stores_input(cx):
    """shared with C09 (Series1 fits pair x[i] with y[i]; Series1::try_new compares the lengths BEFORE the conversion): the conversion keeps every value"""
    b = cx.fn(f'{DD}::try_from')
    if b:
        lits = b.aggregates(DD)
        ok = len(lits) == 1 and match('(agg * (values (param values)))', cx.aggval(lits[0])) is not None
        cx.ob('CONSTRUCT', 'DiscreteDomain::try_from:stores-input', ok,
              'try_from stores the vector it was handed, element for element (no sorting, merging or dropping: callers pair the abscissae with ordinates by position)',
              where=b.file, found='; '.join(show(cx.aggval(l_)) for l_ in lits))


def index_of_rule(cx):
    """shared with C16 (tolerance zones are looked up through it): the search compares numerically - under a total order -0.0 sorts before a +0.0 breakpoint"""
    b = cx.fn(f'{DD}::index_of')
    if b:
        cmps = [cx.retval(cl) for cl in cx.facts.closures_of(b.name)]
        ok = len(cmps) >= 1 and any(match('(unwrap (call f64::partial_cmp (param 2) (field cap:value (param 1))))', c) is not None for c in cmps) and \
            not any(find('(call f64::total_cmp _ _)', c) is not None for c in cmps)
        cx.ob('EXPR', 'DiscreteDomain::index_of:comparator', ok, 'index_of searches with the numeric comparison partial_cmp(v, value) (a value equal to a breakpoint, +0.0 and -0.0 alike, is an exact hit)',
              where=b.file, found='; '.join(show(c) for c in cmps))


def series_extra_rules(cx):
    b = cx.fn(f'{S1}::resampled_x')
    if b:
        cx.expect('EXPR', 'Series1::resampled_x', cx.retval(b),
                  '(call *Series1::resampled_n (param self) (cast _ (call f64::ceil (add 1.0 (div (sub (call *Series1::x_max (param self)) (call *Series1::x_min (param self))) (param x_spacing))))))',
                  'resampled_x takes ceil(span / spacing + 1) points (rounded UP: never fewer than two points for a positive span, spacing never larger than asked)', where=b.file)
    b = cx.fn(f'{S1}::bounds_at_y0')
    if b:
        sd = b.calls('func1::series1::sort_and_dedup')
        XB = '(call slice::concat (agg array (0 (call *Series1::y_crossings (param self) 0.0)) (1 (veclit (agg array (0 (call *Series1::x_min (param self))) (1 (call *Series1::x_max (param self))))))))'
        XB2 = '(call slice::concat (agg array (0 (veclit (agg array (0 (call *Series1::x_min (param self))) (1 (call *Series1::x_max (param self)))))) (1 (call *Series1::y_crossings (param self) 0.0))))'
        ok = len(sd) == 1 and (match(XB, cx.arg(sd[0], 0)) is not None or match(XB2, cx.arg(sd[0], 0)) is not None)
        cx.ob('ORDER', 'Series1::bounds_at_y0:merged', ok,
              'the interval boundaries are the zero crossings TOGETHER with x_min and x_max, sorted and de-duplicated as one list (a series that starts or ends exactly on zero does not get a degenerate interval)',
              where=b.file, found=cx.arg(sd[0], 0) if sd else None)


def run(cx):
    index_of_rule(cx)
    series_extra_rules(cx)
    try_from_stores_input(cx)
    # ---------------------------------------------------------------- ENC
    sites = E.enc(cx, DD, ('values',), constructors=[f'{DD}::try_from', f'{DD}::linear', 'common::discrete_domain::linear_space']) or []
    w = E.field_writers(cx, DD, ('values',), direct=True)
    extra = sorted(k for k in w if k != f'{DD}::push')
    cx.ob('ENC', f'{DD}:writers', not extra, 'DiscreteDomain.values is written after construction only by push', found=', '.join(extra) if extra else None)
    ders = [i for i in cx.facts.impls if i['self'].startswith(DD) and i['trait'] == 'std::ops::Deref' and not i['span']['exp']]
    cx.ob('ENC', f'{DD}:deref-shared', len(ders) == 1, 'DiscreteDomain derefs to a shared slice only (Deref, no DerefMut)', found=str(len(ders)))

    # ---------------------------------------------------------------- CONSTRUCT at every site
    cx.floor('CONSTRUCT', DD, len(sites), 5, 'non-derive DiscreteDomain construction sites')
    for fname, s in sites:
        b = s.body
        d = cx.aggval(s)
        v = dict(d[2:]).get('values')
        key = f'{fname}'
        # (a) validated
        va = cx.guarded(b, s.bb, '(call *are_all_finite $v)', True)
        vb = cx.guarded(b, s.bb, '(call *are_in_ascending_order $v)', True)
        if va is not None and vb is not None:
            cx.ob('CONSTRUCT', f'{key}:validated', va['v'] == v and vb['v'] == v,
                  f'{fname}: the stored vector is the one checked by are_all_finite and are_in_ascending_order', where=s, found=v)
            continue
        # (b) fresh-empty
        inits, elems = cx.pushes(b, v)
        fresh = all(i == ('call', 'Vec::new') or (i[0] == 'call' and i[1] == 'Vec::with_capacity') for i in inits)
        if fresh and not elems:
            cx.ob('CONSTRUCT', f'{key}:fresh-empty', True, f'{fname}: stores a fresh empty vector', where=s)
            continue
        # (d) at most one element: vec![x; n] reached only when n < 2 (trivially ascending)
        e1 = match('(call vec::from_elem _ $n)', v)
        if e1 is not None:
            g = cx.guarded(b, s.bb, '(lt $n 2)', True, e1) or cx.guarded(b, s.bb, '(le $n 1)', True, e1)
            cx.ob('CONSTRUCT', f'{key}:degenerate', g is not None, f'{fname}: a repeated-value vector is stored only when it has fewer than two elements',
                  where=s, found='; '.join(cx.show_guards(b, s.bb)))
            continue
        # (c) arithmetic progression with a provably non-negative step
        # (a push loop over 0..n, or `(0..n).map(..).collect()`: one comprehension with no filter)
        from vpa import comp as CMP
        comps = [c for c in CMP.comprehensions(cx, b, v) if c.get('elem') is not None]
        ok_shape = len(comps) == 1 and not comps[0]['conds'] and (comps[0]['form'] != 'loop' or fresh)
        e = None
        if ok_shape:
            el = comps[0]['elem']
            e = match('(add $lo (mul (cast f64 (itervar (range 0 $n))) (div (sub $hi $lo) (cast f64 (sub $n 1)))))', el)
        cx.ob('CONSTRUCT', f'{key}:progression-shape', e is not None,
              f'{fname}: values are pushed as lo + i*((hi-lo)/(n-1)) for i in 0..n (neither validated nor empty, so the progression form is required)',
              where=s, found=elems[0][2][0] if elems else v)
        if e is None:
            continue
        pair = match('(call f64::min $p $q)', e['lo'])
        pair2 = match('(call f64::max $p $q)', e['hi'], pair) if pair else None
        if pair2 is None and pair:
            pair2 = match('(call f64::max $q $p)', e['hi'], pair)
        cx.ob('CONSTRUCT', f'{key}:ascending', pair is not None and pair2 is not None and pair2['p'][0] == 'param' and pair2['q'][0] == 'param' and pair2['p'] != pair2['q'],
              f'{fname}: lo = min(p,q) and hi = max(p,q) of the SAME two bounds, so the step is non-negative and the values ascend for bounds in either order',
              where=s, found=f'lo={show(e["lo"])} hi={show(e["hi"])}')
        # the divisor n-1 must be non-zero: site dominated by n >= 2 (n < 2 false)
        g = cx.guarded(b, s.bb, '(lt $n 2)', False, {'n': e['n']}) or cx.guarded(b, s.bb, '(le 2 $n)', True, {'n': e['n']}) \
            or cx.guarded(b, s.bb, '(le $n 1)', False, {'n': e['n']}) or cx.guarded(b, s.bb, '(lt 1 $n)', True, {'n': e['n']})
        cx.ob('GUARD', f'{key}:divisor', g is not None,
              f'{fname}: the progression (division by n-1) is reached only when n >= 2 (n = 1 would store NaN, n = 0 underflows)',
              where=s, found='; '.join(cx.show_guards(b, s.bb)) or 'no guard')

    # ---------------------------------------------------------------- push
    b = cx.fn(f'{DD}::push')
    if b:
        muts = [m for m in b.mutations() if m.root == 1 and m.path == ('values',)]
        cx.ob('GUARD', 'DiscreteDomain::push:sites', len(muts) == 1 and muts[0].callee == 'Vec::push', 'push writes `values` once, by Vec::push')
        for m in muts:
            site = Site(b, m.bb, len(b.blocks[m.bb]['stmts']), 'call', m.data)
            g1 = cx.guarded(b, m.bb, '(call f64::is_finite (param value))', True)
            cx.ob('GUARD', 'DiscreteDomain::push:finite', g1 is not None, 'the append is dominated by value.is_finite()', where=site,
                  found='; '.join(cx.show_guards(b, m.bb)))
            ok, off = cx.all_paths(b, m.bb, lambda has:
                                   has('(empty (param self))', True) or has('(empty (self values))', True) or
                                   has('(lt (param value) (last (self values)))', False) or has('(lt (param value) (last (param self)))', False))
            cx.ob('GUARD', 'DiscreteDomain::push:order', ok, 'the append happens only when the domain is empty or value >= the last value', where=site,
                  found='; '.join(off) if off else None)
            cx.expect('EXPR', 'DiscreteDomain::push:value', cx.arg(site, 1), '(param value)', 'the checked value is the one appended', where=site)
    E.txn(cx, adts=[DD], floor=1)

    # ---------------------------------------------------------------- Series1
    a = cx.adt(S1)
    if a:
        xt = [f['ty'] for v in a['variants'] for f in v['fields'] if f['name'] == 'x']
        cx.ob('CONSTRUCT', 'Series1.x:type', xt == [DD], 'Series1.x carries the validated DiscreteDomain type', found=str(xt))
    lits = []
    for bb in E.user_bodies(cx.facts):
        for s in bb.aggregates(S1):
            lits.append((bb.name, s))
    names = sorted({n for n, _ in lits})
    cx.ob('ENC', 'Series1:literals', names == [f'{S1}::new', f'{S1}::try_new'], 'Series1 literals occur only in new and try_new', found=', '.join(names))
    b = cx.fn(f'{S1}::try_new')
    if b:
        for s in b.aggregates(S1):
            g = cx.guarded(b, s.bb, '(eq (len (param x)) (len (param y)))', True)
            cx.ob('GUARD', 'Series1::try_new:length', g is not None, 'Series1::try_new builds only when x.len() == y.len()', where=s,
                  found='; '.join(cx.show_guards(b, s.bb)))
            cx.expect('CONSTRUCT', 'Series1::try_new:fields', cx.aggval(s), '(agg * (x (unwrap (call *DiscreteDomain::try_from (param x)))) (y (param y)))',
                      'x is validated through DiscreteDomain::try_from(x)?, y is the length-checked parameter', where=s)
    # every producer
    n = 0
    for s in cx.facts.callers_of(f'{S1}::new'):
        b = s.body
        if b.exp or '_serde' in b.path:
            continue
        n += 1
        cx.analysed_fns.add(b.name)
        x, y = cx.arg(s, 0), cx.arg(s, 1)
        k = f'{b.name}'
        okx = (match('(unwrap (call *DiscreteDomain::try_from _))', x) or match('(field x (param _))', x) or
               (x[0] == 'param' and DD in b.local_ty(x[1])) or match('(field x _)', x))
        cx.ob('CONSTRUCT', f'Series1::new@{k}:x', okx is not None and okx is not False,
              f'{b.name}: x handed to Series1::new is try_from(..).unwrap(), a clone of an existing domain, or a DiscreteDomain parameter', where=s, found=x)
        # lock-step construction of abscissae and ordinates
        xv = find('(call *DiscreteDomain::try_from $v)', x)
        rx = None
        for c in b.calls(f'{DD}::try_from'):
            if xv and cx.call(c) == xv[0]:
                rx = root_local_of_arg(b, c, 0)
        ry = root_local_of_arg(b, s, 1)
        lx = lenclass(cx, b, x) or (built_len(cx, b, rx) if rx is not None else None)
        ly = lenclass(cx, b, y) or (built_len(cx, b, ry) if ry is not None else None)
        ux, uy = find('(field 0 (call Iterator::unzip $it))', x), find('(field 1 (call Iterator::unzip $it))', y)
        if ux is not None and uy is not None and ux[1]['it'] == uy[1]['it']:
            cx.ob('COMUT', f'Series1::new@{k}:lockstep', True, f'{b.name}: abscissae and ordinates are the two halves of one unzip (same length by construction)', where=s)
        elif lx is not None and ly is not None:
            cx.ob('COMUT', f'Series1::new@{k}:lockstep', lx == ly, f'{b.name}: abscissae and ordinates derive from sequences of the same length', where=s,
                  found=f'x~{lx} y~{ly}')
        elif rx is not None and ry is not None:
            # both built by conditional pushes: every straight-line region that pushes an abscissa pushes an ordinate
            px, py = push_regions(b, rx), push_regions(b, ry)
            cx.ob('COMUT', f'Series1::new@{k}:lockstep', px == py and len(px) > 0,
                  f'{b.name}: every straight-line region that pushes an abscissa also pushes exactly one ordinate', where=s,
                  found=f'x pushes in regions {px}, y pushes in regions {py}')
        else:
            cx.ob('COMUT', f'Series1::new@{k}:lockstep', False, f'{b.name}: cannot relate the lengths of abscissae and ordinates', where=s,
                  found=f'x={show(x)} ({lx}) y={show(y)} ({ly})')
    cx.floor('CONSTRUCT', 'Series1::new', n, 12, 'Series1::new call sites (13 counted; one less is allowed for a merge of two duplicated branches)')

    # ---------------------------------------------------------------- scaled_by: co-reversal
    b = cx.fn(f'{S1}::scaled_by')
    if b:
        # per polarity of `scale_x < 0`: is the vector handed to try_from reversed, is the ordinate vector handed to Series1::new reversed
        # (two sites under if/else, or one site fed by `let (xs, ys) = if .. {..} else {..}`)
        SPLIT = '(lt (param scale_x) 0.0)'
        revx, revy = {True: set(), False: set()}, {True: set(), False: set()}
        for t in b.calls(f'{DD}::try_from'):
            cs = cx.cases_by(b, t, t.data['args'][:1], SPLIT)
            for pol in (True, False):
                if cs[pol][0] is not None:
                    revx[pol].add(find('(call Iterator::rev _)', cs[pol][0]) is not None)
        for s in b.calls(f'{S1}::new'):
            cs = cx.cases_by(b, s, s.data['args'][1:2], SPLIT)
            for pol in (True, False):
                if cs[pol][0] is not None:
                    revy[pol].add(find('(call Iterator::rev _)', cs[pol][0]) is not None)
        for pol, nm in ((True, 'neg'), (False, 'pos')):
            cx.ob('COMUT', f'Series1::scaled_by:{nm}', revx[pol] == {pol} and revy[pol] == {pol},
                  'scaled_by reverses abscissae AND ordinates exactly when scale_x < 0', where=b.file, found=f'under scale_x<0 = {pol}: rev(x) in {sorted(revx[pol])} rev(y) in {sorted(revy[pol])}')
    # ---------------------------------------------------------------- between: boundary samples
    b = cx.fn(f'{S1}::between')
    if b:
        for pname in ('x0', 'x1'):
            xp = [m for m in b.mutations() if m.callee == 'Vec::push' and match(f'(param {pname})', simplify(b.dag().operand(m.args[1], m.bb, len(b.blocks[m.bb]['stmts'])))) is not None]
            cx.ob('EXPR', f'Series1::between:{pname}:pushed', len(xp) == 1, f'the requested bound {pname} is inserted as an abscissa at one site', found=str(len(xp)))
            for m in xp:
                # the ordinate pushed in the same straight-line region is interpolate(bound)
                region = b.reach_from([m.bb])
                yp = [c for c in b.calls(f'{S1}::interpolate') if match(f'(call * (param self) (param {pname}))', cx.call(c)) is not None and c.bb in region]
                cx.ob('EXPR', f'Series1::between:{pname}:ordinate', len(yp) == 1, f'the ordinate inserted with {pname} is self.interpolate({pname})', found=str(len(yp)))
        # the upper bound closes the piece exactly when the last abscissa kept is below it - under that test alone
        xp = [m for m in b.mutations() if m.callee == 'Vec::push' and match('(param x1)', simplify(b.dag().operand(m.args[1], m.bb, len(b.blocks[m.bb]['stmts'])))) is not None]
        fin = b.calls('*DiscreteDomain::try_from')
        okc = len(xp) == 1 and len(fin) == 1
        own = []
        if okc:
            own = sorted(set(cx.guards(b, xp[0].bb)) - set(cx.guards(b, fin[0].bb)), key=str)
            okc = len(own) == 1 and own[0][1] is True and match('(lt (last _) (param x1))', own[0][0]) is not None
        cx.ob('GUARD', 'Series1::between:x1:closing-test', okc,
              'x1 (with its interpolated ordinate) is appended under `last kept abscissa < x1` and under no further condition: a bound strictly inside the last segment still ends the piece',
              where=b.file, found='; '.join(('' if p else 'NOT ') + show(a)[:160] for a, p in own))
    run_series_functions(cx)


def run_series_functions(cx):
    """interpolation / crossings / areas / splits: the value-free shape of the formulas the property names"""
    # ---------------------------------------------------------------- interpolate
    b = cx.fn(f'{S1}::interpolate')
    if b:
        X, Y = '(field x (param self))', '(field y (param self))'
        SEARCH = f'(call slice::binary_search_by {X} (closure * (param x)))'
        rets = cx.alts(b, {'k': 'copy', 'pl': {'l': 0, 'p': []}}, b.exits()[0], len(b.blocks[b.exits()[0]]['stmts']) + 1)
        kinds = {}
        for (bb, dv, g) in rets:
            if dv[0] == 'const' and (dv[1] != dv[1] or str(dv[1]).lower() == 'nan'):
                # the end abscissae read directly or through x_min() / x_max() (which are x[0] and the last x: checked here as well)
                bmin, bmax = cx.fn(f'{S1}::x_min'), cx.fn(f'{S1}::x_max')
                acc = bmin is not None and bmax is not None and match(f'(index {X} 0)', cx.retval(bmin)) is not None and \
                    (match(f'(last {X})', cx.retval(bmax)) is not None or match(f'(index {X} (sub (len {X}) 1))', cx.retval(bmax)) is not None)
                ok, _ = cx.all_paths(b, bb, lambda has: has(f'(lt (param x) (index {X} 0))', True) or has(f'(lt (index {X} (sub (len {X}) 1)) (param x))', True) or
                                     (acc and (has('(lt (param x) (call *Series1::x_min (param self)))', True) or has('(lt (call *Series1::x_max (param self)) (param x))', True))))
                kinds['nan-outside'] = ok
            elif match(f'(index {Y} (unwrap {SEARCH}))', dv) is not None:
                kinds['knot'] = cx.guarded(b, bb, f'(is {SEARCH} Ok)', True) is not None
            else:
                e = match(f'(add (index {Y} (sub $n 1)) (mul (div (sub (index {Y} $n) (index {Y} (sub $n 1))) (sub (index {X} $n) (index {X} (sub $n 1)))) (sub (param x) (index {X} (sub $n 1)))))', dv)
                kinds['blend'] = e is not None and match(f'(unwrap_err {SEARCH})', e['n']) is not None
        for cl in cx.facts.closures_of(b.name):
            kinds['comparator'] = match('(unwrap (call f64::partial_cmp (param 2) (field cap:x (param 1))))', cx.retval(cl)) is not None
        cx.ob('EXPR', 'Series1::interpolate', kinds == {'nan-outside': True, 'knot': True, 'blend': True, 'comparator': True},
              'interpolate: NaN strictly outside [x_first, x_last]; an exact knot hit Ok(i) returns the STORED y[i]; otherwise the linear blend y0 + (y1-y0)/(x1-x0)*(x-x0) of the bracketing knots n-1, n',
              where=b.file, found=str(kinds))
    # ---------------------------------------------------------------- y_crossings
    b = cx.fn(f'{S1}::y_crossings')
    if b:
        def crossing_site(body, bb, v, SELF, LEVEL):
            """the value v produced at block bb of body is the crossing formula of segment $j, under the closed two-sided test and nothing narrower"""
            Y0 = f'(index (field y {SELF}) $j)'
            Y1 = f'(index (field y {SELF}) (add 1 $j))'
            e = match(f'(add (index (field x {SELF}) $j) (div (sub {LEVEL} (index (field y {SELF}) $j)) '
                      f'(div (sub (index (field y {SELF}) (add 1 $j)) (index (field y {SELF}) $j)) (sub (index (field x {SELF}) (add 1 $j)) (index (field x {SELF}) $j)))))', v)
            if e is None:
                return None
            # closed test on both ends of the segment: (v0<=y and v1>=y) or (v0>=y and v1<=y)
            o2, off = cx.all_paths(body, bb, lambda has: (has(f'(le {Y0} {LEVEL})', True, e) and has(f'(le {LEVEL} {Y1})', True, e)) or
                                   (has(f'(le {LEVEL} {Y0})', True, e) and has(f'(le {Y1} {LEVEL})', True, e)))
            # ... and nothing narrower: the strict forms must not be what guards the value
            strict, _ = cx.all_paths(body, bb, lambda has: has(f'(lt {LEVEL} {Y1})', True, e) or has(f'(lt {Y1} {LEVEL})', True, e) or
                                     has(f'(lt {Y0} {LEVEL})', True, e) or has(f'(lt {LEVEL} {Y0})', True, e))
            return e['j'] if (o2 and not strict) else None
        RNG = '(range 0 (sub (len (field y (param self))) 1))'
        pushes = b.calls('Vec::push')
        ok = False
        if len(pushes) == 1:
            s = pushes[0]
            j = crossing_site(b, s.bb, cx.arg(s, 1), '(param self)', '(param y_equals)')
            ok = j is not None and match(f'(itervar {RNG})', j) is not None
        elif not pushes:
            # the same as (0..len-1).filter_map(|j| ..).collect(): one Some exit of the closure carries the formula under the same test
            fm = find(f'(call Iterator::collect (call Iterator::filter_map (agg *Range (start 0) (end (sub (len (field y (param self))) 1))) (closure * ...)))', cx.retval(b))
            clo = [x for x in subterms(fm[0]) if x[0] == 'closure'] if fm else []
            cl = cx.closure_body(clo[0][1]) if len(clo) == 1 else None
            if cl is not None:
                somes = [(s2, d2) for s2, d2 in cx.rets(cl) if d2[0] == 'agg' and d2[1].endswith('Option::Some')]
                if len(somes) == 1:
                    j = crossing_site(cl, somes[0][0].bb, dict(somes[0][1][2:]).get('0'), '(field cap:self (param 1))', '(field cap:y_equals (param 1))')
                    ok = j is not None and match('(param 2)', j) is not None
        cx.ob('GUARD', 'Series1::y_crossings', ok,
              'a crossing x0 + (level - y0)/slope is reported for every segment whose CLOSED ordinate range [min(y0,y1), max(y0,y1)] contains the level (a level met exactly at a knot, the last one included, is a crossing)',
              where=b.file)
        sd = b.calls('func1::series1::sort_and_dedup')
        cx.ob('ORDER', 'Series1::y_crossings:sorted', len(sd) == 1 and all(b.dominates(sd[0].bb, e2) for e2 in b.exits()), 'crossings are sorted and de-duplicated before they are returned', where=b.file)
    # bulk evaluation: the provided Func1::fs is one f(x) per abscissa, Series1::f is interpolate, and Series1 does not replace the bulk
    # evaluator with a hand-written sweep (which would have to reproduce the NaN-outside convention on both sides on its own)
    b = cx.fn('func1::Func1::fs')
    if b:
        D = '(call *DiscreteDomain::iter (param xs))'
        cx.expect_comp('EXPR', 'Func1::fs', b, cx.retval(b), D, f'(call *Func1::f (param self) (index {D} (itervar (range 0 (len {D})))))',
                       'the provided bulk evaluator returns f(x) for every abscissa of the domain, in order', where=b.file)
    b = cx.fn(f'{S1}::f')
    if b:
        cx.expect('EXPR', 'Series1::f', cx.retval(b), f'(call *Series1::interpolate (param self) (param x))', 'Series1 evaluates through interpolate (NaN outside the abscissa range)', where=b.file)
    impl = sorted(p_.rsplit('::', 1)[-1] for p_ in cx.facts.bodies if p_.startswith('<func1::series1::Series1 as func1::Func1>::') and '{closure' not in p_)
    cx.ob('ENC', 'Series1:Func1-impl', impl == ['f'], 'Series1 implements Func1 through `f` alone: every bulk evaluation (fs, from_sampled, scaled_y, resampling) is the provided per-abscissa loop over interpolate',
          found=str(impl))
    b = cx.fn('func1::series1::sort_and_dedup')
    if b:
        so, dd = b.calls('slice::sort_by'), b.calls('Vec::dedup_by')
        cx.ob('ORDER', 'sort_and_dedup', len(so) == 1 and len(dd) == 1 and b.dominates(so[0].bb, dd[0].bb), 'sort precedes dedup', where=b.file)
        okd = False
        for cl in cx.facts.closures_of(b.name):
            v = cx.retval(cl)
            e = match('(lt (call f64::abs (sub (param 2) (param 3))) $eps)', v) or match('(le (call f64::abs (sub (param 2) (param 3))) $eps)', v)
            if e is not None and e['eps'][0] == 'const' and isinstance(e['eps'][1], float) and 0.0 < e['eps'][1] <= 1e-9:
                okd = True
        cx.ob('EXPR', 'sort_and_dedup:predicate', okd,
              'two crossings are one when they differ by less than a small POSITIVE CONSTANT (a relative tolerance vanishes at x = 0, where a level met exactly at a knot is found by both adjacent segments, and grows with |x| until distinct crossings merge)',
              where=b.file)
    # ---------------------------------------------------------------- areas and splits
    b = cx.fn(f'{S1}::middle_reiemann_areas')
    if b:
        from vpa import comp as CMP
        comps = [c for c in CMP.comprehensions(cx, b, cx.retval(b)) if c.get('elem') is not None]
        ok = len(comps) == 1 and not comps[0]['conds']
        if ok:
            v = comps[0]['elem']
            X0, X1 = '(index (field x (param self)) $i)', '(index (field x (param self)) (add 1 $i))'
            Y0, Y1 = '(index (field y (param self)) $i)', '(index (field y (param self)) (add 1 $i))'
            e = match(f'(agg tuple (0 (mul (add {X0} {X1}) 0.5)) (1 (mul (mul (sub {X1} {X0}) (add {Y0} {Y1})) 0.5)))', v)
            ok = e is not None and match('(itervar (range 0 (sub (len (field x (param self))) 1)))', e['i']) is not None
        cx.ob('EXPR', 'Series1::middle_reiemann_areas', ok, 'segment i contributes the trapezoid (x1-x0)*(y0+y1)/2 at the mid abscissa, one per segment', where=b.file)
    b = cx.fn(f'{S1}::area_under')
    if b:
        r = cx.retval(b)
        cx.ob('EXPR', 'Series1::area_under', match('(call Iterator::sum (call Iterator::map (call *middle_reiemann_areas (param self)) (closure *)))', r) is not None, 'area = sum of the trapezoids', where=b.file, found=r)
    b = cx.fn(f'{S1}::split_at_x')
    if b:
        rets = cx.alts(b, {'k': 'copy', 'pl': {'l': 0, 'p': []}}, b.exits()[0], len(b.blocks[b.exits()[0]]['stmts']) + 1)
        ok = False
        for (bb, dv, g) in rets:
            e = match('(agg tuple (0 (agg *Option::Some (0 (call *Series1::between (param self) (call *x_min (param self)) (param x))))) '
                      '(1 (agg *Option::Some (0 (call *Series1::between (param self) (param x) (call *x_max (param self)))))))', dv)
            if e is not None:
                ok = True
        cx.ob('EXPR', 'Series1::split_at_x', ok, 'an interior split yields between(x_min, x) and between(x, x_max): the pieces meet exactly at the requested abscissa', where=b.file)
    b = cx.fn(f'{S1}::in_interval')
    if b:
        cx.expect('EXPR', 'Series1::in_interval', cx.retval(b), '(call *Series1::between (param self) (field min (param interval)) (field max (param interval)))', 'in_interval = between(min, max)', where=b.file)


def run_thorough(cx):
    """thorough tier: the generic evaluators this property relies on must fire on their positive fixture twins"""
    from rules import fixture_check as FX
    FX.enc(cx)
    FX.txn(cx)
    from vpa import witness as W
    W.check(cx, ['C17DomainNoIndexMut', 'C17DomainValuesPrivate'])
