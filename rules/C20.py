"""C20 Conformal flattening is an isometry on planar disks and never folds them - structural clauses (rejection, index discipline, UV wiring)."""
from vpa import evaluators as E
from vpa.core import show, Site, simplify, subterms
from vpa.pattern import match, find
from vpa.poly import poly, is_const, rat_equal

EXPLANATION = """Structural obligations behind C20: (GUARD) boundary_first_flatten reaches its first solver / matrix routine only under
boundary_loops.len() == 1 and returns Err otherwise; the manifold guard of identify_edges is shared with C12; UvMapping::new
propagates TriMesh::new errors; (EXPR index discipline) calc_face_angles applies the law of cosines so that angle j is opposite
edge j of face_edges (edge j being the edge opposite vertex j by construction of naive_edges): cos_j = (sum of the other two
squared - own squared) / (2 * product of the other two); calc_angle_defects starts from 2pi (pi on the boundary) and charges
angle j to vertex face[j]; cotan_laplacian_triplets charges cot(angle j) to face_edges[j], halves the sums, adds every edge
weight to both end vertices' diagonals and emits -w symmetrically at (e0,e1) and (e1,e0); (EXPR barycentric agreement)
UvMapping::point and Mesh::uv_to_3d both form a*bc[0] + b*bc[1] + c*bc[2] on the triangle with the id the lookup returned;
uv_with_tol maps the barycentric location of the projected face through uv_map.point(id, ..) and measures depth along that face's
normal, with the transform applied once.
interior_barycentric rejects exactly under det == 0 (the determinant the weights are divided by); the face list of Mesh.shape changes only while
neither mesh carries a UV map. Round 5: UvMapping::triangle returns None only by propagating interior_barycentric (never by where the projection landed); calc_face_angles treats a face as degenerate exactly under a strict l_j > l_a + l_b. Round 6: boundary_edge_lengths[k] is the length of the edge LEAVING boundary vertex k; calc_extend_h writes 0.5 * (u[k-1] - u[k+1]) at boundary vertex k, in this order."""
NOT_DECIDED = "isometry on planar disks, no folding, rigid-motion invariance (numerical linear algebra: laplacian_set, dirichlet_boundary, best_fit_curve, extend_curve are not analysed beyond calc_extend_uv_xs and invert_2x2); genus (a one-boundary surface of higher genus is not rejected)"
ASSUMPTIONS = ["faer solves / factorisations are trusted"]

CF = 'geom3::mesh::conformal'



def _bary_terms(d):
    """flatten a sum of `vertex.coords * weight` terms -> list of (vertex name, triangle term, weight index, weight base) or None"""
    out = []
    todo = [d]
    while todo:
        x = todo.pop()
        if x[0] == 'call' and x[1] == 'Matrix::add' and len(x) == 4:
            todo += [x[2], x[3]]
            continue
        e = match('(call Matrix::mul (field coords $vt) (index $bc $k))', x) or match('(call *::mul (index $bc $k) (field coords $vt))', x)
        if e is None or e['k'][0] != 'const' or e['vt'][0] != 'field':
            return None
        out.append((e['vt'][1], e['vt'][2], e['k'][1], e['bc']))
    return out


def _bary_ok(terms, tri_pat, bc_pat):
    """vertices a, b, c of ONE triangle matching tri_pat, weighted by elements 0, 1, 2 of ONE array matching bc_pat"""
    if len(terms) != 3 or {(str(v), k) for v, _, k, _ in terms} != {('a', 0), ('b', 1), ('c', 2)}:
        return False
    return all(match(tri_pat, t) is not None and match(bc_pat, bc) is not None for _, t, _, bc in terms)


def uv_lookup_rules(cx):
    """UvMapping::point / triangle / interior_barycentric (shared with C02: 'face id and barycentric location reproduce the same point')"""
    UV = 'geom3::mesh::uv_mapping::UvMapping'
    b = cx.fn(f'{UV}::point')
    if b:
        r = cx.retval(b)
        e = match('(call OPoint::from $s)', r)
        got = _bary_terms(e['s']) if e else None
        ok = got is not None and _bary_ok(got, '(call TriMesh::triangle (field tri_map (param self)) (param tri_id))', '(param barycentric)')
        cx.ob('EXPR', 'UvMapping::point', ok, 'uv point = a*bc[0] + b*bc[1] + c*bc[2] (any order of terms) on UV triangle tri_id', where=b.file)
    b = cx.fn(f'{UV}::triangle')
    if b:
        r = cx.retval(b)
        comb = None
        em = match('(call Option::map $opt $cl)', r)
        if em is not None and em['cl'][0] == 'closure':
            # `loc.barycentric_coordinates().or_else(|| interior_barycentric(..)).map(|bc| (t_id, bc))`: Some(closure(content)) when the option is Some
            from vpa import inline as IN0
            v0 = IN0.closure_apply(cx.facts, em['cl'], (('unwrap', em['opt']),))
            if v0 is not None:
                comb = em['opt']
                r = ('agg', 'option::Option::Some', ('0', simplify(v0)))
        P = '(call TriMesh::project_local_point_and_get_location (field tri_map (param self)) (param point) _)'
        TRI = f'(call TriMesh::triangle (field tri_map (param self)) (field 0 (field 1 {P})))'
        e = find(f'(agg *Option::Some (0 (agg tuple (0 (field 0 (field 1 {P}))) (1 $bc))))', r)
        okt = interior_handled = False
        if e is not None:
            bc = e[1]['bc']
            if bc[0] != 'phi':
                # `loc.barycentric_coordinates().or_else(|| interior_barycentric(..))?` : the same two alternatives behind a combinator
                from vpa import inline as IN
                bc = simplify(IN.lift_phi(IN.expand(cx.facts, bc, keep=('interior_barycentric',))))
            alts = list(bc[1:]) if bc[0] == 'phi' else [bc]
            loc = [a_ for a_ in alts if match(f'(unwrap (call TrianglePointLocation::barycentric_coordinates (field 1 (field 1 {P}))))', a_) is not None]
            inter = [a_ for a_ in alts if match(f'(unwrap (call *interior_barycentric (field a {TRI}) (field b {TRI}) (field c {TRI}) (param point)))', a_) is not None]
            okt = len(loc) == 1 and len(loc) + len(inter) == len(alts)
            interior_handled = len(inter) == 1
        cx.ob('EXPR', 'UvMapping::triangle', okt, 'the triangle id and the barycentric weights come from the same projection (weights of an interior location are computed on '
              'that same triangle for that same point)', where=b.file, found=None if okt else r)
        pj = b.calls('TriMesh::project_local_point_and_get_location')
        cx.ob('EXPR', 'UvMapping::triangle:solid', len(pj) == 1 and cx.arg(pj[0], 2) == ('const', True) and match('(field tri_map (param self))', cx.arg(pj[0], 0)) is not None and okt and interior_handled,
              'the UV lookup treats the 2D triangles as SOLID: with solid = false parry2d moves a point strictly inside a triangle onto the nearest triangle edge, '
              'so an interior UV coordinate would come back as a point on an edge; and the interior location (which carries no barycentric coordinates in 2D) is given weights instead of being unwrapped',
              where=b.file, found=cx.arg(pj[0], 2) if pj else None)
        # None is returned only when the interior weights cannot be computed: the lookup never rejects a query by where its projection landed
        nones = [(s_, d_) for s_, d_ in cx.rets(b) if not (d_[0] == 'agg' and d_[1].endswith('Option::Some'))]
        def _via_interior(d_):
            if d_[0] != 'residual':
                return False
            if find('(call *interior_barycentric _ _ _ _)', d_) is not None:
                return True
            eo = find('(call Option::or_else (call TrianglePointLocation::barycentric_coordinates _) $cl)', d_)      # `bc.or_else(|| interior_barycentric(..))?`
            cb_ = cx.closure_body(eo[1]['cl'][1]) if eo is not None and eo[1]['cl'][0] == 'closure' else None
            return cb_ is not None and len(cb_.calls('*interior_barycentric')) == 1
        okn = all(_via_interior(d_) for s_, d_ in nones) and \
            all(not any(find('(field is_inside _)', a_) is not None for a_, p_ in cx.guards(b, s_.bb)) for s_, d_ in cx.rets(b))
        if comb is not None:
            # combinator form: the result is None exactly when the mapped option is - the location's weights or else interior_barycentric's
            okn = interior_handled and match('(call Option::or_else (call TrianglePointLocation::barycentric_coordinates _) _)', comb) is not None and \
                all(not any(find('(field is_inside _)', a_) is not None for a_, p_ in cx.guards(b, s_.bb)) for s_, d_ in cx.rets(b))
        cx.ob('GUARD', 'UvMapping::triangle:none-only-degenerate', okn,
              'UvMapping::triangle gives None only by propagating interior_barycentric (a degenerate UV triangle); a query on or beyond the outline of the map is answered with the closest triangle '
              '(points ON the boundary of the disk round-trip 3D -> UV -> 3D)', where=b.file, found='; '.join(show(d_)[:100] for _, d_ in nones))
    b = cx.fn('geom3::mesh::uv_mapping::interior_barycentric')
    if b:
        somes = [d for s_, d in cx.rets(b) if d[0] == 'agg' and d[1].endswith('Option::Some')]
        e = match('(agg * (0 (agg array (0 $w0) (1 $w1) (2 $w2))))', somes[0]) if len(somes) == 1 else None
        ok = e is not None
        if ok:
            V = lambda q, ax: ('field', ax, ('call', 'OPoint::sub', ('param', {'b': 2, 'c': 3, 'p': 4}[q], q), ('param', 1, 'a')))
            at = {}
            for q in 'bcp':
                for ax in 'xy':
                    f_ = find(f'(field {ax} (call OPoint::sub (param {q}) (param a)))', somes[0])
                    at[(q, ax)] = f_[0] if f_ else None
            ok = all(v is not None for v in at.values())
            if ok:
                w0, w1, w2 = e['w0'], e['w1'], e['w2']
                ok = rat_equal(('add', ('add', w0, w1), w2), ('const', 1.0))
                for ax in 'xy':
                    ok = ok and rat_equal(('add', ('mul', w1, at[('b', ax)]), ('mul', w2, at[('c', ax)])), at[('p', ax)])
        cx.ob('ALGEBRA', 'interior_barycentric', ok,
              'the weights of an interior point sum to one and reproduce the point: w1 (b - a) + w2 (c - a) = p - a in both coordinates (order a, b, c as in UvMapping::point)', where=b.file)
        # None only for a triangle of zero area - whichever way it is wound in UV space
        nones = [s_ for s_, d in cx.rets(b) if d[0] == 'agg' and d[1].endswith('Option::None')]
        okd = len(nones) == 1 and e is not None
        if okd:
            den = match('(sub (sub 1.0 (div _ $det)) _)', e['w0']) or match('(div _ $det)', e['w1'])
            g1 = cx.guarded(b, nones[0].bb, '(eq 0.0 $det)', True, den) if den else None
            own = [(a, p_) for a, p_ in cx.guards(b, nones[0].bb)]
            okd = g1 is not None and len(own) == 1
        cx.ob('GUARD', 'interior_barycentric:degenerate-only', okd,
              'the lookup gives up exactly when the determinant the weights are divided by is zero (== 0.0): a triangle wound clockwise in UV space (negative determinant) is a valid triangle', where=b.file,
              found='; '.join(cx.show_guards(b, nones[0].bb))[:300] if nones else None)


def uv_with_tol_rule(cx):
    """shared with C02 (the projection inside uv_with_tol must see the query once-transformed, like project_with_tol itself)"""
    b = cx.fn('geom3::mesh::Mesh::uv_with_tol')
    if b:
        somes = [(s, d) for s, d in cx.rets(b) if d[0] == 'agg' and d[1].endswith('Option::Some')]
        ok = len(somes) == 1
        if ok:
            s, d = somes[0]
            Q = '(phi (param point) (call Isometry::mul (unwrap (param transform)) (param point)))'
            PR = f'(unwrap (call *Mesh::project_with_tol (param self) {Q} (param max_dist) (param max_angle) (agg *Option::None)))'
            e = match(f'(agg * (0 (agg tuple (0 (call *UvMapping::point _ (field 1 {PR}) (unwrap (call TrianglePointLocation::barycentric_coordinates (field 2 {PR}))))) '
                      f'(1 (call *SurfacePoint::scalar_projection (call *SurfacePoint::new (field point (field 0 {PR})) (unwrap (call Triangle::normal (call TriMesh::triangle (field shape (param self)) (field 1 {PR}))))) {Q})))))', d)
            ok = e is not None
        cx.ob('EXPR', 'Mesh::uv_with_tol', ok,
              'the (optionally transformed, once) query is projected; uv = uv_map.point(face id, barycentric location of that projection); depth = scalar projection of the query on (projection point, normal of that face)', where=b.file)



def shape_uv_in_step_rule(cx):
    """the UV map has one triangle per face of the shape it was made for: the face list may change only while there is no UV map"""
    M = 'geom3::mesh::Mesh'
    n = 0
    ok = True
    bad = []
    for b in E.user_bodies(cx.facts):
        if b.argc < 1 or M not in b.local_ty(1) or 'mut' not in b.local_ty(1):
            continue
        for m in b.mutations():
            if m.root == 1 and m.path and m.path[0] == 'shape' and not (m.kind == 'call' and m.callee == 'TriMesh::transform_vertices'):
                n += 1
                cx.analysed_fns.add(b.name)
                g = cx.guarded(b, m.bb, '(is (field uv (param self)) None)', True)
                other_ok = True
                if m.kind == 'call' and m.callee == 'TriMesh::append':
                    other_ok = any(p and match('(is (field uv (param _)) None)', a) is not None and match('(is (field uv (param self)) None)', a) is None for a, p in cx.guards(b, m.bb))
                if g is None or not other_ok:
                    ok = False
                    bad.append(f'{b.name}: {m.callee or m.kind}')
    cx.ob('COMUT', 'Mesh.shape/uv:in-step', ok and n >= 1,
          'the stored shape gets new faces (append) only when neither this mesh nor the appended one carries a UV map - a UV map has exactly one triangle per face of the shape it belongs to; moving the vertices (transform_vertices) keeps the faces',
          found='; '.join(bad) or f'{n} face-list mutation site(s)')

def boundary_table_rules(cx):
    """per-boundary-vertex tables of the flattening: entry k belongs to boundary vertex k"""
    CF_ = 'geom3::mesh::conformal'
    b = cx.fn(f'{CF_}::boundary_edge_lengths')
    if b:
        IB = '(param i_bound)'
        I = f'(itervar (range 0 (len {IB})))'
        from vpa import comp as CMPB
        comps = [c for c in CMPB.comprehensions(cx, b, cx.retval(b)) if c.get('elem') is not None]
        okb = False
        if len(comps) == 1 and not comps[0]['conds'] and comps[0]['src'] is not None:
            c0 = comps[0]
            # vertex k with vertex (k+1) % n by index ..
            okb = match(IB, c0['src']) is not None and \
                match(f'(call *points::dist (index (param vertices) (index {IB} {I})) (index (param vertices) (index {IB} (rem (add 1 {I}) (len {IB})))))', c0['elem']) is not None
            if not okb:
                # .. or by pairing the loop with itself shifted by one: i_bound.iter().zip(i_bound.iter().cycle().skip(1))
                ZS = f'(call Iterator::zip {IB} (call Iterator::skip (call Iterator::cycle {IB}) 1))'
                IT = f'(index {ZS} (itervar (range 0 (len {ZS}))))'
                okb = match(ZS, c0['src']) is not None and \
                    (match(f'(call *points::dist (index (param vertices) (field 0 {IT})) (index (param vertices) (field 1 {IT})))', c0['elem']) is not None or
                     match(f'(call *points::dist (index (param vertices) (field 0 (itervar {ZS}))) (index (param vertices) (field 1 (itervar {ZS}))))', c0['elem']) is not None or
                     match(f'(call *points::dist (index (param vertices) (index {IB} (itervar (range 0 (len {ZS}))))) '
                           f'(index (param vertices) (index (call Iterator::skip (call Iterator::cycle {IB}) 1) (itervar (range 0 (len {ZS}))))))', c0['elem']) is not None)
        cx.ob('EXPR', 'boundary_edge_lengths:outgoing', okb,
              'entry k is the length of the boundary edge LEAVING boundary vertex k (to its cyclic successor), one entry per boundary vertex: the target curvatures and the '
              'cumulative arc positions pair entry k with vertex k', where=b.file,
              found='; '.join(f"src={show(c['src'])[:120] if c['src'] else None} elem={show(c['elem'])[:300]}" for c in comps))
    b = cx.fn(f'{CF_}::calc_extend_h')
    if b:
        EN = '(itervar (call Iterator::enumerate (param i_bound)))'
        N = '(field 0 (call Mat::shape (param uvb)))'
        PREV = f'(call Mat::index (param uvb) (agg tuple (0 (rem (sub (add {N} (field 0 {EN})) 1) {N})) (1 0)))'
        NEXT = f'(call Mat::index (param uvb) (agg tuple (0 (rem (add 1 (field 0 {EN})) {N})) (1 0)))'
        st = [m_ for m_ in b.mutations() if m_.kind == 'store' and m_.elem]
        ok = len(st) == 1
        if ok:
            dag = b.dag()
            tgt = simplify(dag.local(st[0].data['pl']['l'], st[0].bb, st[0].idx))
            val = simplify(dag.rvalue(st[0].data['rv'], st[0].bb, st[0].idx))
            ok = match(f'(call Mat::index_mut _ (agg tuple (0 (field 1 {EN})) (1 0)))', tgt) is not None and match(f'(mul 0.5 (sub {PREV} {NEXT}))', val) is not None
        cx.ob('EXPR', 'calc_extend_h:central-difference', ok,
              'h at boundary vertex k is 0.5 * (u[k-1] - u[k+1]) with cyclic neighbours, in THIS order (extend_curve negates it: the other order mirrors every flattening - lengths survive, orientation flips)',
              where=b.file)


def run(cx):
    boundary_table_rules(cx)
    shape_uv_in_step_rule(cx)
    # the flattening consumes the edge tables of identify_edges: manifold guard, boundary-map entries, face_edges order (rule shared with C12)
    from rules.C12 import identify_edges_rules, boundary_loops_rules
    identify_edges_rules(cx)
    boundary_loops_rules(cx)
    b = cx.fn('geom3::mesh::edges::MeshEdges::boundary_first_flatten')
    if b:
        GUARD = '(eq 1 (len (field boundary_loops (param self))))'
        errs = [(s, d) for s, d in cx.rets(b) if d[0] == 'agg' and d[1].endswith('Result::Err')]
        oke = len(errs) == 1 and cx.guarded(b, errs[0][0].bb, GUARD, False) is not None
        cx.ob('GUARD', 'boundary_first_flatten:reject', oke, 'a mesh whose boundary is not exactly one loop is rejected with Err', where=b.file)
        n = 0
        okc = True
        for s in b.calls('*'):
            name, raw = b.callee(s.data)
            if name.startswith(CF) or name.startswith(('SparseColMat::', 'Mat::', 'Solve::')):
                n += 1
                if cx.guarded(b, s.bb, GUARD, True) is None:
                    okc = False
        cx.ob('GUARD', 'boundary_first_flatten:solver-after-check', okc and n >= 10, f'all {n} flattening / solver routines run only after the single-boundary check passed', where=b.file)
        # the boundary used is loop 0 of the checked list, interior = complement
        iv = b.calls(f'{CF}::inner_vertices')
        cx.ob('EXPR', 'boundary_first_flatten:boundary', len(iv) == 1 and match('(index (field boundary_loops (param self)) 0)', cx.arg(iv[0], 1)) is not None,
              'the boundary handed on is boundary_loops[0] of the same edge structure', where=b.file)
    b = cx.fn(f'{CF}::inner_vertices')
    if b:
        r = cx.retval(b)
        ok = find('(call Iterator::filter (agg *Range (start 0) (end (len (call *MeshEdges::vertices (param mesh))))) (closure * _))', r) is not None
        for cl in cx.facts.closures_of(b.name):
            ok = ok and match('(not (call HashSet::contains (field _ (param 1)) (param 2)))', cx.retval(cl)) is not None
        cx.ob('EXPR', 'inner_vertices', ok, 'inner vertices = all vertex ids that are not in the boundary set', where=b.file)
    # ---------------------------------------------------------------- face angles: law of cosines with the right opposite side
    b = cx.fn(f'{CF}::calc_face_angles')
    if b:
        pushes = b.calls('Vec::push')
        al = None
        if len(pushes) == 1:
            al = cx.arg_alts(pushes[0], 1)
        elif not pushes:
            # the same per-face alternatives as the body of `face_edges.iter().map(|face_indices| ..).collect()`: the closure's return alternatives, with the
            # closure's item read as the running element of face_edges and its capture of the mesh as the parameter
            from vpa import inline as INF
            r0 = cx.retval(b)
            em = find('(call Iterator::map (field face_edges (param mesh)) $cl)', r0)
            cl = cx.closure_body(em[1]['cl'][1]) if em is not None and em[1]['cl'][0] == 'closure' else None
            if cl is not None and cl.exits():
                def sub(n):
                    if n[0] == 'param' and n[1] == 2:
                        return ('itervar', ('field', 'face_edges', ('param', 1, 'mesh')))
                    if n[0] == 'field' and len(n) == 3 and str(n[1]).startswith('cap:') and n[2][0] == 'param' and n[2][1] == 1:
                        return ('param', 1, 'mesh')
                    return None
                ex = cl.exits()[0]
                al = [(bb_, simplify(INF.subst(dv_, sub)), [(simplify(INF.subst(a_, sub)), p_) for a_, p_ in g_])
                      for (bb_, dv_, g_) in cx.alts(cl, {'k': 'copy', 'pl': {'l': 0, 'p': []}}, ex, len(cl.blocks[ex]['stmts']) + 1)]
        ok = al is not None
        if ok:
            gen = [dv for _, dv, g in al if find('(call f64::acos _)', dv) is not None]
            ok = len(gen) == 1 and len(al) == 4
            if ok:
                LP = lambda k: f'(index (field edge_lengths (param mesh)) (index (itervar (field face_edges (param mesh))) {k}))'
                Ls = [find(LP(k), gen[0]) for k in range(3)]
                e = match('(agg array (0 (call f64::acos $a0)) (1 (call f64::acos $a1)) (2 (call f64::acos $a2)))', gen[0])
                ok = e is not None and all(x is not None for x in Ls)
                if ok:
                    L = [x[0] for x in Ls]
                    sq = lambda x: ('mul', x, x)
                    for j in range(3):
                        o1, o2 = [k for k in range(3) if k != j]
                        ref = ('div', ('sub', ('add', sq(L[o1]), sq(L[o2])), sq(L[j])), ('mul', ('mul', ('const', 2.0), L[o1]), L[o2]))
                        ok = ok and rat_equal(e[f'a{j}'], ref)
        # the generic (law of cosines) alternative is reached exactly when no side is STRICTLY longer than the other two together: a tolerance
        # on that test turns a valid flat triangle into a (pi, 0, 0) face whose cotangents are infinite
        okg = False
        if al is not None:
            gen = [(dv, g) for _, dv, g in al if find('(call f64::acos _)', dv) is not None]
            if len(gen) == 1:
                LPk = lambda k: f'(index (field edge_lengths (param mesh)) (index (itervar (field face_edges (param mesh))) {k}))'
                tests = [g_ for g_ in gen[0][1] if g_[0][0] in ('lt', 'le', 'gt', 'ge')]
                want = 0
                for j in range(3):
                    o1, o2 = [k for k in range(3) if k != j]
                    want += sum(1 for a_, p_ in tests if not p_ and match(f'(lt (add {LPk(o1)} {LPk(o2)}) {LPk(j)})', a_) is not None)
                okg = want == 3 and len(tests) == 3
        cx.ob('GUARD', 'calc_face_angles:degenerate-test', okg,
              'a face is treated as degenerate exactly when one side is strictly longer than the sum of the other two (l_j > l_a + l_b, no tolerance): every valid triangle, however flat, goes through the law of cosines',
              where=b.file)
        cx.ob('EXPR', 'calc_face_angles:law-of-cosines', ok,
              'angle j = acos((l_a^2 + l_b^2 - l_j^2) / (2 l_a l_b)) with l_j the length of face_edges[j] (the edge opposite vertex j) and a, b the other two', where=b.file)
    b = cx.fn(f'{CF}::calc_angle_defects')
    if b:
        dag = b.dag()
        st = [m for m in b.mutations() if m.kind == 'store' and m.elem]
        seen = {}
        okb = False
        for m in st:
            tgt = simplify(dag.local(m.data['pl']['l'], m.bb, m.idx))
            val = simplify(dag.rvalue(m.data['rv'], m.bb, m.idx))
            e = match('(sub _ (index (field 1 (itervar (call Iterator::zip (param faces) (param face_angles)))) $j))', val)
            t = match('(index _ (index (field 0 (itervar (call Iterator::zip (param faces) (param face_angles)))) $j))', tgt)
            if e and t and e['j'] == t['j']:
                seen[e['j'][1]] = True
            # the same pairing written as an inner loop over face.iter().zip(angles.iter()): corner j of the face with angle j, for every j
            Z = '(itervar (call Iterator::zip (field 0 (itervar (call Iterator::zip (param faces) (param face_angles)))) (field 1 (itervar (call Iterator::zip (param faces) (param face_angles))))))'
            if match(f'(sub _ (field 1 {Z}))', val) is not None and (match(f'(index _ (field 0 {Z}))', tgt) is not None or match(f'(index _ (cast _ (field 0 {Z})))', tgt) is not None):
                seen.update({0: True, 1: True, 2: True})
            if match('(index _ (itervar (param i_bound)))', tgt) and val == ('const', 3.141592653589793):
                okb = True
        init = find('(call vec::from_elem 6.283185307179586 (param 1))', cx.retval(b)) is not None
        cx.ob('EXPR', 'calc_angle_defects', seen == {0: True, 1: True, 2: True} and okb and init,
              'defects start at 2pi (pi on boundary vertices) and angle j of every face is subtracted at vertex face[j], j = 0,1,2', where=b.file, found=str(seen))
    b = cx.fn(f'{CF}::cotan_laplacian_triplets')
    if b:
        dag = b.dag()
        cot_ok = False
        for cl in cx.facts.closures_of(b.name):
            r = cx.retval(cl)
            if match('(agg array (0 (div 1.0 (call f64::tan (index (param angles) 0)))) (1 (div 1.0 (call f64::tan (index (param angles) 1)))) (2 (div 1.0 (call f64::tan (index (param angles) 2)))))', r) is not None:
                cot_ok = True
        st = [m for m in b.mutations() if m.kind == 'store' and m.elem]
        edge_acc = half = False
        diag = set()
        roots = {}      # the two accumulators are told apart by what is stored in them, not by their names
        for m in st:
            tgt = simplify(dag.local(m.data['pl']['l'], m.bb, m.idx))
            val = simplify(dag.rvalue(m.data['rv'], m.bb, m.idx))
            nm = b.local_name(m.root)
            e = match('(add _ (index (field 1 $pair) (field 0 $en)))', val)
            t = match('(index _ (field 1 $en))', tgt)
            if e and t and e['en'] == t['en'] and find('(call Iterator::enumerate _)', e['en']) is not None and find('(call Iterator::zip (param face_edges) _)', e['pair']) is not None:
                edge_acc = True
                roots.setdefault('values', set()).add(m.root)
            # the same accumulation with the cotangent table fused into the loop: `for (&edge, &angle) in face.iter().zip(angles.iter()) { values[edge] += 1/tan(angle) }`
            ZZ = '(itervar (call Iterator::zip (field 0 (itervar (call Iterator::zip (param face_edges) (param face_angles)))) (field 1 (itervar (call Iterator::zip (param face_edges) (param face_angles))))))'
            if match(f'(add _ (div 1.0 (call f64::tan (field 1 {ZZ}))))', val) is not None and \
                    (match(f'(index _ (field 0 {ZZ}))', tgt) is not None or match(f'(index _ (cast _ (field 0 {ZZ})))', tgt) is not None):
                edge_acc = cot_ok = True
                roots.setdefault('values', set()).add(m.root)
            if match('(mul 0.5 _)', val) is not None:
                half = True
                roots.setdefault('values', set()).add(m.root)
            d = match('(index _ (index (field 0 (itervar (call Iterator::zip (param edges) _))) $k))', tgt)
            if d and match('(add _ (field 1 (itervar (call Iterator::zip (param edges) _))))', val) is not None:
                diag.add(d['k'][1])
                roots.setdefault('diagonals', set()).add(m.root)
        trip = [cx.call(s) for s in b.calls('Triplet::new')]
        off = [t for t in trip if match('(call Triplet::new (index $e $a) (index $e $b) (neg _))', t) is not None]
        sym = set()
        for t in off:
            e = match('(call Triplet::new (index $e $a) (index $e $b) (neg _))', t)
            sym.add((e['a'][1], e['b'][1]))
        distinct = len(roots.get('values', ())) == 1 and len(roots.get('diagonals', ())) == 1 and roots['values'] != roots['diagonals']
        cx.ob('EXPR', 'cotan_laplacian_triplets', cot_ok and edge_acc and half and distinct and diag == {0, 1} and sym == {(0, 1), (1, 0)},
              'cot(angle j) is added to face_edges[j] (same j), the sums are halved, each edge weight is added to the diagonal of BOTH end vertices, and -w is emitted at (e0,e1) and (e1,e0)',
              where=b.file, found=f'cot={cot_ok} edge={edge_acc} half={half} diag={sorted(diag)} offdiag={sorted(sym)}')
    # ---------------------------------------------------------------- extension of the boundary layout into the interior (x coordinates)
    b = cx.fn(f'{CF}::calc_extend_uv_xs')
    if b:
        from vpa import term as T
        okx, why = T.exhaustive_loops(cx, b)
        ex = b.exits()
        lps = b.loops()
        ok_all = len(ex) == 1 and len(lps) == 2 and all(b.dominates(h, ex[0]) for h, _, _ in lps)
        dag = b.dag()
        kinds = set()
        for m in b.mutations():
            if m.kind != 'store' or m.root not in cx.returned_locals(b):
                continue
            tgt = simplify(dag.local(m.data['pl']['l'], m.bb, m.idx))
            val = simplify(dag.rvalue(m.data['rv'], m.bb, m.idx))
            e = match('(call Mat::index_mut _ (agg tuple (0 (cast _ (field 0 (itervar (call Iterator::zip $ids $vals))))) (1 0)))', tgt) or \
                match('(call Mat::index_mut _ (agg tuple (0 (field 0 (itervar (call Iterator::zip $ids $vals)))) (1 0)))', tgt)
            if e is None or match('(field 1 (itervar (call Iterator::zip $ids $vals)))', val, e) is None:
                continue
            if match('(param i_bound)', e['ids']) is not None and find('(param uvb)', e['vals']) is not None:
                kinds.add('boundary')
            if match('(param i_inner)', e['ids']) is not None and find('(call *::solve (param aii_lu) _)', e['vals']) is not None:
                kinds.add('inner')
        cx.ob('ORDER', 'calc_extend_uv_xs:every-vertex', okx and ok_all and kinds == {'boundary', 'inner'},
              'the single return is reached only after BOTH copy loops (no early exit): every boundary vertex gets its x from the boundary layout and every inner vertex its x from the '
              'interior solve, row = the vertex id paired with the value by zip', where=b.file, found=f'exits={len(ex)} loops={len(lps)} stores={sorted(kinds)} ' + '; '.join(why))
    # ---------------------------------------------------------------- the 2x2 inverse used by the boundary fit
    b = cx.fn(f'{CF}::invert_2x2')
    if b:
        Mx = lambda r, c: ('call', 'Mat::index', ('param', 1, 'm'), ('agg', 'tuple', ('0', ('const', r)), ('1', ('const', c))))
        ent = {}
        for (r, c) in ((0, 0), (0, 1), (1, 0), (1, 1)):
            f_ = find(f'(call Mat::index (param m) (agg tuple (0 {r}) (1 {c})))', cx.retval(b))
            ent[(r, c)] = f_[0] if f_ else None
        okm = all(v is not None for v in ent.values())
        okg = oka = False
        if okm:
            det = ('sub', ('mul', ent[(0, 0)], ent[(1, 1)]), ('mul', ent[(0, 1)], ent[(1, 0)]))
            errs = [(s_, d) for s_, d in cx.rets(b) if d[0] == 'agg' and d[1].endswith('Result::Err')]
            oks = [(s_, d) for s_, d in cx.rets(b) if d[0] == 'agg' and d[1].endswith('Result::Ok')]
            # singular <=> det == 0 exactly: an absolute threshold on a determinant (which scales with length^2 here) rejects small meshes
            def det_lits(bb):
                out = []
                for a, pol in cx.guards(b, bb):
                    e = match('(eq 0.0 $d)', a) or match('(eq $d 0.0)', a)
                    if e is not None and rat_equal(e['d'], det):
                        out.append(pol)
                return out
            sing = [s_ for s_, d in errs if find("'\"Matrix is singular\"'", d) is not None] or errs[-1:]
            okg = len(oks) == 1 and len(errs) == 2 and det_lits(oks[0][0].bb) == [False] and any(det_lits(s_.bb) == [True] for s_, _ in errs) and \
                all(not (find('(call f64::abs _)', a) or find('(lt _ _)', a)) for a, _ in cx.guards(b, oks[0][0].bb))
            # entries: result[(i,j)] = adj(i,j) / det
            dag = b.dag()
            adj = {(0, 0): ent[(1, 1)], (0, 1): ('neg', ent[(0, 1)]), (1, 0): ('neg', ent[(1, 0)]), (1, 1): ent[(0, 0)]}
            got = {}
            for m_ in b.mutations():
                if m_.kind != 'store':
                    continue
                tgt = simplify(dag.local(m_.data['pl']['l'], m_.bb, m_.idx))
                e = match('(call Mat::index_mut _ (agg tuple (0 $r) (1 $c)))', tgt)
                if e is None or e['r'][0] != 'const' or e['c'][0] != 'const':
                    continue
                val = simplify(dag.rvalue(m_.data['rv'], m_.bb, m_.idx))
                got[(e['r'][1], e['c'][1])] = rat_equal(val, ('div', adj[(e['r'][1], e['c'][1])], det))
            oka = got == {k: True for k in adj}
        cx.ob('GUARD', 'invert_2x2:singular', okm and okg,
              'invert_2x2 fails exactly when the determinant m00*m11 - m01*m10 is zero (no absolute threshold: the determinant scales with the square of the mesh size)', where=b.file)
        cx.ob('ALGEBRA', 'invert_2x2:adjugate', okm and oka, 'result = adjugate / det entry by entry: [[m11, -m01], [-m10, m00]] / det', where=b.file)
    # ---------------------------------------------------------------- UV wiring
    UV = 'geom3::mesh::uv_mapping::UvMapping'
    b = cx.fn(f'{UV}::new')
    if b:
        r = cx.retval(b)
        cx.ob('GUARD', 'UvMapping::new', match('(phi (agg *Result::Ok (0 (agg * (tri_map (unwrap (call TriMesh::new (param vertices) (param faces))))))) (residual _))', r) is not None,
              'an invalid UV triangulation is an error (TriMesh::new errors are propagated)', where=b.file, found=r)
    uv_lookup_rules(cx)
    b = cx.fn('geom3::mesh::Mesh::uv_to_3d')
    if b:
        r = cx.retval(b)
        LK = '(unwrap (call *UvMapping::triangle (unwrap (call *Mesh::uv (param self))) (param uv)))'
        T = f'(call TriMesh::triangle (field shape (param self)) (field 0 {LK}))'
        sums = [d for d in subterms(r) if isinstance(d, tuple) and d and d[0] == 'call' and d[1] == 'Matrix::add']
        okb = any(_bary_ok(t, T, f'(field 1 {LK})') for t in (_bary_terms(d) for d in sums) if t is not None)
        ok = okb and find(f'(call Triangle::normal {T})', r) is not None
        cx.ob('EXPR', 'Mesh::uv_to_3d', ok, '3D point = a*bc[0] + b*bc[1] + c*bc[2] on the MESH triangle with the id the UV lookup returned, same barycentric order as UvMapping::point, normal of that triangle', where=b.file)
    uv_with_tol_rule(cx)
