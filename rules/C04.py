"""C04 Curve portions, splits, trims and reversal conserve length and endpoints - structural clauses."""
from vpa import evaluators as E
from vpa import term as T
from vpa.core import show, Site, simplify, subterms
from vpa.pattern import match, find

EXPLANATION = """Structural obligations behind C04: (EXPR) trims and splits are compositions of between_lengths whose pieces meet at one
value: trim_front(l) = between(l, length()), trim_back(l) = between(0, length()-l), split_open(l) = (between(0,l), between(l,length())),
split_closed(a,b) = (between(a,b), between(b,a)); each split errors out on the wrong closedness; (GUARD) between_lengths returns
Some only when both at_length lookups succeeded, |l1-l0| < tol is false and (open and wrapped) is false; the first pushed point is
the start station's point, the end point is appended only under dist(end,last) > tol, the result is rebuilt with self.tol and
never force-closed; last_index is count-2 on a closed curve (the duplicated closing vertex is never emitted twice) and count-1
otherwise; (TERM) every cycle of the vertex walk either advances to at_vertex(index+1) under index+1 <= last_index or clears the
one-shot wrap flag under wrap; between_lengths_by_control returns None beyond the curve and calls between with (min,max) resp.
(max,min) of the SAME a,b under the stated conditions; reversed reverses the points once with the same tolerance.
(GUARD) the walk of between_lengths has exactly two ways out: past last_index, or at-or-before the end station (<=) with the next vertex beyond its
edge; the stations it is cut at come from at_length (rules shared with C01: exact vertex hit = that vertex, else the segment before the insertion point). Round 5: CurveStation2::length_along = L[i] + (L[i+1]-L[i])*f on every path (shared with C01): the seam station of a closed curve reports L, not 0."""
NOT_DECIDED = "that the walk's stop conditions are the right ones for stations exactly on vertices / the seam / the last edge (they are pinned as found), length conservation, chains of portioning (value-level)"
ASSUMPTIONS = ["at_vertex(k) reports index k for every k below the last vertex (C01), so `index + 1` strictly increases along the walk"]

C = 'geom2::curve2::Curve2'


def run(cx):
    # ---------------------------------------------------------------- compositions
    from rules.C01 import length_along_rule
    length_along_rule(cx, 'geom2::curve2::CurveStation2', 'Curve2', 'CurveStation2')
    b = cx.fn(f'{C}::trim_front')
    if b:
        cx.expect('EXPR', 'trim_front', cx.retval(b), '(call *between_lengths (param self) (param length) (call *Curve2::length (param self)))', 'trim_front(l) = between_lengths(l, length())', where=b.file)
    b = cx.fn(f'{C}::trim_back')
    if b:
        cx.expect('EXPR', 'trim_back', cx.retval(b), '(call *between_lengths (param self) 0.0 (sub (call *Curve2::length (param self)) (param length)))', 'trim_back(l) = between_lengths(0, length() - l)', where=b.file)
    b = cx.fn(f'{C}::split_open_at_length')
    if b:
        calls = b.calls(f'{C}::between_lengths')
        args = [(cx.arg(s, 1), cx.arg(s, 2)) for s in calls]
        ok = len(args) == 2 and match('0.0', args[0][0]) is not None and match('(param length)', args[0][1]) is not None and \
            match('(param length)', args[1][0]) is not None and match('(call *Curve2::length (param self))', args[1][1]) is not None
        cx.ob('EXPR', 'split_open_at_length:pieces', ok, 'pieces are between(0, l) and between(l, length()): the second starts where the first ends', where=b.file,
              found='; '.join(f'({show(a)}, {show(c)})' for a, c in args))
        for s in calls:
            cx.ob('GUARD', 'split_open_at_length:open-only', cx.guarded(b, s.bb, '(self is_closed)', False) is not None, 'a closed curve is rejected before anything is extracted', where=s)
        r = cx.retval(b)
        e = find('(agg *Result::Ok (0 (agg tuple (0 (unwrap (call Option::ok_or (call *between_lengths (param self) 0.0 _) _))) (1 (unwrap (call Option::ok_or (call *between_lengths (param self) (param length) _) _))))))', r)
        cx.ob('EXPR', 'split_open_at_length:order', e is not None, 'the pair is returned as (front piece, back piece); a missing piece is an error', where=b.file)
    b = cx.fn(f'{C}::split_closed_at_lengths')
    if b:
        calls = b.calls(f'{C}::between_lengths')
        args = [(cx.arg(s, 1), cx.arg(s, 2)) for s in calls]
        ok = len(args) == 2 and args[0] == (('param', 2, 'length0'), ('param', 3, 'length1')) and args[1] == (('param', 3, 'length1'), ('param', 2, 'length0'))
        cx.ob('EXPR', 'split_closed_at_lengths:pieces', ok, 'pieces are between(a, b) and between(b, a): together they go once around', where=b.file,
              found='; '.join(f'({show(a)}, {show(c)})' for a, c in args))
        for s in calls:
            cx.ob('GUARD', 'split_closed_at_lengths:closed-only', cx.guarded(b, s.bb, '(self is_closed)', True) is not None, 'an open curve is rejected before anything is extracted', where=s)
    b = cx.fn(f'{C}::reversed')
    if b:
        cx.expect('EXPR', 'reversed', cx.retval(b), '(unwrap (call *Curve2::from_points (mut slice::reverse . (call *Curve2::clone_points (param self))) (self tol) false))',
                  'reversed = from_points(own points reversed once, same tol)', where=b.file)
    b = cx.fn(f'{C}::clone_points')
    if b:
        cx.expect('EXPR', 'clone_points', cx.retval(b), '(call Polyline::vertices (field line (param self)))', 'clone_points copies the stored vertices', where=b.file)

    # every portion is rebuilt through Curve2::from_points, and every portioning decision reads the flag it computes (rule shared with C01)
    bf = cx.fn(f'{C}::from_points')
    if bf:
        from rules.C01 import curve2_closedness_rules
        curve2_closedness_rules(cx, bf, bf.aggregates('geom2::curve2::Curve2'))
    # every portion is cut at stations found by at_length: an exact vertex hit is that vertex, otherwise the segment before the insertion point (rule shared with C01)
    from rules.C01 import at_length_rules
    at_length_rules(cx, C, 'Curve2', 'CurveStation2')
    # ---------------------------------------------------------------- between_lengths
    b = cx.fn(f'{C}::between_lengths')
    if b:
        START = '(unwrap (call *Curve2::at_length (param self) (param l0)))'
        END = '(unwrap (call *Curve2::at_length (param self) (param l1)))'
        WRAP = f'(lt (call *length_along {END}) (call *length_along {START}))'
        somes = [(s, d) for s, d in cx.rets(b) if d[0] == 'agg' and d[1].endswith('Option::Some')]
        cx.ob('GUARD', 'between_lengths:shape', len(somes) == 1, 'between_lengths has a single Some exit', found=str(len(somes)))
        for s, d in somes:
            g_ok0 = cx.guarded(b, s.bb, '(ok (call *Curve2::at_length (param self) (param l0)))', True)
            g_ok1 = cx.guarded(b, s.bb, '(ok (call *Curve2::at_length (param self) (param l1)))', True)
            g_tol = cx.guarded(b, s.bb, '(lt (call f64::abs (sub (param l1) (param l0))) (self tol))', False)
            ok_wrap, off = cx.all_paths(b, s.bb, lambda has: has('(self is_closed)', True) or has(WRAP, False))
            cx.ob('GUARD', 'between_lengths:ill-posed', g_ok0 is not None and g_ok1 is not None and g_tol is not None and ok_wrap,
                  'a piece is produced only if both stations exist (lengths in range), |l1-l0| >= tol, and the request does not run backwards on an open curve',
                  where=s, found='; '.join(cx.show_guards(b, s.bb))[:500])
            e = match('(agg * (0 (unwrap (call *Curve2::from_points $pts (self tol) false))))', d)
            cx.ob('EXPR', 'between_lengths:rebuild', e is not None, 'the piece is rebuilt with the source tolerance and is never force-closed', where=s, found=d)
        # pushes: loop push = working.point starting from the start station; end point appended under dist > tol
        pushes = b.calls('Vec::push')
        loops = b.loops()
        inloop = [s for s in pushes if loops and s.bb in loops[0][1]]
        after = [s for s in pushes if not loops or s.bb not in loops[0][1]]
        ok1 = len(inloop) == 1 and match(f'(phi (field point (loop)) (field point {START}))', cx.arg(inloop[0], 1)) is not None
        cx.ob('EXPR', 'between_lengths:first-point', ok1, 'the first point emitted is the start station, afterwards the working station of each cycle', where=inloop[0] if inloop else b.file,
              found=cx.arg(inloop[0], 1) if inloop else None)
        ok2 = len(after) == 1 and match(f'(field point {END})', cx.arg(after[0], 1)) is not None and \
            cx.guarded(b, after[0].bb, f'(lt (self tol) (call *points::dist (field point {END}) (unwrap (call slice::last _))))', True) is not None
        cx.ob('GUARD', 'between_lengths:end-point', ok2, 'the end station is appended exactly when it is farther than tol from the last emitted point', where=after[0] if after else b.file)
        # last_index
        li = cx.locals_by_def(b, '(sub (call *Curve2::count (param self)) 2)')       # found by role (closed-curve value), not by name
        okli = False
        if li and loops:
            h = loops[0][0]
            al = cx.alts(b, {'k': 'copy', 'pl': {'l': li[0], 'p': []}}, h, 0)
            okli = len(al) == 2
            for (bb, dv, g) in al:
                cl_t = any(p and show(a) == '(field is_closed (param self))' for a, p in g)
                cl_f = any((not p) and show(a) == '(field is_closed (param self))' for a, p in g)
                okli = okli and ((cl_t and match('(sub (call *Curve2::count (param self)) 2)', dv) is not None) or
                                 (cl_f and match('(sub (call *Curve2::count (param self)) 1)', dv) is not None))
        cx.ob('GUARD', 'between_lengths:last_index', okli, 'last_index = count-2 on a closed curve (closing vertex not emitted twice), count-1 on an open one', where=b.file)
        # TERM (special idiom): each back-edge path advances the index or clears the one-shot flag
        if loops:
            h, blocks, backs = loops[0]
            # found by role, not by name: the walking station starts at the start station and is re-assigned in the loop; the one-shot flag is
            # initialised from `end.length_along() < start.length_along()` and written in the loop
            wk = [l for l in cx.locals_by_def(b, START) if any(d[0] in blocks for d in b.defs().get(l, []))]
            wr = [l for l in cx.locals_by_def(b, WRAP) if any(d[0] in blocks for d in b.defs().get(l, []))]
            ok_t = bool(wk and wr) and len(loops) == 1
            kinds = set()
            if ok_t:
                NEXT = '(add 1 (phi (field index (loop)) (field index %s)))' % START
                for (bb, pos, kind, payload) in b.defs().get(wk[0], []):
                    if bb not in blocks:
                        continue
                    v = simplify(b.dag().defdag(wk[0], (bb, pos, kind, payload)))
                    if match(f'(call *Curve2::at_vertex (param self) {NEXT})', v):
                        kinds.add('advance')
                        ok_t = ok_t and cx.guarded(b, bb, f'(lt $li {NEXT})', False) is not None
                    elif match('(call *Curve2::at_front (param self))', v):
                        kinds.add('wrap')
                        # guarded by wrap true, and wrap is cleared in the same straight-line region
                        gw = any(p and (a[0] == 'phi' or a[0] == 'lt' or a[0] == 'loop') for a, p in cx.guards(b, bb))
                        cleared = any(d2[0] in blocks and b.regions().get(d2[0]) == b.regions().get(bb) and
                                      simplify(b.dag().defdag(wr[0], d2)) == ('const', False) for d2 in b.defs().get(wr[0], []) if d2[0] in blocks)
                        ok_t = ok_t and gw and cleared
                    else:
                        ok_t = False
                # wrap is never set to true inside the loop
                for d2 in b.defs().get(wr[0], []):
                    if d2[0] in blocks and simplify(b.dag().defdag(wr[0], d2)) != ('const', False):
                        ok_t = False
            # the two ways out of the walk, and no other: past the last index (end of the curve), or - still at or before the end station -
            # when the next vertex lies beyond the end station's segment
            NEXT1 = '(add 1 (phi (field index (loop)) (field index %s)))' % START
            OVER = f'(lt (has (call *Curve2::count (param self))) {NEXT1})'
            BEFORE = f'(le (call *length_along (phi (loop) {START})) (call *length_along {END}))'
            PAST = f'(lt (field index {END}) {NEXT1})'
            exits = sorted({t for bi in blocks for t in b.succ[bi] if t not in blocks and t in b.reachable()})
            xk = []
            for t in exits:
                o1, _ = cx.all_paths(b, t, lambda has: has(OVER, True))
                o2, _ = cx.all_paths(b, t, lambda has: has(OVER, False) and has(BEFORE, True) and has(PAST, True))
                xk.append('end-of-curve' if o1 else 'reached-end-station' if o2 else 'other')
            cx.ob('GUARD', 'between_lengths:stop', sorted(xk) == ['end-of-curve', 'reached-end-station'],
                  'the walk stops exactly when the next index passes last_index, or when the walker is at or before the end station (length_along <=, equality included: '
                  'a walker standing exactly on the end station stops) and the next vertex lies beyond the end station\'s edge', where=b.file, found=str(xk))
            cx.ob('TERM', 'between_lengths:walk', ok_t and kinds == {'advance', 'wrap'},
                  'every cycle of the walk either moves to at_vertex(index+1) under index+1 <= last_index, or clears the one-shot wrap flag (under wrap) and restarts at the front',
                  where=b.file, found=str(sorted(kinds)))
    # ---------------------------------------------------------------- between_lengths_by_control
    b = cx.fn(f'{C}::between_lengths_by_control')
    if b:
        LO, HI = '(call f64::min (param a) (param b))', '(call f64::max (param a) (param b))'
        calls = b.calls(f'{C}::between_lengths')
        seen = set()
        ok = len(calls) == 2
        for s in calls:
            a0, a1 = cx.arg(s, 1), cx.arg(s, 2)
            g_in = cx.guarded(b, s.bb, '(lt (call *Curve2::length (param self)) (param control))', False) is not None
            if match(LO, a0) and match(HI, a1):
                seen.add('inside')
                ok = ok and g_in and cx.guarded(b, s.bb, f'(lt {LO} (param control))', True) is not None and cx.guarded(b, s.bb, f'(lt (param control) {HI})', True) is not None
            elif match(HI, a0) and match(LO, a1):
                seen.add('outside')
                o2, _ = cx.all_paths(b, s.bb, lambda has: has(f'(lt (param control) {LO})', True) or (has(f'(lt {HI} (param control))', True) and has('(self is_closed)', True)))
                ok = ok and g_in and o2
            else:
                ok = False
        cx.ob('GUARD', 'between_lengths_by_control', ok and seen == {'inside', 'outside'},
              'control inside (min,max) selects between(min,max); control outside selects the wrapped piece between(max,min); both use min/max of the SAME a,b; control beyond the curve gives None',
              where=b.file, found=str(sorted(seen)))
        nones = [s for s, d in cx.rets(b) if d[0] == 'agg' and d[1].endswith('Option::None')]
        cx.ob('GUARD', 'between_lengths_by_control:none', any(cx.guarded(b, s.bb, '(lt (call *Curve2::length (param self)) (param control))', True) is not None for s in nones),
              'a control position beyond the curve length yields None', where=b.file)
    # PARAMUSE
    for fn, ps in ((f'{C}::between_lengths', ('l0', 'l1')), (f'{C}::between_lengths_by_control', ('a', 'b', 'control'))):
        b = cx.fn(fn)
        if b:
            for pn in ps:
                i = cx.pidx(b, pn)
                ok, how = E.param_influences(b, i) if i else (False, 'missing')
                cx.ob('PARAMUSE', f'{fn.split("::")[-1]}:{pn}', ok, f'{fn.split("::")[-1]} depends on `{pn}` ({how})', where=b.file)
