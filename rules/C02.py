"""C02 Closest-point and distance queries return the global optimum - structural clauses (wrapper coherence only)."""
from vpa import evaluators as E
from vpa.core import show, Site, simplify, subterms
from vpa.pattern import match, find

EXPLANATION = """Structural obligations behind C02 (coherence of the wrappers around parry's projection; the search itself is a dependency):
curve queries project with solid = false, mesh queries with self.is_solid; the returned point is the projection's point; the
reported distance is dist(projection.point, query) on both arguments; the station index, the dir_of_edge argument and the
barycentric location all come from the SAME projection call, the fraction being barycentric_coordinates()[1] (weight of the
edge's second vertex) in 2D and 3D alike; the surface normal is the normal of the triangle whose id that same projection
returned; max_dist reaches parry's cap argument; project_with_tol applies the optional transform to the query exactly once,
accepts exactly under angle < max or angle > PI - max of normal.angle(query - projection), and indices_in_tol pushes i exactly
under project_with_tol(points[i]).is_some(). Round 5: the cumulative-length table of from_points (running sum over the STORED vertices; shared with C01) - length_along of a closest point is read from it."""
NOT_DECIDED = "that parry's BVH search returns the global optimum (dependency), ties, degenerate triangles (normal().unwrap() may panic)"
ASSUMPTIONS = ["parry: project_local_point_and_get_location returns (projection, (feature id, location))"]


def project_with_tol_rules(cx):
    """shared with C03: the optional transform moves the query once, and acceptance is judged from that moved query"""
    M = 'geom3::mesh::Mesh'
    b = cx.fn(f'{M}::project_with_tol')
    if b:
        calls = b.calls('TriMesh::project_local_point_and_get_location_with_max_dist')
        ok = len(calls) == 1
        q = None
        if ok:
            s = calls[0]
            q = cx.arg(s, 1)
            ok = match('(phi (param point) (call Isometry::mul (unwrap (param transform)) (param point)))', q) is not None and \
                match('(field is_solid (param self))', cx.arg(s, 2)) is not None and match('(param max_dist)', cx.arg(s, 3)) is not None
        cx.ob('EXPR', 'Mesh::project_with_tol:query', ok, 'the optional transform is applied to the query exactly once; solid flag and cap are forwarded', where=b.file, found=q)
        somes = [(s, d) for s, d in cx.rets(b) if d[0] == 'agg' and d[1].endswith('Option::Some')]
        nones = [(s, d) for s, d in cx.rets(b) if d[0] == 'agg' and d[1].endswith('Option::None')]
        ANG = '(call f64::abs (call *::angle (unwrap (call Triangle::normal (call TriMesh::triangle (field shape (param self)) $id))) (call OPoint::sub $q (field point $prj))))'
        oka = len(somes) == 1
        if oka:
            s, d = somes[0]
            e = match('(agg * (0 (agg tuple (0 $prj) (1 $id) (2 $loc))))', d)
            oka = e is not None and q is not None
            if oka:
                e = dict(e)
                e['q'] = q          # the offset is measured from the SAME (once transformed) query that was projected

                ok2, off = cx.all_paths(b, s.bb, lambda has: has(f'(lt {ANG} (param max_angle))', True, e) or has(f'(lt (sub PI (param max_angle)) {ANG})', True, e))
                oka = ok2
        cx.ob('GUARD', 'Mesh::project_with_tol:accept', oka,
              'a result is accepted only under angle < max_angle or angle > PI - max_angle, the angle being |normal(face id).angle(query - projection)| with the SAME query that was projected and the SAME projection', where=b.file)
        # rejection only outside: every None is under no-projection, no-normal, or both angle tests false
        okn = True
        for s, d in nones:
            o, _ = cx.all_paths(b, s.bb, lambda has: has('(is _ None)', True) or (has('(lt _ (param max_angle))', False) and has('(lt (sub PI (param max_angle)) _)', False)))
            okn = okn and o
        cx.ob('GUARD', 'Mesh::project_with_tol:reject', okn and len(nones) >= 1, 'None is returned only when there is no projection/normal or both angle tests fail', where=b.file)


def project_with_max_dist_rule(cx):
    """shared with C14: near_mesh decides "near" by this capped projection - it must be parry's answer on every path (no pre-filter of its own)"""
    M = 'geom3::mesh::Mesh'
    b = cx.fn(f'{M}::project_with_max_dist')
    if b:
        r = cx.retval(b)
        ok = match('(call Option::map (call TriMesh::project_local_point_and_get_location_with_max_dist (field shape (param self)) (param point) (field is_solid (param self)) (param max_dist)) (closure *))', r) is not None
        cx.ob('EXPR', 'Mesh::project_with_max_dist', ok, 'max_dist reaches parry as the cap; solid flag = self.is_solid; None passes through', where=b.file, found=r)
        for cl in cx.facts.closures_of(b.name):
            cx.expect('EXPR', 'Mesh::project_with_max_dist:unpack', cx.retval(cl), '(agg tuple (0 (field 0 (param 2))) (1 (field 0 (field 1 (param 2)))) (2 (field 1 (field 1 (param 2)))))',
                      '(projection, (id, loc)) is flattened to (projection, id, loc) without mixing', where=cl.file)


def surf_closest_to_rule(cx):
    """shared with C16: the sign and the plane-mode value of a mesh deviation are taken against this normal - it is the FACE normal also on edges and vertices"""
    M = 'geom3::mesh::Mesh'
    MP = '(call TriMesh::project_local_point_and_get_location (field shape (param self)) (param point) (field is_solid (param self)))'
    b = cx.fn(f'{M}::surf_closest_to')
    if b:
        r = cx.retval(b)
        e = match('(call *SurfacePoint::new (field point (field 0 $p)) (unwrap (call Triangle::normal (call TriMesh::triangle (field shape (param self)) (field 0 (field 1 $p))))))', r)
        cx.ob('EXPR', 'Mesh::surf_closest_to', e is not None and match(MP, e['p']) is not None,
              'closest surface point: the projection point with the normal of the triangle whose id the SAME projection returned; solid flag = self.is_solid', where=b.file, found=r)


def run(cx):
    for mod, C, S in (('geom2::curve2', 'Curve2', 'CurveStation2'), ('geom3::curve3', 'Curve3', 'CurveStation3')):
        PRJ = '(call Polyline::project_local_point_and_get_location (field line (param self)) (param test_point) false)'
        b = cx.fn(f'{mod}::{C}::at_closest_to_point')
        if b:
            r = cx.retval(b)
            e = match(f'(call *{S}::new (field point (field 0 $p)) (call *{C}::dir_of_edge (param self) (field 0 (field 1 $p))) (field 0 (field 1 $p)) '
                      f'(index (call SegmentPointLocation::barycentric_coordinates (field 1 (field 1 $p))) $k) (param self))', r)
            cx.ob('EXPR', f'{C}::at_closest_to_point:coherence', e is not None and match(PRJ, e['p']) is not None,
                  f'{C}: point, edge index, direction edge and location all come from ONE non-solid projection of the query point', where=b.file, found=r)
            cx.ob('EXPR', f'{C}::at_closest_to_point:fraction', e is not None and e['k'] == ('const', 1),
                  f'{C}: fraction = barycentric_coordinates()[1] (weight of the edge end vertex), as in the test-pinned 2D sibling', where=b.file, found=e['k'] if e else None)
        b = cx.fn(f'{mod}::{C}::dist_to_point')
        if b:
            r = cx.retval(b)
            ok = match(f'(call *points::dist (field point (field 0 {PRJ})) (param test_point))', r) is not None or match(f'(call *points::dist (param test_point) (field point (field 0 {PRJ})))', r) is not None
            cx.ob('EXPR', f'{C}::dist_to_point', ok, f'{C}: distance = dist(projection.point, query) of a non-solid projection of the query', where=b.file, found=r)
    M = 'geom3::mesh::Mesh'
    MP = '(call TriMesh::project_local_point_and_get_location (field shape (param self)) (param point) (field is_solid (param self)))'
    surf_closest_to_rule(cx)
    b = cx.fn(f'{M}::point_closest_to')
    if b:
        cx.expect('EXPR', 'Mesh::point_closest_to', cx.retval(b), f'(field point (field 0 {MP}))', 'closest point = projection point with solid flag = self.is_solid', where=b.file)
    project_with_max_dist_rule(cx)
    project_with_tol_rules(cx)
    b = cx.fn(f'{M}::indices_in_tol')
    if b:
        from vpa import comp as CP
        comps = [c for c in CP.comprehensions(cx, b, cx.retval(b)) if c.get('elem') is not None]
        ok = len(comps) == 1
        if ok:
            c = comps[0]
            I = '(itervar (range 0 (len (param points))))'
            ok = match('(param points)', c['src']) is not None and match(I, c['elem']) is not None and \
                CP.has_cond(c, f'(is (call *project_with_tol (param self) (index (param points) {I}) (param max_dist) (param max_angle) (param transform)) Some)', True) and \
                len([1 for a, p in c['conds']]) == 1
        cx.ob('GUARD', 'Mesh::indices_in_tol', ok, 'index i is reported exactly when project_with_tol(points[i], max_dist, max_angle, transform) is Some', where=b.file)
    # length_along of a closest point is read from the length table built by from_points: it must be the running sum over the STORED vertices (shared with C01)
    from rules.C01 import from_points_rules
    from_points_rules(cx, 'geom2::curve2::Curve2', 'Curve2', '2D')
    from_points_rules(cx, 'geom3::curve3::Curve3', 'Curve3', '3D')
    # the two consumers of the mesh projection that add their own geometry on top of it (rules shared with C16 / C20)
    from rules.C16 import deviation_fallback_rules
    from rules.C20 import uv_with_tol_rule, uv_lookup_rules
    deviation_fallback_rules(cx)
    uv_with_tol_rule(cx)
    uv_lookup_rules(cx)
    E.enc(cx, M, ('shape', 'is_solid', 'uv'), constructors=[f'{M}::new', f'{M}::new_take_trimesh', f'{M}::new_with_uv', f'{M}::new_with_options'])


def run_thorough(cx):
    """thorough tier: the generic evaluators this property relies on must fire on their positive fixture twins"""
    from rules import fixture_check as FX
    FX.enc(cx)
