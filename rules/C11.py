"""C11 Circle, arc and tangent constructions satisfy their defining constraints - structural clauses."""
from vpa import evaluators as E
from vpa.core import show, Site, simplify, subterms
from vpa.pattern import match, find
from vpa.poly import rat_equal, poly

EXPLANATION = """Structural obligations behind C11: (EXPR) the cached bounding box of every Circle2 / Arc2 is computed from the very centre, radius
and angles that are stored (all 6 construction sites), the box fields are private; arc_aabb2 takes the two end angles plus the
multiples of pi/2 that AngleInterval::new(angle0, angle) contains, through circle.point_at_angle; (GUARD) intersections_with
returns nothing for concentric, separate AND nested circles (the radicand r0^2 - a^2 of the half-chord is never taken when
d < |r0-r1|), one point when externally or internally tangent; tangent_points_to returns None under d <= r and places the
tangent points at the centre angle theta -+ acos(r/d) (right triangle centre-tangent-point: cos of the angle at the centre is r/d);
outer tangents: None when concentric, +-r offsets for equal radii; Segment2::try_new rejects coincident end points;
(ALGEBRA) the three-point circle's centre is equidistant from all three points as a rational-function identity, and its radius is
the distance to one of them; the arc API is a delegation chain: length = r*|angle|, point_at_length(l) =
point_at_fraction(l/length()), point_at_fraction(f) = point_at_angle(angle*f), point_at_angle(a) = circle.point_at_angle(angle0+a);
(ALGEBRA) Arc2::three_points sweeps counter-clockwise exactly when the branch quantity is a positive multiple of (p1-p0)x(p2-p0) as a
polynomial in the six coordinates; (GUARD) intersection_line_circle returns the foot of the centre under a two-sided |d-r| < tol that
takes precedence, nothing only when also d > r, else foot -+ sqrt(r^2-d^2)/|dir|; circle x segment keeps a parameter exactly under the closed
range [0,1] widened by a constant; (ENC) no function stores to the defining fields of a Circle2 / Arc2, directly or through a containing value. Round 5: intersection_interval returns, of the two arcs between the crossing points, the one whose interval contains the direction of the other centre (separated by the polarity of that test). Round 6 (shared with C09): from_3_points rejects exactly under |det| < 1e-6 for the determinant both centre coordinates are divided by."""
NOT_DECIDED = "that intersection points lie on both objects (vector identities with unit vectors), that directed_angle measures the stated direction (C18), center/ball/circle/angle fields are public, so a caller can desynchronise the cached box by assignment (the property is read as being about the constructions)"
ASSUMPTIONS = ["real arithmetic for the algebraic identity; f64::powi(x,2) = x*x"]

C = 'geom2::circle2::Circle2'
A = 'geom2::circle2::Arc2'


def line_circle_rules(cx):
    b = cx.fn('geom2::circle2::intersection_line_circle')
    if not b:
        return
    R = '(field radius (field ball (param circle)))'
    D = '(call *points::dist (field center (param circle)) (call *Line2::projected_point (param line) (field center (param circle))))'
    TC = '(call *Line2::projected_parameter (param line) (field center (param circle)))'
    TAN = f'(lt (call f64::abs (or (sub {D} {R}) (sub {R} {D}))) $tol)'
    OUT = f'(or (lt {R} {D}) (lt 0.0 (sub {D} {R})))'
    TH = f'(div (call f64::sqrt (sub (or (call f64::powi {R} 2) (mul {R} {R})) (or (call f64::powi {D} 2) (mul {D} {D})))) (call Matrix::norm (call *Line2::dir (param line))))'
    kinds = {}
    for s, d in cx.rets(b):
        if match('(call Vec::new)', d) is not None or match('(veclit (agg array))', d) is not None and len(d[1]) == 2:
            k = 'none'
            ok, off = cx.all_paths(b, s.bb, lambda has: has(TAN, False) and has(OUT, True))
        elif match(f'(veclit (agg array (0 {TC})))', d) is not None and len(d[1]) == 3:
            k = 'one'
            ok, off = cx.all_paths(b, s.bb, lambda has: has(TAN, True))
        elif match(f'(veclit (agg array (0 (sub {TC} {TH})) (1 (add {TC} {TH}))))', d) is not None:
            k = 'two'
            ok, off = cx.all_paths(b, s.bb, lambda has: has(TAN, False) and has(OUT, False))
        else:
            k, ok, off = 'other:' + show(d)[:200], False, None
        kinds[k] = kinds.get(k, True) and ok
    tol = None
    for bi in b.live:
        for a, p in cx.guards(b, bi):
            e = match(TAN, a)
            if e: tol = e['tol']
    cx.ob('GUARD', 'intersection_line_circle:classification', kinds == {'none': True, 'one': True, 'two': True} and tol is not None and tol[0] == 'const' and 0 < tol[1] <= 1e-6,
          'with d the distance of the centre from the line: one parameter (the foot of the centre) exactly under |d - r| < tol, none exactly under NOT tangent and d > r, '
          'else the foot -+ sqrt(r^2 - d^2) / |dir|; the tangency test is two-sided and takes precedence, so a tangent line whose d rounds just above r still gives its point', where=b.file, found=str(kinds))


def proportional(p, q):
    """p = k*q with k > 0 (polynomials as dicts)"""
    if not p or set(p) != set(q):
        return False
    ks = [p[m] / q[m] for m in p]
    return ks[0] > 0 and all(abs(k - ks[0]) <= 1e-9 * abs(ks[0]) for k in ks)

def three_points_sweep(cx):
    b = cx.fn(f'geom2::circle2::Arc2::three_points')
    if not b:
        return
    def P(i, c):
        return ('field', c, ('param', i + 1, f'p{i}'))
    # twice the signed area of (p0, p1, p2): positive when the three points run counter-clockwise
    cross = ('sub', ('mul', ('sub', P(1, 'x'), P(0, 'x')), ('sub', P(2, 'y'), P(0, 'y'))), ('mul', ('sub', P(1, 'y'), P(0, 'y')), ('sub', P(2, 'x'), P(0, 'x'))))
    pc = poly(cross)
    CEN = '(field center (unwrap (call *Circle2::from_3_points (param p0) (param p1) (param p2))))'
    V0, V2 = f'(call OPoint::sub (param p0) {CEN})', f'(call OPoint::sub (param p2) {CEN})'
    lit = b.aggregates('geom2::circle2::Arc2')
    seen = {}
    if len(lit) == 1:
        rv = lit[0].data['rv']
        ops = dict(zip(rv.get('fields', []), rv['ops']))
        for dbb, dv, g in cx.alts(b, ops['angle'], lit[0].bb, lit[0].idx) if 'angle' in ops else []:
            if match(f'(call *directed_angle {V0} {V2} (agg *AngleDir::Ccw))', dv) is not None:
                want = 1.0
            elif match(f'(neg (call *directed_angle {V0} {V2} (agg *AngleDir::Cw)))', dv) is not None:
                want = -1.0
            else:
                seen['other'] = show(dv)[:200]
                continue
            good = False
            for a, pol in g:
                if a[0] in ('lt', 'le') and len(a) == 3:
                    e = ('sub', a[2], a[1]) if pol else ('sub', a[1], a[2])        # the quantity that is positive (non-negative) on this branch
                    pe = poly(e)
                    good = good or proportional(pe, {k: want * v for k, v in pc.items()})
            seen['ccw' if want > 0 else 'cw'] = good
    cx.ob('ALGEBRA', 'Arc2::three_points:sweep', seen == {'ccw': True, 'cw': True},
          'the sweep from p0 to p2 is taken counter-clockwise (positive) exactly when (p0, p1, p2) run counter-clockwise - the branch quantity is, as a polynomial in the six '
          'coordinates, a positive multiple of (p1-p0)x(p2-p0) - and clockwise (negated) otherwise, so the arc passes through the middle point', where=b.file, found=str(seen))


def intersection_interval_rule(cx):
    b = cx.fn('geom2::circle2::Circle2::intersection_interval')
    if not b:
        return
    I0 = '(index (call *Circle2::intersections_with (param self) (param other)) 0)'
    I1 = '(index (call *Circle2::intersections_with (param self) (param other)) 1)'
    S = f'(call *Circle2::angle_of_point (param self) {I0})'
    A = f'(call *signed_angle (call OPoint::sub {I0} (field center (param self))) (call OPoint::sub {I1} (field center (param self))))'
    NEW0, NEW1 = f'(call *AngleInterval::new {S} {A})', f'(call *AngleInterval::new {S} (call *signed_compliment_2pi {A}))'
    test = f'(call *AngleInterval::contains {NEW0} (call *Circle2::angle_of_point (param self) (field center (param other))))'
    # one Some per branch, or one Some fed by `if direct { i0 } else { i1 }`: the payload is separated by the polarity of the containment test either way
    seen = {True: None, False: None}
    somes = []
    for s in b.aggregates('*Option'):
        rv = s.data['rv']
        if not str(rv.get('variant', rv.get('v', ''))).endswith('Some') and 'Some' not in show(cx.aggval(s))[:40]:
            continue
        v = dict(cx.aggval(s)[2:]).get('0')
        if v is None or find('(call *signed_angle _ _)', v) is None:
            continue
        somes.append((s, v))
        cs = cx.cases_by(b, s, rv['ops'], test)
        for pol in (True, False):
            if cs[pol] and cs[pol][0] is not None:
                seen[pol] = cs[pol][0]
    ok = 1 <= len(somes) <= 2 and seen[True] is not None and seen[False] is not None and match(NEW0, seen[True]) is not None and match(NEW1, seen[False]) is not None
    cx.ob('GUARD', 'intersection_interval:which-arc', ok,
          'of the two arcs between the crossing points (signed angle a, and its 2*pi complement) the one returned is the one containing the direction of the OTHER centre '
          '(a small circle cut by a large close one owns the LONG arc)', where=b.file, found='; '.join(show(v)[:120] for _, v in somes))


def run(cx):
    intersection_interval_rule(cx)
    from rules.C09 import from_3_points_rules
    from_3_points_rules(cx)
    # ---------------------------------------------------------------- cached boxes
    n = 0
    for b in E.user_bodies(cx.facts):
        for s in b.aggregates(C):
            n += 1
            cx.analysed_fns.add(b.name)
            d = cx.aggval(s)
            e = match('(agg * (center $c) (ball (call Ball::new $r)) (aabb (call *circle_aabb2 $c $r)))', d)
            cx.ob('EXPR', f'aabb:{b.name.split("::")[-1]}:circle', e is not None, f'{b.name}: the cached box is circle_aabb2 of the centre and radius that are stored', where=s, found=d)
        for s in b.aggregates(A):
            n += 1
            cx.analysed_fns.add(b.name)
            d = cx.aggval(s)
            e = match('(agg * (circle $c) (angle0 $a0) (angle $a) (aabb (call *arc_aabb2 $c $a0 $a)))', d)
            full = match('(agg * (circle (param self)) (angle0 0.0) (angle TAU) (aabb (field aabb (param self))))', d)
            cx.ob('EXPR', f'aabb:{b.name.split("::")[-1]}:arc', e is not None or full is not None,
                  f'{b.name}: the cached box is arc_aabb2 of the stored (circle, angle0, angle) - or the circle\'s own box for the full turn', where=s, found=d)
    cx.floor('EXPR', 'aabb:sites', n, 6, 'non-derive Circle2/Arc2 construction sites')
    for adt in (C, A):
        a = cx.adt(adt)
        if a:
            f = [x for v in a['variants'] for x in v['fields'] if x['name'] == 'aabb']
            cx.ob('ENC', f'{adt.split("::")[-1]}.aabb:private', bool(f) and f[0]['vis'].startswith('Restricted'), 'the cached box cannot be assigned from outside the module')
    b = cx.fn('geom2::aabb2::circle_aabb2')
    if b:
        cx.expect('EXPR', 'circle_aabb2', cx.retval(b), '(call Aabb::new (call OPoint::sub (param center) (call Matrix::new (param radius) (param radius))) (call OPoint::add (param center) (call Matrix::new (param radius) (param radius))))',
                  'box = centre -+ (r, r)', where=b.file)
    # the quadrant filter of arc_aabb2 is AngleInterval::new(angle0, angle).contains: a sweep of exactly +-2pi must stay a full turn
    bi = cx.fn('common::angles::AngleInterval::new')
    if bi:
        from rules.C18 import angle_interval_new_shape
        angle_interval_new_shape(cx, bi)
    b = cx.fn('geom2::aabb2::arc_aabb2')
    if b:
        from vpa import comp as CP
        r = cx.retval(b)
        ev = match('(call Aabb::from_points $v)', r)
        outer = [c for c in CP.comprehensions(cx, b, ev['v']) if c.get('elem') is not None] if ev else []
        ok = len(outer) == 1 and not outer[0]['conds'] and match('(call *Circle2::point_at_angle (param circle) (index $a _))', outer[0]['elem']) is not None
        oki = okp = okg = False
        ea = match('(call Iterator::collect (call Iterator::map $a _))', ev['v']) if ev else None
        if ok and ea is not None:
            ch = match('(call Iterator::chain $i $rest)', ea['a'])
            if ch is not None:
                # `[a0, a0 + a].into_iter().chain((0..4).map(..).filter(..))`: the literal and the filtered quadrant angles as one chain
                inits = [('veclit', ch['i'])]
                els = [c for c in CP.comprehensions(cx, b, ('call', 'Iterator::collect', ch['rest'])) if c.get('elem') is not None]
            else:
                inner = CP.comprehensions(cx, b, ea['a'])
                inits = [c['init'] for c in inner if c.get('form') == 'init']
                els = [c for c in inner if c.get('elem') is not None]
            oki = len(inits) == 1 and match('(veclit (agg array (0 (param angle0)) (1 (add (param angle0) (param angle)))))', inits[0]) is not None
            T = None
            if len(els) == 1:
                T = match('(mul (cast f64 (itervar (range 0 4))) FRAC_PI_2)', els[0]['elem']) or match('(mul (cast f64 (itervar (range 0 4))) (call f64::FRAC_PI_2))', els[0]['elem'])
                okp = T is not None
                okg = len(els[0]['conds']) == 1 and els[0]['conds'][0][1] and \
                    match('(call *AngleInterval::contains (call *AngleInterval::new (param angle0) (param angle)) $t)', els[0]['conds'][0][0]) is not None and \
                    match('(call *AngleInterval::contains _ $t)', els[0]['conds'][0][0])['t'] == els[0]['elem']
        cx.ob('EXPR', 'arc_aabb2', ok and oki and okp and okg,
              'candidates are the two end angles plus i*pi/2 (i in 0..4) that AngleInterval::new(angle0, angle) contains, mapped through circle.point_at_angle (centre included)', where=b.file)
    # ---------------------------------------------------------------- intersections_with
    b = cx.fn(f'{C}::intersections_with')
    if b:
        D = '(call *points::dist (field center (param self)) (field center (param other)))'
        R0, R1 = '(field radius (field ball (param self)))', '(field radius (field ball (param other)))'
        pushes = b.calls('Vec::push')
        two = [s for s in pushes if find('(call f64::sqrt _)', cx.arg(s, 1)) is not None]
        one = [s for s in pushes if s not in two]
        okc = all(cx.guarded(b, s.bb, f'(lt {D} _)', False) is not None for s in pushes)     # not concentric
        oks = all(cx.guarded(b, s.bb, f'(lt (add {R0} {R1}) {D})', False) is not None for s in pushes)    # not separate
        cx.ob('GUARD', 'intersections_with:concentric-separate', okc and oks and len(pushes) == 3, 'no point is produced for concentric circles or circles farther apart than r0+r1', where=b.file)
        # nested: the half-chord sqrt(r0^2 - a^2) may only be taken when d >= |r0 - r1|
        okn = bool(two) and all(
            cx.guarded(b, s.bb, f'(lt {D} (sub (call f64::abs (sub {R0} {R1})) _))', False) is not None or
            cx.guarded(b, s.bb, f'(lt {D} (call f64::abs (sub {R0} {R1})))', False) is not None or
            cx.guarded(b, s.bb, f'(le {D} (call f64::abs (sub {R0} {R1})))', False) is not None for s in two)
        cx.ob('GUARD', 'intersections_with:nested', okn,
              'the two-point branch (half-chord h = sqrt(r0^2 - a^2)) is reached only when d >= |r0 - r1|: nested circles yield no points (and no NaN)',
              where=two[0] if two else b.file, found='; '.join(cx.show_guards(b, two[0].bb))[:600] if two else None)
        # tangency -> exactly one point
        okt = len(one) == 1
        if okt:
            ok2, off = cx.all_paths(b, one[0].bb, lambda has: has(f'(lt (call f64::abs (sub {D} (add {R0} {R1}))) _)', True) or has(f'(lt (call f64::abs (sub {D} (call f64::abs (sub {R0} {R1})))) _)', True))
            okt = ok2
        cx.ob('GUARD', 'intersections_with:tangent', okt, 'a single point is returned exactly in the touching configurations (|d - (r0+r1)| or |d - |r0-r1|| below the tolerance)', where=b.file)
        # the radical-line parameter
        a_ok = any(find(f'(div (add (sub (call f64::powi {R0} 2) (call f64::powi {R1} 2)) (call f64::powi {D} 2)) (mul 2.0 {D}))', cx.arg(s, 1)) is not None for s in pushes)
        cx.ob('EXPR', 'intersections_with:radical-line', a_ok, 'a = (r0^2 - r1^2 + d^2) / (2d) along the centre line', where=b.file)
    # ---------------------------------------------------------------- tangent_points_to
    b = cx.fn(f'{C}::tangent_points_to')
    if b:
        D = '(call *points::dist (field center (param self)) (param point))'
        R = '(field radius (field ball (param self)))'
        somes = [(s, d) for s, d in cx.rets(b) if d[0] == 'agg' and d[1].endswith('Option::Some')]
        nones = [(s, d) for s, d in cx.rets(b) if d[0] == 'agg' and d[1].endswith('Option::None')]
        okg = len(somes) == 1 and len(nones) == 1 and cx.guarded(b, nones[0][0].bb, f'(le {D} {R})', True) is not None and cx.guarded(b, somes[0][0].bb, f'(le {D} {R})', False) is not None
        cx.ob('GUARD', 'tangent_points_to:inside', okg, 'None exactly when the point is not outside the circle (d <= r)', where=b.file)
        if somes:
            s, d = somes[0]
            TH = '(call f64::atan2 (sub (field y (param point)) (field y (field center (param self)))) (sub (field x (param point)) (field x (field center (param self)))))'
            e = match(f'(agg * (0 (agg tuple (0 (call OPoint::new (add (field x (field center (param self))) (mul (call f64::cos (sub {TH} $al)) {R})) (add (field y (field center (param self))) (mul (call f64::sin (sub {TH} $al)) {R})))) '
                      f'(1 (call OPoint::new (add (field x (field center (param self))) (mul (call f64::cos (add $al {TH})) {R})) (add (field y (field center (param self))) (mul (call f64::sin (add $al {TH})) {R})))))))', d)
            cx.ob('EXPR', 'tangent_points_to:on-circle', e is not None, 'both points are centre + r*(cos, sin)(theta -+ alpha) with theta the direction of the external point: they lie on the circle', where=s)
            if e:
                al = e['al']
                ok = match(f'(call f64::acos (div {R} {D}))', al) is not None or match(f'(call f64::asin (div (call f64::sqrt (sub (call f64::powi {D} 2) (call f64::powi {R} 2))) {D}))', al) is not None or \
                    match(f'(call f64::atan2 (call f64::sqrt (sub (call f64::powi {D} 2) (call f64::powi {R} 2))) {R})', al) is not None
                cx.ob('EXPR', 'tangent_points_to:centre-angle', ok,
                      'alpha is the angle AT THE CENTRE of the right triangle centre / tangent point / external point: cos(alpha) = r/d, i.e. alpha = acos(r/d) (asin(r/d) is the angle at the external point; the two agree only for d/r = sqrt(2))',
                      where=s, found=al)
    b = cx.fn(f'{C}::outer_tangents_to')
    if b:
        nones = [(s, d) for s, d in cx.rets(b) if d[0] == 'agg' and d[1].endswith('Option::None')]
        okc = any(cx.guarded(b, s.bb, '(lt (call *points::dist (field center (param self)) (field center (param other))) _)', True) is not None for s, d in nones)
        cx.ob('GUARD', 'outer_tangents_to:concentric', okc, 'concentric circles have no outer tangents (None)', where=b.file)
        offs = b.calls('geom2::line2::Segment2::offsetted')
        eq = [s for s in offs if cx.guarded(b, s.bb, '(lt (call f64::abs (sub (field radius (field ball (param self))) (field radius (field ball (param other))))) _)', True) is not None]
        vals = sorted(show(cx.arg(s, 1)) for s in eq)
        cx.ob('EXPR', 'outer_tangents_to:equal-radii', vals == sorted(['(field radius (field ball (param self)))', '(neg (field radius (field ball (param self))))']),
              'for equal radii the tangents are the centre segment offset by +r and -r', where=b.file, found=str(vals))
    b = cx.fn('geom2::line2::Segment2::try_new')
    if b:
        oks = [(s, d) for s, d in cx.rets(b) if d[0] == 'agg' and d[1].endswith('Result::Ok')]
        g = cx.guarded(b, oks[0][0].bb, '(lt (call *points::dist (param a) (param b)) $eps)', False) if len(oks) == 1 else None
        ok = g is not None and g['eps'][0] == 'const' and isinstance(g['eps'][1], float) and g['eps'][1] > 0.0
        cx.ob('GUARD', 'Segment2::try_new', ok, 'a segment is built only from two distinct points (dist >= 1e-12)', where=b.file)
    # ---------------------------------------------------------------- three-point circle: algebraic identity
    b = cx.fn(f'{C}::from_3_points')
    if b:
        for s, d in cx.rets(b):
            e = match('(agg *Result::Ok (0 (call *Circle2::new $cx $cy $r)))', d)
            if not e:
                continue
            def d2(p):
                return ('add', ('mul', ('sub', e['cx'], ('field', 'x', ('param', p, f'p{p-1}'))), ('sub', e['cx'], ('field', 'x', ('param', p, f'p{p-1}')))),
                        ('mul', ('sub', e['cy'], ('field', 'y', ('param', p, f'p{p-1}'))), ('sub', e['cy'], ('field', 'y', ('param', p, f'p{p-1}')))))
            try:
                ok = rat_equal(d2(1), d2(2)) and rat_equal(d2(2), d2(3))
            except RecursionError:
                ok = False
            cx.ob('ALGEBRA', 'from_3_points:equidistant', ok,
                  'as a rational-function identity in the six coordinates, the computed centre is equidistant from p0, p1 and p2 (so, with the radius taken to one of them, the circle passes through all three)', where=s)
    # ---------------------------------------------------------------- arc API delegation chain
    for fn, pat, what in ((f'{A}::length', '(mul (call f64::abs (self angle)) (field radius (field ball (field circle (param self)))))', 'length = r * |angle|'),
                          (f'{A}::point_at_length', '(call *Arc2::point_at_fraction (param self) (div (param length) (call *Arc2::length (param self))))', 'point_at_length(l) = point_at_fraction(l / length())'),
                          (f'{A}::point_at_fraction', '(call *Arc2::point_at_angle (param self) (mul (self angle) (param fraction)))', 'point_at_fraction(f) = point_at_angle(angle * f)'),
                          (f'{A}::point_at_angle', '(call *Circle2::point_at_angle (field circle (param self)) (add (self angle0) (param angle)))', 'point_at_angle(a) = circle.point_at_angle(angle0 + a)'),
                          (f'{A}::start', '(call *Arc2::point_at_angle (param self) 0.0)', 'start = point_at_angle(0)'),
                          (f'{A}::end', '(call *Arc2::point_at_angle (param self) (self angle))', 'end = point_at_angle(angle)'),
                          (f'{C}::point_at_angle', '(call OPoint::add (self center) (call Isometry::mul (call Isometry::rotation (param angle)) (call Matrix::new (field radius (field ball (param self))) 0.0)))', 'circle point = centre + R(angle)*(r, 0)'),
                          (f'{C}::distance_to', '(sub (call *points::dist (self center) (param point)) (field radius (field ball (param self))))', 'signed radial distance = |p - c| - r')):
        b = cx.fn(fn)
        if b:
            cx.expect('EXPR', '::'.join(fn.split('::')[-2:]), cx.retval(b), pat, what, where=b.file)
    b = cx.fn(f'{A}::three_points')
    if b:
        lit = b.aggregates(A)
        ok = len(lit) == 1
        if ok:
            d = cx.aggval(lit[0])
            e = match('(agg * (circle $c) (angle0 (call *Circle2::angle_of_point $c (param p0))))', d)
            ok = e is not None and match('(unwrap (call *Circle2::from_3_points (param p0) (param p1) (param p2)))', e['c']) is not None
        cx.ob('EXPR', 'Arc2::three_points:start', ok, 'the arc lies on the circle through the three points and starts at the angle of the first point', where=b.file)
    three_points_sweep(cx)
    line_circle_rules(cx)
    # inside the crate nothing assigns the centre / radius / angles of an existing circle or arc: the cached box cannot go stale through library code
    E.immutable_after_construction(cx, C, ('center', 'ball', 'aabb'))
    E.immutable_after_construction(cx, A, ('circle', 'angle0', 'angle', 'aabb'))
    nw = {}
    for adt, flds in ((C, ('center', 'ball', 'aabb')), (A, ('circle', 'angle0', 'angle', 'aabb'))):
        nw.update(E.nested_field_writers(cx, adt, flds))
    cx.ob('ENC', 'Circle2/Arc2:no-nested-writes', not nw, 'no function updates the centre / radius / angles of a circle or arc held inside another value in place (it is rebuilt through its constructor, which recomputes the box)',
          found='; '.join(f'{k} writes {sorted(v)}' for k, v in sorted(nw.items())) or None)
    # circle x segment: the line parameters of intersection_line_circle, kept exactly when within [0, 1] widened by 1e-10 (end points included)
    b = cx.fn(f'{C}::intersection', where='Segment2')
    if b:
        from vpa import comp as CMP
        TS = '(call *intersection_line_circle (param other) (param self))'
        T = f'(index {TS} (itervar (range 0 (len {TS}))))'
        comps = [c for c in CMP.comprehensions(cx, b, cx.retval(b)) if c.get('elem') is not None]
        ok = len(comps) == 1 and comps[0]['src'] is not None and match(TS, comps[0]['src']) is not None and match(f'(call *Segment2::at (param other) {T})', comps[0]['elem']) is not None
        okc = False
        if ok:
            cs = comps[0]['conds']
            if any(a[0] == 'call' and str(a[1]).endswith('::contains') for a, _ in cs):
                cs = [(a, p_) for a, p_ in cs if a[0] not in ('le', 'lt')]        # the two comparisons `contains` is made of (inlined by the compiler in a loop body)
            e = match(f'(call RangeInclusive::contains (call RangeInclusive::new $lo $hi) {T})', cs[0][0]) if len(cs) == 1 and cs[0][1] else None
            okc = e is not None and e['lo'][0] == 'const' and e['hi'][0] == 'const' and -1e-6 <= e['lo'][1] <= 0.0 and 1.0 <= e['hi'][1] <= 1.0 + 1e-6
        cx.ob('GUARD', 'Circle2::intersection(Segment2)', ok and okc,
              'a line-circle parameter t becomes the point segment.at(t) exactly when t lies in the CLOSED range [0, 1] widened by a small constant: crossings at the segment end points are kept',
              where=b.file, found='; '.join(f"{show(c['elem'])[:120]} if {[show(a)[:160] for a, p in c['conds']]}" for c in comps))

    # ---------------------------------------------------------------- curve / circle intersections: every edge is tested
    b = cx.fn('geom2::curve2::Curve2::intersection', where='Circle2')
    if b:
        from vpa import term as T, comp as CMP
        okx, why = T.exhaustive_loops(cx, b)
        comps = [c for c in CMP.comprehensions(cx, b, cx.retval(b)) if c.get('elem') is not None]
        I = '(itervar (range 0 (sub (call *Curve2::count (param self)) 1)))'
        SEG = f'(call *Segment2::try_new (call *Curve2::vtx (param self) {I}) (call *Curve2::vtx (param self) (add 1 {I})))'
        ok_seg = ok_int = ok_push = ok_every = False
        n_iter = 2
        if len(comps) == 1:
            c = comps[0]
            # every point of other.intersection(segment i), for every i whose segment is valid - and under no other condition
            ok_seg = ok_push = match(f'(index (call *::intersection (param other) (unwrap {SEG})) _)', c['elem']) is not None
            ok_int = len(c['conds']) == 1 and CMP.has_cond(c, f'(is {SEG} Ok)', True)
            if c['form'] == 'loop':
                tn = b.calls('*Segment2::try_new')
                outer = max(b.loops(), key=lambda lp: len(lp[1])) if b.loops() else None
                ok_every = len(tn) == 1 and outer is not None and all(b.dominates(tn[0].bb, x) for x in outer[2])
                n_iter = len(b.loops())
            else:
                ok_every = True
        cx.ob('ORDER', 'Curve2::intersection(Circle2):every-edge', okx and n_iter >= 2 and ok_every and ok_seg and ok_int and ok_push,
              'every edge (v[i], v[i+1]), i in 0..count-1, is intersected with the circle whenever it is a valid segment - no edge is skipped on any other condition - and every point found is kept',
              where=b.file, found=f'exhaustive={okx} every-cycle={ok_every} segment={ok_seg} intersect={ok_int} kept={ok_push} ' + '; '.join(why))
