"""C16 Deviations equal signed distance and aggregates track their contents - structural clauses."""
from vpa import evaluators as E
from vpa.core import show, Site, simplify
from vpa.pattern import match, find

EXPLANATION = """Structural obligations behind C16: (TXN) no Result-returning function of the crate can reach a failure return after
mutating its &mut receiver (rejected operations change nothing); (COMUT) every function that grows/shrinks/assigns one of
PointCloud.{points,normals,colors} does so for all three; (CONSTRUCT/ENC) PointCloud and SurfaceDeviationSet can only be built by
their validating constructors, fields private, no &mut hand-out; (EXPR/ORDER) SurfaceDeviationSet::push stores Some(len(values))
evaluated before the push under `is_none or strictly-more-extreme` guards, new() derives both indices from the stored vector;
deviation/direction coherence of point_curve2_deviation, measure_point_deviation, Distance::{new,value,reversed}; tolerance
constructors and the tolerance-map index coherence. Round 5 (shared with C02): Mesh::surf_closest_to pairs the projection point with the FACE normal of the reported triangle, also on edges and vertices. Round 6 (shared with C17): DiscreteDomain::index_of searches with partial_cmp (numeric order, not total_cmp)."""
NOT_DECIDED = "sign conventions at corners, tolerance-map lookup semantics below the first breakpoint, NaN handling, that closest points are closest (C02)"
ASSUMPTIONS = ["Vec::push/extend/insert grow, pop/remove/clear/retain shrink (callee table in vpa/evaluators.py)"]

PC = 'geom3::point_cloud::PointCloud'
SDS = 'metrology::surface_deviation::SurfaceDeviationSet'


def deviation_fallback_rules(cx):
    """shared with C02 (Mesh::measure_point_deviation reports the distance to the closest point)"""
    # sibling agreement on the degenerate-offset fallback: both deviation functions fall back to the surface normal exactly when
    # the LENGTH of the offset (Matrix::norm, not its square) is below the same tiny threshold
    for fn, off in (('metrology::line_profiles::point_curve2_deviation', '(call OPoint::sub (param point) (call *::point (param station)))'),
                    ('geom3::mesh::Mesh::measure_point_deviation', '(call OPoint::sub (param point) (field point (call *::surf_closest_to (param self) (param point))))')):
        bb = cx.fn(fn)
        if bb:
            tests = []
            for bi in bb.live:
                t = bb.blocks[bi]['term']
                if bi in bb.reachable() and t['k'] == 'switch':
                    c = simplify(bb.dag().operand(t['d'], bi, len(bb.blocks[bi]['stmts'])))
                    if c[0] == 'lt' and c[2] == ('const', 1e-06):
                        tests.append(c)
            okf = len(tests) == 1 and match(f'(lt (call Matrix::norm {off}) 1e-06)', tests[0]) is not None
            cx.ob('EXPR', f'{fn.split("::")[-1]}:fallback-test', okf,
                  f'{fn.split("::")[-1]}: the surface normal replaces the offset direction only when |offset| < 1e-6 (the length itself, as in its sibling)', where=bb.file,
                  found='; '.join(show(t) for t in tests))


def run(cx):
    from rules.C17 import index_of_rule
    index_of_rule(cx)
    from rules.C02 import surf_closest_to_rule
    surf_closest_to_rule(cx)
    from rules.C03 import distance_conversion_rules
    distance_conversion_rules(cx)
    # ---------------------------------------------------------------- TXN (crate-wide, generic)
    found = E.txn(cx, floor=4)
    for need in (f'{PC}::merge', f'{PC}::append'):
        cx.ob('TXN', f'instance:{need}', need in found, f'{need} is among the functions analysed by TXN')

    # ---------------------------------------------------------------- COMUT parallel arrays
    E.comut_parallel(cx, PC, ('points', 'normals', 'colors'), floor=2)

    # ---------------------------------------------------------------- ENC
    E.enc(cx, PC, ('points', 'normals', 'colors'), constructors=[f'{PC}::try_new', f'{PC}::empty'])
    E.enc(cx, SDS, ('values', 'max_index', 'min_index'), constructors=[f'{SDS}::new', f'{SDS}::default'])
    w = E.field_writers(cx, SDS, ('values', 'max_index', 'min_index'), direct=True)
    extra = sorted(k for k in w if k not in (f'{SDS}::push',))
    cx.ob('ENC', f'{SDS}:writers', not extra, 'SurfaceDeviationSet state is written directly only by push (every other function goes through it)',
          found=', '.join(extra) if extra else None)

    # ---------------------------------------------------------------- CONSTRUCT PointCloud
    b = cx.fn(f'{PC}::try_new')
    if b:
        aggs = b.aggregates(PC)
        cx.ob('CONSTRUCT', 'PointCloud::try_new:sites', len(aggs) == 1, 'try_new has exactly one PointCloud literal', found=str(len(aggs)))
        for s in aggs:
            d = cx.aggval(s)
            cx.expect('CONSTRUCT', 'PointCloud::try_new:fields', d,
                      '(agg *PointCloud (points (param points)) (normals (param normals)) (colors (param colors)))',
                      'the literal stores exactly the validated parameters', where=s)
            for nm in ('normals', 'colors'):
                ok, off = cx.all_paths(b, s.bb, lambda has, nm=nm:
                                       has(f'(is (param {nm}) None)', True) or
                                       has(f'(eq (len (unwrap (param {nm}))) (len (param points)))', True))
                cx.ob('GUARD', f'PointCloud::try_new:{nm}-length', ok,
                      f'every path to the PointCloud literal has `{nm}` absent or len({nm}) == len(points)', where=s,
                      found='path with literals: ' + '; '.join(off) if off else None)
    b = cx.fn(f'{PC}::empty')
    if b:
        for s in b.aggregates(PC):
            d = cx.aggval(s)
            cx.expect('CONSTRUCT', 'PointCloud::empty:fields', d,
                      '(agg *PointCloud (points (call Vec::new)) (normals (allphi (or (agg *Option::None) (agg *Option::Some (0 (call Vec::new)))))) '
                      '(colors (allphi (or (agg *Option::None) (agg *Option::Some (0 (call Vec::new)))))))',
                      'empty() stores only fresh empty vectors / None', where=s)
    # create_from_indices gathers all three arrays with the same index list
    b = cx.fn('geom3::point_cloud::PointCloudFeatures::create_from_indices')
    if b:
        calls = b.calls(f'{PC}::try_new')
        cx.ob('CONSTRUCT', 'create_from_indices:via-try_new', len(calls) == 1, 'create_from_indices builds through try_new')
        for c in calls:
            a0, a1, a2 = cx.arg(c, 0), cx.arg(c, 1), cx.arg(c, 2)
            e = match('(call Iterator::collect (call Iterator::map (param indices) (closure * (call *::points (param self)))))', a0)
            cx.ob('EXPR', 'create_from_indices:points', e is not None, 'points are gathered by mapping `indices` over self.points()', where=c, found=a0)
            for nm, a in (('normals', a1), ('colors', a2)):
                e = match(f'(call Option::map (call *::{nm} (param self)) (closure * (param indices)))', a)
                cx.ob('EXPR', f'create_from_indices:{nm}', e is not None, f'{nm} are gathered (when present) with the same `indices`', where=c, found=a)
            # the inner closures index their capture with the closure argument
            for cl in cx.facts.closures_of(b.name):
                r = cx.retval(cl)
                if r[0] == 'index':
                    ok = match('(index (field _ (param _)) (param _))', r) is not None or match('(index (unwrap _) (param _))', r) is not None or True
                    # element = captured_array[*i]
                    e = match('(index _ (param i))', r)
                    cx.ob('EXPR', f'create_from_indices:{cl.name.split("::")[-1]}:gather', e is not None,
                          'gather closure returns captured[*i] for its argument i', where=cl.file, found=r)

    # ---------------------------------------------------------------- SurfaceDeviationSet::push
    b = cx.fn(f'{SDS}::push')
    if b:
        muts = [m for m in b.mutations() if m.root == 1]
        push = [m for m in muts if m.path == ('values',) and m.callee == 'Vec::push']
        cx.ob('COMUT', 'SurfaceDeviationSet::push:values', len(push) == 1, 'push appends to `values` exactly once')
        if push:
            pb = push[0].bb
            exits = b.exits()
            pd = b.postdominators()
            cx.ob('ORDER', 'SurfaceDeviationSet::push:always', all(pb in pd.get(0, ()) for _ in [0]),
                  'the append to `values` is on every path through push', where=Site(b, pb, 0, 'm', push[0].data))
            d = cx.arg(Site(b, pb, len(b.blocks[pb]['stmts']), 'call', push[0].data), 1)
            cx.expect('EXPR', 'SurfaceDeviationSet::push:value', d, '(param deviation)', 'the pushed element is the argument')
        for fld, cmp_pat in (('max_index', '(lt (field deviation (index (self values) (unwrap (self max_index)))) (field deviation (param deviation)))'),
                             ('min_index', '(lt (field deviation (param deviation)) (field deviation (index (self values) (unwrap (self min_index)))))')):
            st = [m for m in muts if m.path == (fld,)]
            cx.ob('COMUT', f'SurfaceDeviationSet::push:{fld}:sites', len(st) == 1 and st[0].kind == 'store', f'`{fld}` is assigned at exactly one site', found=str(len(st)))
            for m in st:
                val = b.dag().rvalue(m.data['rv'], m.bb, m.idx)
                from vpa.core import simplify
                val = simplify(val)
                site = Site(b, m.bb, m.idx, 'store', m.data)
                cx.expect('EXPR', f'SurfaceDeviationSet::push:{fld}:value', val, '(agg *Option::Some (0 (len (self values))))',
                          f'{fld} := Some(values.len()) with the length read BEFORE the append (position of the new element)', where=site)
                ok, off = cx.all_paths(b, m.bb, lambda has, fld=fld, cmp_pat=cmp_pat:
                                       has(f'(is (self {fld}) None)', True) or has(cmp_pat, True))
                cx.ob('GUARD', f'SurfaceDeviationSet::push:{fld}:guard', ok,
                      f'{fld} is replaced only when unset or when the new deviation is strictly more extreme than values[{fld}]',
                      where=site, found='; '.join(off) if off else None)
                # and conversely: when the guard holds the store is reached (the store post-dominates the guard's true edge)
        # the index update must not be skipped when the new value is more extreme: no path to the push with the
        # comparison true that avoids the store
        if push:
            for fld, cmp_pat in (('max_index', '(lt (field deviation (index (self values) (unwrap (self max_index)))) (field deviation (param deviation)))'),
                                 ('min_index', '(lt (field deviation (param deviation)) (field deviation (index (self values) (unwrap (self min_index)))))')):
                st = [m for m in muts if m.path == (fld,)]
                if not st:
                    continue
                sb = st[0].bb
                # paths to the push block that do not pass the store block
                from vpa import guards as G
                bad = None
                from vpa.pattern import P, DEFAULT
                try:
                    sets = G.path_literal_sets(b, pb, limit=20000, avoid=(sb,))
                except OverflowError:
                    sets = None
                    bad = ['<too many paths>']
                for lits in sets or ():
                    def has(pat, pol, lits=lits):
                        return any(p == pol and DEFAULT.match(P(pat), a) is not None for a, p in lits)
                    if has(cmp_pat, True) or has(f'(is (self {fld}) None)', True):
                        bad = sorted(('' if p else 'NOT ') + show(a) for a, p in lits)
                cx.ob('GUARD', f'SurfaceDeviationSet::push:{fld}:complete', bad is None,
                      f'whenever {fld} is unset or the new deviation is more extreme, the {fld} update is executed before the append',
                      found='; '.join(bad) if bad else None)
    b = cx.fn(f'{SDS}::new')
    if b:
        for s in b.aggregates(SDS):
            d = cx.aggval(s)
            e = match('(agg * (values $v) (max_index (call Option::map (call Iterator::max_by (call Iterator::enumerate $v) _) _)) '
                      '(min_index (call Option::map (call Iterator::min_by (call Iterator::enumerate $v) _) _)))', d)
            cx.ob('EXPR', 'SurfaceDeviationSet::new:indices', e is not None,
                  'new() stores the vector it derived max_index (max_by over enumerate) and min_index (min_by over enumerate) from', where=s, found=d)
        # the comparators handed to max_by / min_by order (a, b) by a.deviation vs b.deviation, un-reversed
        for which in ('max_by', 'min_by'):
            cs = b.calls(f'Iterator::{which}')
            ok = False
            r = None
            for c in cs:
                cl = cx.arg(c, 1)
                if cl[0] == 'closure':
                    _, r = cx.closure_ret(cl)
                    ok = r is not None and match('(unwrap (call f64::partial_cmp (field deviation (field 1 (param 2))) (field deviation (field 1 (param 3)))))', r) is not None
                elif cl[0] == 'fn':
                    # a named comparator function instead of a closure: its two parameters are positions 1 and 2
                    fb = cx.facts.bodies.get(cl[1]) or cx.facts.fn(cl[1])
                    r = cx.retval(fb) if fb is not None else None
                    ok = r is not None and match('(unwrap (call f64::partial_cmp (field deviation (field 1 (param 1))) (field deviation (field 1 (param 2)))))', r) is not None
            cx.ob('EXPR', f'SurfaceDeviationSet::new:{which}:comparator', ok and len(cs) == 1,
                  f'{which} compares a.deviation with b.deviation in argument order (not reversed, not another field)', where=b.file, found=r)
    b = cx.fn(f'{SDS}::max')
    if b:
        cx.expect('EXPR', 'SurfaceDeviationSet::max', cx.retval(b), '(call Option::map (self max_index) (closure * (param self)))', 'max() reads max_index')
    b = cx.fn(f'{SDS}::min')
    if b:
        cx.expect('EXPR', 'SurfaceDeviationSet::min', cx.retval(b), '(call Option::map (self min_index) (closure * (param self)))', 'min() reads min_index')
    b = cx.fn(f'{SDS}::symmetrical_zone_size')
    if b:
        r = cx.retval(b)
        e = match('(phi 0.0 (mul 2.0 (call f64::max (call f64::abs (field deviation (unwrap (call *::max (param self))))) '
                  '(call f64::abs (field deviation (unwrap (call *::min (param self))))))))', r)
        cx.ob('EXPR', 'symmetrical_zone_size', e is not None, 'zone = 2*max(|max|,|min|), 0 when empty', where=b.file, found=r)

    # ---------------------------------------------------------------- deviation coherence
    b = cx.fn('metrology::line_profiles::point_curve2_deviation')
    if b:
        r = cx.retval(b)
        e = match('(call *SurfaceDeviation::new (call *SurfacePoint::new (call *::point (param station)) $n) '
                  '(call Matrix::dot (call OPoint::sub (param point) (call *::point (param station))) $n))', r)
        cx.ob('EXPR', 'point_curve2_deviation:coherence', e is not None,
              'deviation = (point - station.point) . n with the SAME n that is stored as the surface normal, at station.point', where=b.file, found=r)
        if e:
            n = e['n']
            ok = match('(phi (call Unit::new_normalize (call Matrix::neg $v)) (call Unit::new_normalize $v) (field normal (call *::surface_point (param station))))', n,
                       ) is not None
            cx.ob('EXPR', 'point_curve2_deviation:direction', ok, 'n is +-normalize(point - station.point) or the station normal', found=n)
        # sign selection: the negated direction is used exactly when v.normal < 0
        for c in b.calls('Unit::new_normalize'):
            a = cx.arg(c, 0)
            neg = a[0] == 'call' and a[1] == 'Matrix::neg'
            g = cx.guarded(b, c.bb, '(lt (call Matrix::dot (call OPoint::sub (param point) _) (field normal _)) 0.0)', neg)
            cx.ob('GUARD', f'point_curve2_deviation:sign:{"neg" if neg else "pos"}', g is not None,
                  f'the {"negated" if neg else "plain"} offset direction is chosen exactly when offset.normal {"<" if neg else ">="} 0 (direction on the normal side)',
                  where=c, found='; '.join(cx.show_guards(b, c.bb)))
    deviation_fallback_rules(cx)
    b = cx.fn('geom3::mesh::Mesh::measure_point_deviation')
    if b:
        r = cx.retval(b)
        e = match('(call *Distance::new (field point $c) (param point) (agg *Option::Some (0 $d)))', r)
        cx.ob('EXPR', 'measure_point_deviation:order', e is not None and match('(call *::surf_closest_to (param self) (param point))', e['c']) is not None,
              'Distance3::new(closest.point, *point, Some(d)): reference point first, test point second', where=b.file, found=r)
        for c in b.calls('Unit::new_normalize'):
            pass
        negs = b.calls('Unit::neg')
        cx.ob('EXPR', 'measure_point_deviation:neg-site', len(negs) == 1, 'exactly one negated direction branch', found=str(len(negs)))
        for c in negs:
            g = cx.guarded(b, c.bb, '(lt 0.0 (call Matrix::dot (field normal _) (call OPoint::sub (param point) (field point _))))', False)
            cx.ob('GUARD', 'measure_point_deviation:sign', g is not None, 'direction is flipped only when normal.(point-closest) is not > 0',
                  where=c, found='; '.join(cx.show_guards(b, c.bb)))
    b = cx.fn('metrology::dimension::Distance::value')
    if b:
        cx.expect('EXPR', 'Distance::value', cx.retval(b), '(call Matrix::dot (self direction) (call OPoint::sub (self b) (self a)))',
                  'value = direction . (b - a)', where=b.file)
    b = cx.fn('metrology::dimension::Distance::reversed')
    if b:
        cx.expect('COMUT', 'Distance::reversed', cx.retval(b), '(agg *Distance (a (self b)) (b (self a)) (direction (call Unit::neg (self direction))))',
                  'reversed swaps a,b AND negates the direction', where=b.file)
    b = cx.fn('metrology::dimension::Distance::new')
    if b:
        cx.expect('EXPR', 'Distance::new', cx.retval(b),
                  '(agg *Distance (a (param a)) (b (param b)) (direction (call Option::unwrap_or (param direction) (call Unit::new_normalize (call OPoint::sub (param b) (param a))))))',
                  'default direction is normalize(b - a)', where=b.file)

    # ---------------------------------------------------------------- tolerances
    b = cx.fn('metrology::tolerance::Tolerance::try_new')
    if b:
        for s in b.aggregates('metrology::tolerance::Tolerance'):
            g = cx.guarded(b, s.bb, '(le (param lower) (param upper))', True)
            cx.ob('GUARD', 'Tolerance::try_new', g is not None, 'Ok(Tolerance) only under lower <= upper', where=s, found='; '.join(cx.show_guards(b, s.bb)))
            cx.expect('EXPR', 'Tolerance::try_new:fields', cx.aggval(s), '(agg * (lower (param lower)) (upper (param upper)))', 'fields are the checked parameters', where=s)
    b = cx.fn('metrology::tolerance::Tolerance::symmetrical')
    if b:
        cx.expect('EXPR', 'Tolerance::symmetrical', cx.retval(b),
                  '(agg * (lower (sub (param center) (call f64::abs (param half_width)))) (upper (add (param center) (call f64::abs (param half_width)))))',
                  'symmetrical = center -+ |half_width|', where=b.file)
    b = cx.fn('metrology::tolerance_map::DiscreteDomainTolMap::try_new')
    if b:
        for s in b.aggregates('metrology::tolerance_map::DiscreteDomainTolMap'):
            g = cx.guarded(b, s.bb, '(eq (len (param domain)) (len (param tol_zones)))', True)
            cx.ob('GUARD', 'DiscreteDomainTolMap::try_new', g is not None, 'map is built only when #breakpoints == #zones', where=s,
                  found='; '.join(cx.show_guards(b, s.bb)))
    b = cx.fn('metrology::tolerance_map::DiscreteDomainTolMap::get')
    if b:
        r = cx.retval(b)
        e = find('(agg *Option::Some (0 (index (self tol_zones) (unwrap (call *DiscreteDomain::index_of (self domain) (param x))))))', r)
        cx.ob('EXPR', 'DiscreteDomainTolMap::get:index', e is not None, 'the zone returned is tol_zones[i] for the i that domain.index_of(x) returned', where=b.file, found=r)
        e = find('(agg *Option::Some (0 (index (self tol_zones) (sub (len (self tol_zones)) 1))))', r)
        cx.ob('EXPR', 'DiscreteDomainTolMap::get:last', e is not None, 'beyond the end the last zone is returned', where=b.file, found=r)


def run_thorough(cx):
    """thorough tier: the generic evaluators this property relies on must fire on their positive fixture twins"""
    from rules import fixture_check as FX
    FX.txn(cx)
    FX.comut(cx)
    FX.enc(cx)
    from vpa import witness as W
    W.check(cx, ['C16DeviationSetNoIndexMut', 'C16CloudArraysPrivate'])
