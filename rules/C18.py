"""C18 Angle normalisation and interval arithmetic are consistent - structural clauses (ranges, congruence, interval construction)."""
import math
from vpa import evaluators as E
from vpa import rangeai as R
from vpa.core import show, Site, simplify, subterms
from vpa.pattern import match, find

EXPLANATION = """Obligations behind C18: (RANGE, a path-sensitive interval / difference-constraint / congruence abstract interpretation of the six
loop-free scalar functions, real arithmetic, closed bounds): angle_to_2pi returns a value in [0, 2pi] congruent to its argument
modulo 2pi on every path; angle_signed_pi in [-pi, pi], congruent; angle_in_direction in [0, 2pi] for both AngleDir arms (needs
the branch fact t1 > t0 => t0 - t1 < 0); signed_angle in [-pi, pi]; directed_angle in [0, 2pi]; AngleInterval::new stores
start in [0, 2pi] and extent in [0, 2pi] on both branches, start through angle_to_2pi of start (or start+angle for a negative
extent); (CONSTRUCT) Interval::new / try_new store min(p,q), max(p,q) of the SAME two arguments behind a NaN rejection;
new_unchecked is the only other construction site; (EXPR) the set predicates have their defining shape: contains = x>=min and
x<=max, contains_interval = contains(o.min) and contains(o.max), overlaps = contains(o.min) or o.contains(min), length =
max - min, intersection = new(max(min,min'), min(max,max')) under overlaps, clamp = max(min(x,max),min); AngleInterval::intersects =
contains(o.start) or o.contains(start); signed_compliment_2pi = a - 2pi for a >= 0, a + 2pi otherwise. Round 5: signed_angle = atan2(cross, dot) of its arguments on every path (no tolerance branch)."""
NOT_DECIDED = "relations between two results beyond the zero case (rotating the first by the directed angle gives the second; Cw + Ccw = full turn), the numerical margin of AngleInterval::contains (its two-branch shape is pinned), magnitudes ~ 1e6 where % loses bits, one-ulp neighbourhoods"
ASSUMPTIONS = ["real arithmetic with closed bounds (the property states closed ranges because rounding lands on the end points)",
               "fmod: |x % m| < m with the sign of x; atan2 in [-pi, pi]"]

PI = math.pi
TAU = 2 * math.pi
EPS = 1e-9


def within(rr, lo, hi):
    return rr is not None and rr[0] >= lo - EPS and rr[1] <= hi + EPS


def bool_alts(cx, b):
    """gated alternatives of a bool-returning function: [(value DAG, {(atom text, polarity)})]"""
    ex = b.exits()[0]
    out = []
    for (bb, dv, g) in cx.alts(b, {'k': 'copy', 'pl': {'l': 0, 'p': []}}, ex, len(b.blocks[ex]['stmts']) + 1):
        out.append((dv, {(show(a), p) for a, p in g}))
    return out


def angle_interval_new_shape(cx, b):
    """shared with C11 (arc boxes are filtered through AngleInterval::new(angle0, angle).contains): a full turn stays a full turn"""
    # start normalised through angle_to_2pi of start (extent >= 0) resp. start + angle (extent < 0)
    lits = b.aggregates('common::angles::AngleInterval')
    # one literal per branch, or one literal fed by `let (start, angle) = if angle < 0.0 {..} else {..}`: the field values are separated by
    # the polarity of `angle < 0.0` either way
    seen = {True: None, False: None}
    for s in lits:
        rv = s.data['rv']
        fields = rv.get('fields', [])
        if sorted(fields) != ['angle', 'start']:
            continue
        cs = cx.cases_by(b, s, rv['ops'], '(lt (param angle) 0.0)')
        for pol in (True, False):
            vals = dict(zip(fields, cs[pol]))
            if all(v is not None for v in vals.values()):
                seen[pol] = vals
    okn = 1 <= len(lits) <= 2 and seen[True] is not None and seen[False] is not None
    if okn:
        okn = match('(call *angle_to_2pi (add (param angle) (param start)))', seen[True]['start']) is not None and \
            match('(call f64::min (call f64::abs (param angle)) TAU)', seen[True]['angle']) is not None and \
            match('(call *angle_to_2pi (param start))', seen[False]['start']) is not None and match('(call f64::min (param angle) TAU)', seen[False]['angle']) is not None
    if not okn and len(lits) == 1:
        # `Self { start: angle_to_2pi(begin), angle: sweep.min(2pi) }` after `let (begin, sweep) = if angle < 0.0 {..} else {..}`: the normaliser and the clamp are
        # applied once, after the merge - their ARGUMENTS are separated by the polarity of `angle < 0.0`
        fv = dict(cx.aggval(lits[0])[2:])
        n2, mn = b.calls('*angle_to_2pi'), b.calls('f64::min')
        if len(n2) == 1 and len(mn) == 1 and match('(call *angle_to_2pi _)', fv.get('start')) is not None and match('(call f64::min _ TAU)', fv.get('angle')) is not None:
            c1 = cx.cases_by(b, n2[0], n2[0].data['args'][:1], '(lt (param angle) 0.0)')
            c2 = cx.cases_by(b, mn[0], mn[0].data['args'][:1], '(lt (param angle) 0.0)')
            okn = all(x and x[0] is not None for x in (c1[True], c1[False], c2[True], c2[False])) and \
                match('(add (param angle) (param start))', c1[True][0]) is not None and match('(param start)', c1[False][0]) is not None and \
                match('(call f64::abs (param angle))', c2[True][0]) is not None and match('(param angle)', c2[False][0]) is not None
    cx.ob('EXPR', 'AngleInterval::new:shape', okn, 'a negative extent is the same set swept backwards: start := angle_to_2pi(start + angle), extent := min(|angle|, 2pi); otherwise angle_to_2pi(start), min(angle, 2pi)', where=b.file)


def run(cx):
    summ = {}
    # ---------------------------------------------------------------- RANGE
    specs = [
        ('common::angles::angle_to_2pi', 0.0, TAU, True, 2),
        ('common::angles::angle_signed_pi', -PI, PI, True, 3),
        ('geom2::angles2::signed_angle', -PI, PI, False, 1),
        ('common::angles::angle_in_direction', 0.0, TAU, False, 4),
        ('geom2::angles2::directed_angle', 0.0, TAU, False, 2),
    ]
    for fn, lo, hi, cong, minpaths in specs:
        b = cx.fn(fn)
        if not b:
            continue
        it = R.analyse(b, summ)
        rr = R.result_range(it)
        short = fn.split('::')[-1]
        cx.ob('RANGE', f'{short}:analysable', rr is not None and not it.problems and rr[3] >= minpaths,
              f'{short}: loop-free scalar function, {rr[3] if rr else 0} feasible path(s) interpreted', where=b.file, found='; '.join(it.problems) or str(rr))
        cx.ob('RANGE', f'{short}:range', within(rr, lo, hi),
              f'{short}: every path returns a value in [{lo:.6g}, {hi:.6g}]', where=b.file, found=f'hull over {rr[3]} paths: [{rr[0]:.6g}, {rr[1]:.6g}]' if rr else None)
        if cong:
            cx.ob('RANGE', f'{short}:congruent', rr is not None and rr[2],
                  f'{short}: on every path the result is the argument shifted by a multiple of 2*pi (taken through `% 2pi` and `+- 2pi` only): it denotes the same direction', where=b.file)
        if rr and within(rr, lo, hi) and fn in ('common::angles::angle_to_2pi', 'common::angles::angle_signed_pi', 'geom2::angles2::signed_angle'):
            summ[fn] = (lo, hi, cong and rr[2])
    # directed_angle of two vectors in the SAME direction is zero in both senses (not a full turn): with the signed angle pinned to 0
    # the interpreter must find the result range [0, 0] (a wrap test `a <= 0` would add 2*pi at zero)
    b = cx.fn('geom2::angles2::directed_angle')
    if b:
        it0 = R.analyse(b, dict(summ, **{'geom2::angles2::signed_angle': (0.0, 0.0, False)}))
        rr0 = R.result_range(it0)
        cx.ob('RANGE', 'directed_angle:zero-stays-zero', rr0 is not None and not it0.problems and abs(rr0[0]) < 1e-12 and abs(rr0[1]) < 1e-12,
              'when the signed angle between the vectors is 0 the directed angle is 0 for Cw and for Ccw (the 2*pi correction applies to strictly negative angles only): "Cw + Ccw is a full turn or both are zero"',
              where=b.file, found=f'[{rr0[0]:.6g}, {rr0[1]:.6g}]' if rr0 else None)
    # signed_angle is atan2(cross, dot) of its two arguments on EVERY path: a tolerance short-cut ("collinear -> 0") would report
    # exactly opposite vectors as zero rotation, and both directed senses with it
    b = cx.fn('geom2::angles2::signed_angle')
    if b:
        cx.expect('EXPR', 'signed_angle:formula', cx.retval(b),
                  '(call f64::atan2 (sub (mul (field x (param v1)) (field y (param v2))) (mul (field x (param v2)) (field y (param v1)))) '
                  '(add (mul (field x (param v1)) (field x (param v2))) (mul (field y (param v1)) (field y (param v2)))))',
                  'signed_angle(v1, v2) = atan2(v1 x v2, v1 . v2) on every path (no early return, no tolerance branch: opposite vectors are a half turn, not zero)', where=b.file)
    # AngleInterval::new: both stored fields
    b = cx.fn('common::angles::AngleInterval::new')
    if b:
        it = R.analyse(b, summ)
        los = {'start': (math.inf, -math.inf), 'angle': (math.inf, -math.inf)}
        n = 0
        ok_shape = True
        for v, st in it.results:
            if v[0] != 'g':
                ok_shape = False
                continue
            n += 1
            for f in ('start', 'angle'):
                fv = v[3].get(f)
                if not fv or fv[0] != 'f':
                    ok_shape = False
                    continue
                a, c = st.bounds(fv[1])
                los[f] = (min(los[f][0], a), max(los[f][1], c))
        cx.ob('RANGE', 'AngleInterval::new:analysable', ok_shape and n >= 2 and not it.problems, f'AngleInterval::new: {n} feasible path(s) interpreted', where=b.file, found='; '.join(it.problems))
        for f in ('start', 'angle'):
            cx.ob('RANGE', f'AngleInterval::new:{f}', ok_shape and los[f][0] >= -EPS and los[f][1] <= TAU + EPS,
                  f'AngleInterval::new stores {f} in [0, 2pi] on every path', where=b.file, found=f'[{los[f][0]:.6g}, {los[f][1]:.6g}]')
        angle_interval_new_shape(cx, b)
    E.enc(cx, 'common::angles::AngleInterval', ('start', 'angle'), constructors=['common::angles::AngleInterval::new'])
    b = cx.fn('common::angles::AngleInterval::intersects')
    if b:
        al = bool_alts(cx, b)
        C1 = '(call common::angles::AngleInterval::contains (param self) (field start (param other)))'
        ok = len(al) == 2
        for dv, g in al:
            if dv == ('const', True):
                ok = ok and (C1, True) in g
            else:
                ok = ok and match('(call *AngleInterval::contains (param other) (field start (param self)))', dv) is not None and (C1, False) in g
        cx.ob('EXPR', 'AngleInterval::intersects', ok, 'intersects = self.contains(other.start) or other.contains(self.start)', where=b.file)
    b = cx.fn('common::angles::signed_compliment_2pi')
    if b:
        al = bool_alts(cx, b)
        ok = len(al) == 2
        for dv, g in al:
            pos = ('(le 0.0 (param radians))', True) in g
            negv = ('(le 0.0 (param radians))', False) in g
            ok = ok and ((pos and match('(add -6.283185307179586 (param radians))', dv) is not None) or (negv and match('(add 6.283185307179586 (param radians))', dv) is not None))
        cx.ob('EXPR', 'signed_compliment_2pi', ok, 'the signed complement is a - 2pi for a >= 0 and a + 2pi otherwise', where=b.file)
    b = cx.fn('common::angles::AngleInterval::at_fraction')
    if b:
        cx.expect('EXPR', 'AngleInterval::at_fraction', cx.retval(b), '(add (self start) (mul (self angle) (param f)))', 'at_fraction = start + extent * f', where=b.file)
    # ---------------------------------------------------------------- Interval construction
    IV = 'common::interval::Interval'
    sites = E.enc(cx, IV, (), constructors=[f'{IV}::new', f'{IV}::try_new', f'{IV}::new_unchecked']) or []
    for fn in ('new', 'try_new'):
        b = cx.fn(f'{IV}::{fn}')
        if not b:
            continue
        for s in b.aggregates(IV):
            d = cx.aggval(s)
            e = match('(agg * (min (call f64::min $p $q)) (max (call f64::max $p $q)))', d)
            ok = e is not None and e['p'][0] == 'param' and e['q'][0] == 'param' and e['p'] != e['q']
            cx.ob('CONSTRUCT', f'Interval::{fn}:normalised-pair', ok, f'Interval::{fn} stores min(p,q) and max(p,q) of the SAME two arguments: bounds are ordered whatever the argument order', where=s, found=d)
            if fn == 'try_new':
                g1 = cx.guarded(b, s.bb, '(call f64::is_nan (param min))', False) is not None
                g2 = cx.guarded(b, s.bb, '(call f64::is_nan (param max))', False) is not None
                cx.ob('GUARD', 'Interval::try_new:nan', g1 and g2, 'try_new builds an interval only when neither bound is NaN', where=s)
            else:
                g1 = cx.guarded(b, s.bb, '(call f64::is_nan (param min))', False) is not None
                g2 = cx.guarded(b, s.bb, '(call f64::is_nan (param max))', False) is not None
                cx.ob('GUARD', 'Interval::new:nan', g1 and g2, 'new asserts that neither bound is NaN before building the interval', where=s)
    # ---------------------------------------------------------------- set predicates
    b = cx.fn('common::angles::AngleInterval::contains')
    if b:
        A = '(call *angle_to_2pi (param angle))'
        S_, E_ = '(field start (param self))', '(field angle (param self))'
        END = f'(add (add {E_} {S_}) $tol)'
        rets = cx.rets(b)
        seen = {}
        for s_, d in rets:
            at = cx.guarded(b, s_.bb, f'(le (sub {S_} $t0) {A})', True)
            bf = cx.guarded(b, s_.bb, f'(le (sub {S_} $t0) {A})', False)
            if at is not None and match(f'(le {A} {END})', d) is not None:
                seen['at-or-after-start'] = at['t0'][0] == 'const' and 0 < at['t0'][1] <= 1e-9
            elif bf is not None and match(f'(le (add {A} TAU) {END})', d) is not None:
                seen['before-start'] = True
            else:
                seen['other'] = show(d)[:160]
        cx.ob('EXPR', 'AngleInterval::contains', seen == {'at-or-after-start': True, 'before-start': True},
              'with a = angle_to_2pi(angle): a at or after start (less a small constant slack) is inside iff a <= start + extent + slack; an a before start is inside iff a + 2pi <= start + extent + slack '
              '(the part of the interval that wraps past 2pi) - so an interval ending exactly on the 0/2pi seam contains its end angle', where=b.file, found=str(seen))
    b = cx.fn(f'{IV}::contains')
    if b:
        al = bool_alts(cx, b)
        GE = '(le (field min (param self)) (param x))'
        ok = len(al) == 2
        for dv, g in al:
            if dv == ('const', False):
                ok = ok and (GE, False) in g
            else:
                ok = ok and match('(le (param x) (field max (param self)))', dv) is not None and (GE, True) in g
        cx.ob('EXPR', 'Interval::contains', ok, 'contains(x) = x >= min and x <= max (closed on both ends)', where=b.file)
    b = cx.fn(f'{IV}::contains_interval')
    if b:
        al = bool_alts(cx, b)
        C1 = '(call common::interval::Interval::contains (param self) (field min (param other)))'
        ok = len(al) == 2
        for dv, g in al:
            if dv == ('const', False):
                ok = ok and (C1, False) in g
            else:
                ok = ok and match('(call *Interval::contains (param self) (field max (param other)))', dv) is not None and (C1, True) in g
        cx.ob('EXPR', 'Interval::contains_interval', ok, 'contains_interval(o) = contains(o.min) and contains(o.max)', where=b.file)
    b = cx.fn(f'{IV}::overlaps')
    if b:
        al = bool_alts(cx, b)
        C1 = '(call common::interval::Interval::contains (param self) (field min (param other)))'
        ok = len(al) == 2
        for dv, g in al:
            if dv == ('const', True):
                ok = ok and (C1, True) in g
            else:
                ok = ok and match('(call *Interval::contains (param other) (field min (param self)))', dv) is not None and (C1, False) in g
        cx.ob('EXPR', 'Interval::overlaps', ok, 'overlaps(o) = contains(o.min) or o.contains(min): symmetric in the two intervals', where=b.file)
    b = cx.fn(f'{IV}::intersection')
    if b:
        somes = [(s, d) for s, d in cx.rets(b) if d[0] == 'agg' and d[1].endswith('Option::Some')]
        nones = [(s, d) for s, d in cx.rets(b) if d[0] == 'agg' and d[1].endswith('Option::None')]
        ok = len(somes) == 1 and len(nones) == 1
        if ok:
            s, d = somes[0]
            LO = '(call f64::max (field min (param self)) (field min (param other)))'
            HI = '(call f64::min (field max (param self)) (field max (param other)))'
            shape = match(f'(agg * (0 (call *Interval::new {LO} {HI})))', d) is not None or match(f'(agg * (0 (call *Interval::new_unchecked {LO} {HI})))', d) is not None or \
                match(f'(agg * (0 (agg *Interval (min {LO}) (max {HI}))))', d) is not None
            # two equivalent tests: the overlap predicate, or the closed comparison of the candidate bounds (lo <= hi)
            by_pred = cx.guarded(b, s.bb, '(call *Interval::overlaps (param self) (param other))', True) is not None and \
                cx.guarded(b, nones[0][0].bb, '(call *Interval::overlaps (param self) (param other))', False) is not None
            by_bounds = cx.guarded(b, s.bb, f'(le {LO} {HI})', True) is not None and cx.guarded(b, nones[0][0].bb, f'(le {LO} {HI})', False) is not None
            ok = shape and (by_pred or by_bounds)
        cx.ob('EXPR', 'Interval::intersection', ok, 'intersection = [max(min,min\'), min(max,max\')] exactly when the intervals overlap (a commutative expression contained in both operands)', where=b.file)
    for fn, pat, what in ((f'{IV}::clamp', '(call f64::max (call f64::min (param x) (field max (param self))) (field min (param self)))', 'clamp(x) = max(min(x, max), min)'),
                          (f'{IV}::length', '(sub (field max (param self)) (field min (param self)))', 'length = max - min')):
        b = cx.fn(fn)
        if b:
            cx.expect('EXPR', '::'.join(fn.split('::')[-2:]), cx.retval(b), pat, what, where=b.file)


def run_thorough(cx):
    """thorough tier: the generic evaluators this property relies on must fire on their positive fixture twins"""
    from rules import fixture_check as FX
    FX.enc(cx)
    from vpa import witness as W
    W.check(cx, ['C18AngleIntervalPrivate'])
