"""C09 Least-squares fits are optimal - structural clauses (moment coverage, state coherence, guards)."""
from vpa import evaluators as E
from vpa.core import show, Site, simplify, subterms
from vpa.pattern import match, find

EXPLANATION = """Structural obligations behind C09: (INDEXCOV) in Polynomial::<K>::least_squares every slot of the zero-initialised moment
accumulator `sums` that the Hankel assembly reads (sums[r+c], r,c in 0..K) is accumulated by one of the loops, for every K the
crate instantiates (2..6): a slot that is read but never written still holds 0, so the normal equations are assembled from a
moment that was never summed; slot k accumulates w*x^k with the same weight w that enters rhs; matrix[(r,c)] = sums[r+c];
(COMUT) CircleFit::set_params rewrites x, circle, base_residuals and weights in dependency order from the NEW parameters;
residuals() and jacobian() use weights[i] of the same row i, the Jacobian row is (-n.x, -n.y, -1)*w with n the unit vector from
the CURRENT circle centre; (GUARD) from_3_points returns Err under |det| < 1e-6 and builds the circle only otherwise, the radius
being the distance from the computed centre to one of the three points; fit_circle returns Ok only when the solver reports
success and returns the minimised problem's circle; ransac uses a constant seed and replaces the best only under count >
best_count.
Every minimize in the crate runs LevenbergMarquardt::new() with its default (relative, tight) tolerances. Round 5 (shared with C17): DiscreteDomain::try_from stores the vector it was handed element for element (Series1 pairs x[i] with y[i] and compares the lengths before the conversion)."""
NOT_DECIDED = "optimality of any fit, conditioning of the inverse, convergence of the circle fit, that RANSAC finds the best-supported circle (only: every candidate is compared on its full support, and the best is replaced under strictly more inliers)"
ASSUMPTIONS = ["vec![0.0; n] is zero-initialised", "Iterator::enumerate().take(t).skip(s) yields indices s..min(t, len)"]

KS = (2, 3, 4, 5, 6)


def ev(d, K):
    """evaluate an affine integer expression in the const generic K"""
    if d[0] == 'const':
        if d[1] == 'K':
            return K
        if isinstance(d[1], (int, float)) and not isinstance(d[1], bool):
            return int(d[1])
        return None
    if d[0] in ('add', 'sub', 'mul') and len(d) == 3:
        a, b = ev(d[1], K), ev(d[2], K)
        if a is None or b is None:
            return None
        return a + b if d[0] == 'add' else a - b if d[0] == 'sub' else a * b
    if d[0] == 'cast':
        return ev(d[2], K)
    return None


def index_set(d, K, n):
    """set of indices denoted by an index expression built from range loop variables / enumerate chains"""
    if d[0] == 'itervar' and d[1][0] == 'range':
        a, b = ev(d[1][1], K), ev(d[1][2], K)
        if a is None or b is None:
            return None
        return set(range(a, b))
    if d[0] == 'add' and len(d) == 3:
        a, b = index_set(d[1], K, n), index_set(d[2], K, n)
        if a is None or b is None:
            return None
        return {x + y for x in a for y in b}
    v = ev(d, K)
    if v is not None:
        return {v}
    m = match('(field 0 (itervar $src))', d)
    if m:
        return enum_chain(m['src'], K, n)
    return None


def enum_chain(src, K, n):
    """indices produced by enumerate() over an n-element collection followed by take/skip adapters"""
    lo, hi = 0, n
    cur = src
    # adapters are applied inside-out: skip(take(enumerate(X), t), s)
    stack = []
    while cur[0] == 'call' and cur[1] in ('Iterator::skip', 'Iterator::take'):
        stack.append((cur[1], cur[3]))
        cur = cur[2]
    if not (cur[0] == 'call' and cur[1] == 'Iterator::enumerate'):
        return None
    for name, arg in reversed(stack):
        v = ev(arg, K)
        if v is None:
            return None
        if name == 'Iterator::take':
            hi = min(hi, lo + v)
        else:
            lo = lo + v
    return set(range(lo, max(lo, hi)))



def solver_defaults_rule(cx):
    """shared by C07 and C09: every Levenberg-Marquardt run uses the solver's default (tight, relative) stopping tolerances"""
    sites = []
    for b in E.user_bodies(cx.facts):
        for s in b.calls('*::minimize'):
            if 'LevenbergMarquardt' in (b.callee(s.data)[1] or '') or match('(has (call LevenbergMarquardt::new))', cx.arg(s, 0)) is not None:
                sites.append((b, s))
    ok = True
    bad = []
    for b, s in sites:
        cx.analysed_fns.add(b.name)
        if match('(call LevenbergMarquardt::new)', cx.arg(s, 0)) is None:
            ok = False
            bad.append(f'{b.name}: {show(cx.arg(s, 0))[:160]}')
    cx.ob('EXPR', 'LevenbergMarquardt:default-tolerances', ok and len(sites) >= 3,
          'every minimisation runs LevenbergMarquardt::new() unmodified: the default ftol / xtol / gtol are relative and tight, a loosened one stops short of the stationary point '
          '(circle far from the origin, pose with a large lever arm)', found='; '.join(bad) or f'{len(sites)} minimize sites')

def from_3_points_rules(cx):
    """shared with C11: Arc2::three_points builds its circle through from_3_points (a collinearity tolerance scaled by the distance from the ORIGIN rejects
    small well-conditioned triples far from it)"""
    # ---------------------------------------------------------------- from_3_points
    b = cx.fn('geom2::circle2::Circle2::from_3_points')
    if b:
        rets = cx.rets(b)
        okg = True
        for s, d in rets:
            if d[0] == 'agg' and d[1].endswith('Result::Err'):
                okg = okg and cx.guarded(b, s.bb, '(lt (call f64::abs $det) 1e-06)', True) is not None
            elif d[0] == 'agg' and d[1].endswith('Result::Ok'):
                g = cx.guarded(b, s.bb, '(lt (call f64::abs $det) 1e-06)', False)
                okg = okg and g is not None
                e = match('(agg * (0 (call *Circle2::new $cx $cy $r)))', d)
                okr = e is not None and any(match(f'(call f64::sqrt (add (call f64::powi (sub $cx (field x (param {p}))) 2) (call f64::powi (sub $cy (field y (param {p}))) 2)))', e['r'], e) is not None for p in ('p0', 'p1', 'p2'))
                cx.ob('EXPR', 'from_3_points:radius', okr, 'the radius is the distance from the computed centre to one of the three points', where=s)
                if e and g:
                    cx.ob('EXPR', 'from_3_points:det-shared', match('(div _ $det)', e['cx'], g) is not None and match('(div _ $det)', e['cy'], g) is not None,
                          'the determinant that is tested for collinearity is the one both centre coordinates are divided by', where=s)
        cx.ob('GUARD', 'from_3_points:collinear', okg and len(rets) == 2, 'Err exactly under |det| < 1e-6; the circle is built only otherwise', where=b.file)


def run(cx):
    from rules.C17 import try_from_stores_input
    try_from_stores_input(cx)
    solver_defaults_rule(cx)
    b = cx.fn('func1::polynomial::Polynomial::least_squares')
    if b:
        dag = b.dag()
        # the accumulator
        # found by role, not by name: the zero-initialised vector of 2K+1 moments, the K x 1 right-hand side, the K x K matrix
        accs = cx.locals_by_def(b, "(call vec::from_elem 0.0 _)")
        acc = accs[0] if len(accs) == 1 else None
        rhs_l = set(cx.locals_by_def(b, "(call Matrix::zeros _ 1)"))
        mat_l = set(cx.locals_by_def(b, "(call Matrix::zeros $k $k)"))
        cx.ob('INDEXCOV', 'least_squares:accumulator', acc is not None, 'the moment accumulator `sums` exists')
        if acc is not None:
            init = [d for d in b.defs().get(acc, []) if d[2] == 'call']
            n_expr = None
            if init:
                c = simplify(dag.call_dag(init[0][3], init[0][0]))
                m = match('(call vec::from_elem 0.0 $n)', c)
                n_expr = m['n'] if m else None
            cx.ob('INDEXCOV', 'least_squares:zero-init', n_expr is not None, 'sums is created as vec![0.0; n]', found=show(c) if init else None)
            # writes
            writes = []
            for m in b.mutations():
                if m.root != acc or m.kind != 'store':
                    continue
                pl = m.data['pl']
                base = simplify(dag.local(pl['l'], m.bb, m.idx))
                val = simplify(dag.rvalue(m.data['rv'], m.bb, m.idx))
                idx = None
                mm = match('(index _ $i)', base)
                if mm:
                    idx = mm['i']
                else:
                    mm = match('(field 1 (itervar $src))', base)
                    if mm:
                        idx = ('field', '0', ('itervar', mm['src']))
                writes.append((idx, val, Site(b, m.bb, m.idx, 'store', m.data)))
            reads = []
            for bi in b.live:
                if bi not in b.reachable():
                    continue
                for si, s in enumerate(b.blocks[bi]['stmts']):
                    pass
            # reads of sums outside the accumulation: the value stored into `matrix`
            mat = [m for m in b.mutations() if m.root in mat_l and m.kind == 'store']
            read_idx = []
            for m in mat:
                val = simplify(dag.rvalue(m.data['rv'], m.bb, m.idx))
                tgt = simplify(dag.local(m.data['pl']['l'], m.bb, m.idx))
                mm = match('(index $s $i)', val)
                tt = match('(index _ (agg tuple (0 $r) (1 $c)))', tgt)
                if mm and tt:
                    read_idx.append(mm['i'])
                    cx.ob('EXPR', 'least_squares:hankel', match('(add $r $c)', mm['i'], tt) is not None and tt['r'] != tt['c'],
                          'matrix[(r, c)] = sums[r + c] with r and c the two (distinct) loop variables', where=Site(b, m.bb, m.idx, 'store', m.data), found=val)
            cx.ob('INDEXCOV', 'least_squares:sites', len(writes) == 2 and len(read_idx) == 1, f'two accumulation sites and one read site of sums ({len(writes)} / {len(read_idx)})')
            if n_expr is not None and writes and read_idx:
                for K in KS:
                    n = ev(n_expr, K)
                    W = set()
                    okw = True
                    for idx, val, site in writes:
                        s = index_set(idx, K, n) if idx is not None else None
                        if s is None:
                            okw = False
                        else:
                            W |= s
                    R = set()
                    for i in read_idx:
                        s = index_set(i, K, n)
                        if s is None:
                            okw = False
                        else:
                            R |= s
                    missing = sorted(R - W)
                    cx.ob('INDEXCOV', f'least_squares:K={K}', okw and not missing and max(R) < n,
                          f'Polynomial<{K}>: every moment sums[j] read by the normal equations (j in {sorted(R)[0]}..={sorted(R)[-1]}) is accumulated (written: {sorted(W)})',
                          where=b.file, found=f'slot(s) {missing} are read but never accumulated: they keep their initial 0' if missing else None)
            # what is accumulated: slot k += w * x_i^k
            from vpa import comp as CMP
            for idx, val, site in writes:
                k = idx
                val = CMP.canon2(val)       # samples read as xs[i] in an index loop or as the items of xs.iter().zip(ys.iter()).enumerate()
                e = match('(add _ (mul $w (call f64::powi (index (param xs) $i) (cast int $k))))', val) or match('(add _ (mul $w (call f64::powi (index (param xs) $i) $k)))', val)
                okk = e is not None and (e['k'] == k or match('(field 0 (itervar $s))', e['k']) is not None and k[0] == 'field' and e['k'] == k)
                okw = e is not None and match('(call *Weights::get _ $i)', e['w'], {'i': e['i']}) is not None
                cx.ob('EXPR', f'least_squares:term:{"head" if k and k[0] == "itervar" else "tail"}', okk and okw,
                      'slot k accumulates w_i * x_i^k with k the slot index and w_i the weight of sample i', where=site, found=val)
        # every sample contributes: within one cycle of the loop over the samples no path skips an accumulation loop
        loops = b.loops()
        sample_loops = [lp for lp in loops if any(c.bb == lp[0] and match('(call Range::next (phi (agg *Range (start 0) (end (len (param xs)))) (loop)))', cx.call(c)) is not None for c in b.calls('Range::next'))]
        if not sample_loops:
            # the samples iterated as xs.iter().zip(ys.iter()).enumerate()
            sample_loops = [lp for lp in loops if any(c.bb == lp[0] and match('(call *::next (anyphi (call Iterator::enumerate (call Iterator::zip (or (param xs) (call *::iter (param xs))) (or (param ys) (call *::iter (param ys)))))))', cx.call(c)) is not None
                                                      for c in b.calls('*::next'))]
        oke = len(sample_loops) == 1
        if oke and acc is not None:
            h, blocks, backs = sample_loops[0]
            acc_blocks = [m.bb for m in b.mutations() if m.kind == 'store' and (m.root == acc or m.root in rhs_l) and m.bb in blocks]
            inner = [lp for lp in loops if lp[0] != h and lp[0] in blocks and any(x in lp[1] for x in acc_blocks)]
            oke = len(inner) >= 2 and all(all(b.dominates(lp[0], s) for s in backs) for lp in inner)
        cx.ob('ORDER', 'least_squares:every-sample', oke,
              'every sample (x_i, y_i, w_i) reaches both accumulation loops: no sample is skipped on any path of the sample loop (a dropped sample changes the objective being minimised)', where=b.file)
        rhs = [m for m in b.mutations() if m.root in rhs_l and m.kind == 'store']
        okr = False
        for m in rhs:
            val = CMP.canon2(simplify(dag.rvalue(m.data['rv'], m.bb, m.idx)))
            tgt = simplify(dag.local(m.data['pl']['l'], m.bb, m.idx))
            e = match('(add _ (mul (mul $w (call f64::powi (index (param xs) $i) $k)) (index (param ys) $i)))', val)
            t = match('(index _ (agg tuple (0 $k) (1 0)))', tgt)
            if e and t and e['k'] == t['k'] and match('(call *Weights::get _ $i)', e['w'], {'i': e['i']}) is not None and match("(itervar (range 0 'K'))", e['k']) is not None:
                okr = True
        cx.ob('EXPR', 'least_squares:rhs', okr, 'rhs[k] accumulates w_i * x_i^k * y_i for every k in 0..K with the same weight', where=b.file)
        mm = [cx.call(s) for s in b.calls('Matrix::mul')]
        cx.ob('EXPR', 'least_squares:solve', any(match('(call Matrix::mul (unwrap (call Matrix::try_inverse _)) _)', x) is not None for x in mm), 'coefficients = M^-1 * rhs', where=b.file)
    b = cx.fn('func1::polynomial::Weights::get')
    if b:
        cx.expect('EXPR', 'Weights::get', cx.retval(b), '(phi 1.0 (index (unwrap (self values)) (param i)))', 'weight i is values[i], or 1 when no weights are given', where=b.file)

    # ---------------------------------------------------------------- CircleFit
    CF = 'geom2::circle2::CircleFit'
    b = cx.fn(f'{CF}::set_params')
    if b:
        muts = {m.path[0]: m for m in b.mutations() if m.root == 1 and m.path}
        cx.ob('COMUT', 'CircleFit::set_params:fields', set(muts) == {'x', 'circle', 'base_residuals', 'weights'},
              'set_params rewrites x, circle, base_residuals and weights (everything residuals()/jacobian() read that depends on the parameters)', where=b.file, found=str(sorted(muts)))
        if set(muts) >= {'x', 'circle', 'base_residuals', 'weights'}:
            xv = simplify(b.dag().rvalue(muts['x'].data['rv'], muts['x'].bb, muts['x'].idx))
            cx.expect('EXPR', 'CircleFit::set_params:x', xv, '(param x)', 'the stored parameter vector is the new one', where=b.file)
            cv = simplify(b.dag().rvalue(muts['circle'].data['rv'], muts['circle'].bb, muts['circle'].idx))
            cx.expect('EXPR', 'CircleFit::set_params:circle', cv, '(call *Circle2::new (index (param x) 0) (index (param x) 1) (index (param x) 2))', 'circle = (x[0], x[1], r = x[2]) of the NEW parameters', where=b.file)
            r = muts['base_residuals']
            rs = Site(b, r.bb, len(b.blocks[r.bb]['stmts']), 'call', r.data)
            okres = r.callee.endswith('compute_residuals_mut') and match('(call *Circle2::new (index (param x) 0) (index (param x) 1) (index (param x) 2))', cx.arg(rs, 1)) is not None and \
                match('(self points)', cx.arg(rs, 0)) is not None
            cx.ob('ORDER', 'CircleFit::set_params:residuals-from-new-circle', okres, 'base residuals are recomputed from the NEW circle', where=rs, found=cx.arg(rs, 1))
            w = muts['weights']
            ws = Site(b, w.bb, len(b.blocks[w.bb]['stmts']), 'call', w.data)
            okw = w.callee.endswith('compute_weights_mut') and find('(mut *compute_residuals_mut base_residuals ...)', cx.arg(ws, 0)) is not None or \
                (w.callee.endswith('compute_weights_mut') and cx.arg(ws, 0)[0] == 'mut')
            cx.ob('ORDER', 'CircleFit::set_params:weights-after-residuals', okw, 'weights are recomputed from the freshly recomputed residuals', where=ws, found=cx.arg(ws, 0))
    b = cx.fn('geom2::circle2::compute_residuals_mut')
    if b:
        st = [m for m in b.mutations() if m.kind == 'store']
        ok = False
        for m in st:
            val = simplify(b.dag().rvalue(m.data['rv'], m.bb, m.idx))
            tgt = simplify(b.dag().local(m.data['pl']['l'], m.bb, m.idx))
            e = match('(call *Circle2::distance_to (param circle) (field 1 (itervar (call Iterator::enumerate (param points)))))', val)
            t = match('(index _ (field 0 (itervar (call Iterator::enumerate (param points)))))', tgt)
            ok = ok or (e is not None and t is not None)
        cx.ob('EXPR', 'compute_residuals_mut', ok, 'residual i is the signed radial distance of point i from the circle', where=b.file)
    b = cx.fn(f'{CF}::residuals')
    if b:
        st = [m for m in b.mutations() if m.kind == 'store']
        ok = False
        for m in st:
            from vpa import comp as CMP
            val = CMP.canon2(simplify(b.dag().rvalue(m.data['rv'], m.bb, m.idx)))       # `res[i] = ..` in an index loop or `*value = ..` over iter_mut().enumerate()
            tgt = CMP.canon2(simplify(b.dag().local(m.data['pl']['l'], m.bb, m.idx)))
            e = match('(mul (index (self base_residuals) $i) (index (self weights) $i))', val)
            if e and match('(index _ $i)', tgt, e):
                ok = True
        cx.ob('EXPR', 'CircleFit::residuals', ok, 'residual i = base_residuals[i] * weights[i] with one i', where=b.file)
    b = cx.fn(f'{CF}::jacobian')
    if b:
        st = [m for m in b.mutations() if m.kind == 'store']
        cols = {}
        for m in st:
            val = simplify(b.dag().rvalue(m.data['rv'], m.bb, m.idx))
            tgt = simplify(b.dag().local(m.data['pl']['l'], m.bb, m.idx))
            t = match('(index _ (agg tuple (0 $i) (1 $c)))', tgt)
            if not t:
                continue
            n = '(call Matrix::normalize (call OPoint::sub (field 1 (itervar (call Iterator::enumerate (self points)))) (field center (self circle))))'
            w = '(index (self weights) $i)'
            c = t['c'][1]
            pat = {0: f'(mul {w} (neg (field x {n})))', 1: f'(mul {w} (neg (field y {n})))', 2: f'(mul -1.0 {w})'}.get(c)
            cols[c] = pat is not None and match(pat, val, {'i': t['i']}) is not None
        cx.ob('EXPR', 'CircleFit::jacobian', cols == {0: True, 1: True, 2: True},
              'row i = (-n.x, -n.y, -1) * weights[i] with n the unit vector from the CURRENT circle centre to point i and the same i for the weight', where=b.file, found=str(cols))
    b = cx.fn('geom2::circle2::fit_circle')
    if b:
        oks = [(s, d) for s, d in cx.rets(b) if d[0] == 'agg' and d[1].endswith('Result::Ok')]
        ok = len(oks) == 1
        if ok:
            s, d = oks[0]
            g = cx.guarded(b, s.bb, '(call TerminationReason::was_successful (field termination (field 1 $res)))', True)
            ok = g is not None and match('(agg * (0 (field circle (field 0 $res))))', d, g) is not None and \
                match('(call LevenbergMarquardt::minimize _ (call *CircleFit::new (param points) (param mode) (param initial)))', g['res']) is not None
        cx.ob('GUARD', 'fit_circle:result', ok, 'Ok is returned only when the solver reports success, and it carries the circle of the MINIMISED problem', where=b.file)
    from_3_points_rules(cx)
    # ---------------------------------------------------------------- ransac
    b = cx.fn('geom2::circle2::Circle2::ransac')
    if b:
        seeds = b.calls('SeedableRng::seed_from_u64')
        oks = len(seeds) == 1 and cx.arg(seeds[0], 0)[0] == 'const'
        other = [s for s in b.calls('rand::rng|rand::random|*::from_os_rng|*::from_entropy|rand::thread_rng')]
        cx.ob('EXPR', 'ransac:seeded', oks and not other, 'the only randomness source is StdRng::seed_from_u64(constant): the result is reproducible', where=b.file)
        # best replaced only under count > best_count
        ok = False
        for bi in b.live:
            if bi not in b.reachable():
                continue
            for si, s in enumerate(b.blocks[bi]['stmts']):
                if not s['pl']['p'] and s['rv']['k'] == 'agg':     # any whole-local assignment of Some(candidate): the running best
                    v = simplify(b.dag().rvalue(s['rv'], bi, si))
                    if v[0] == 'agg' and v[1].endswith('Option::Some'):
                        g = [a for a, p in cx.guards(b, bi) if p and a[0] == 'lt']
                        ok = any(find('(loop)', a[1]) is not None or True for a in g) and len(g) >= 1 and \
                            any(match('(lt (phi 0 (loop)) _)', a) is not None or match('(lt (phi (loop) 0) _)', a) is not None or match('(lt (anyphi (loop)) _)', a) is not None for a in g)
        cx.ob('GUARD', 'ransac:improve-only', ok, 'a candidate replaces the best only when its inlier count is strictly greater than the best so far', where=b.file)
        c3 = b.calls('geom2::circle2::Circle2::from_3_points')
        okc = len(c3) == 1 and all(match('(index (param points) (call Uniform::sample _ _))', cx.arg(c3[0], k)) is not None for k in range(3))
        cx.ob('EXPR', 'ransac:candidates', okc, 'candidates are circles through three sampled input points', where=b.file)

    # ---------------------------------------------------------------- Gaussian weighting of the circle fit
    b = cx.fn('geom2::circle2::compute_weights_mut')
    if b:
        dag = b.dag()
        D = '(div (call f64::abs (or (sub _ (unwrap (call *compute_mean _))) (call f64::sub _ (unwrap (call *compute_mean _))))) (unwrap (call *compute_st_dev _)))'
        seen = {}
        for m in b.mutations():
            if m.kind != 'store' or not m.elem:
                continue
            rv = m.data['rv']
            # the stored weight: a constant per branch, or one store of `if d > sigma {0.0} else {1.0}` (alternatives with their guards)
            alts = cx.alts(b, rv['a'], m.bb, m.idx) if rv['k'] == 'use' else [(m.bb, simplify(dag.rvalue(rv, m.bb, m.idx)), cx.guards(b, m.bb))]
            for (dbb, val, g) in alts:
                if val not in (('const', 0.0), ('const', 1.0)):
                    continue
                lits = set(g) | set(cx.guards(b, m.bb))
                rej = any(p and match(f'(lt $sigma {D})', a) is not None for a, p in lits)
                keep = any((not p) and match(f'(lt $sigma {D})', a) is not None for a, p in lits)
                seen[val[1]] = 'rejected-under-d>sigma' if rej and not keep else ('kept-otherwise' if keep and not rej else 'other')
        cx.ob('GUARD', 'compute_weights_mut:outlier-test', seen == {0.0: 'rejected-under-d>sigma', 1.0: 'kept-otherwise'},
              'a sample gets weight 0 exactly when its score |r - mean| / std is greater than sigma and weight 1 otherwise - in particular when the score is NaN '
              '(all residuals equal, std = 0): `d <= sigma` is not the negation of `d > sigma` for floats', where=b.file, found=str(seen))
    # ---------------------------------------------------------------- Series1::best_fit_line (closed form) as an identity
    b = cx.fn('func1::series1::Series1::best_fit_line')
    if b:
        from vpa.poly import rat_equal
        rets = cx.rets(b)
        okf = len(rets) == 1
        e = match('(call *Polynomial::new_mxb $m $b)', rets[0][1]) if okf else None
        okf = e is not None
        if okf:
            X, Y = '(field x (param self))', '(field y (param self))'
            def atom(pat):
                f_ = find(pat, rets[0][1])
                return f_[0] if f_ else None
            n = atom(f'(cast f64 (len {X}))')
            sx = atom(f'(call Iterator::sum (call *::iter {X}))') or atom(f'(call Iterator::sum {X})')
            sy = atom(f'(call Iterator::sum {Y})') or atom(f'(call Iterator::sum (call *::iter {Y}))')
            sxx = sxy = None
            for sub_ in subterms(rets[0][1]):
                m_ = match('(call Iterator::sum (call Iterator::map $src (closure * ...)))', sub_)
                if m_ is None:
                    continue
                cls_ = [c for c in cx.facts.closures_of(b.name) if c.path == sub_[2][3][1] or c.name == sub_[2][3][1]]
                body_ = cx.retval(cls_[0]) if cls_ else None
                if body_ is None:
                    continue
                if match(f'(call *::iter {X})', m_['src']) is not None or match(X, m_['src']) is not None:
                    if match('(mul (param 2) (param 2))', body_) is not None or match('(call f64::mul (param 2) (param 2))', body_) is not None:
                        sxx = sub_
                elif match(f'(call Iterator::zip (call *::iter {X}) {Y})', m_['src']) is not None or match(f'(call Iterator::zip {X} {Y})', m_['src']) is not None:
                    if match('(mul (field 0 (param 2)) (field 1 (param 2)))', body_) is not None or match('(call f64::mul (field 0 (param 2)) (field 1 (param 2)))', body_) is not None:
                        sxy = sub_
            okf = all(v is not None for v in (n, sx, sy, sxx, sxy))
            if okf:
                M = ('div', ('sub', ('mul', n, sxy), ('mul', sx, sy)), ('sub', ('mul', n, sxx), ('mul', sx, sx)))
                B = ('div', ('sub', sy, ('mul', e['m'], sx)), n)
                okf = rat_equal(e['m'], M) and rat_equal(e['b'], B)
        cx.ob('ALGEBRA', 'best_fit_line', okf,
              'the only exit returns slope (n Sxy - Sx Sy) / (n Sxx - Sx^2) and intercept (Sy - m Sx) / n over the sums of x, y, x^2, xy of the whole series (no other return, no threshold on the denominator)',
              where=b.file)
    # ---------------------------------------------------------------- RANSAC: every candidate's support is counted over ALL points
    b = cx.fn('geom2::circle2::Circle2::ransac')
    if b:
        from vpa import term as T
        okx, why = T.exhaustive_loops(cx, b)
        cx.ob('ORDER', 'ransac:exhaustive', okx and len(b.loops()) == 2,
              'neither the candidate loop nor the inlier count can be left early: every candidate is compared on its full support', where=b.file, found='; '.join(why) or None)
        cnt = [s_ for s_ in b.calls('*Circle2::distance_to') if find('(itervar (param points))', cx.arg(s_, 1)) is not None or find('(index (param points) (itervar _))', cx.arg(s_, 1)) is not None]
        inner = [lp for lp in b.loops() if cnt and cnt[0].bb in lp[1]]
        inner = min(inner, key=lambda lp: len(lp[1])) if inner else None
        okc = len(cnt) == 1 and inner is not None and all(b.dominates(cnt[0].bb, x) for x in inner[2])
        cx.ob('ORDER', 'ransac:every-point-tested', okc, 'inside the count every point of the input is measured against the candidate (the distance test is on every cycle)', where=b.file)
