"""C15 Spatial search, sampling and hulls agree with exhaustive computation - structural clauses (conversions, remapping, coherence)."""
from vpa import evaluators as E
from vpa.core import show, Site, simplify, subterms
from vpa.pattern import match, find
from vpa.poly import poly, is_const

EXPLANATION = """Structural obligations behind C15: KdTree hands kiddo the SQUARED radius and returns sqrt of kiddo's squared distances with the
items unchanged (all three queries); PartialKdTree maps every inner index through index_map in all three queries, passes the
distance through, and builds index_map from the same index slice the sub-tree points were gathered with; sample_poisson_disk
keeps an index only when its mask entry is still true, pushes working_indices[m] (the outer index, not m), then masks every
neighbour returned by within(working_points[m], radius) (itself included), with working_points[m] = all_points[working_indices[m]]
and the tree built from working_points; mesh samples carry the normal of the very triangle the point was computed on, uniform
samples are affine combinations whose weights sum to one identically (polynomial identity), sample_poisson thins
sample_dense(radius/2) and maps the kept indices back into that same dense set; point_order_direction and
Curve2::from_points_ccw use the same index-ascent vote with the same threshold.
No caller of the radius search passes a squared quantity (the wrapper squares), the ball-pivot neighbourhood is 2*radius; sample_uniform keeps ONE cumulative-area
entry per triangle (position = triangle id) and picks the search position of a draw in [0, total area).
The Poisson mask write is unconditional inside the neighbour loop; find_start_on_index measures clearance to the nearest of all OTHER points. Round 5: convex_hull_2d is the hull builder on every path (no small-input shortcut)."""
NOT_DECIDED = "exactness of kiddo, coverage/maximality of the Poisson selection, the distribution of uniform sampling (only the table/id bookkeeping is decided), hull construction (parry), the pivoting walk itself; for the hull diameter only exhaustiveness of the pair scan is decided"
ASSUMPTIONS = ["kiddo SquaredEuclidean queries take and return squared distances"]

KD = 'common::kd_tree'


def _vote_as_sum(cx, b):
    """the same vote written as an iterator sum: every hull entry zipped with its cyclic successor (h zipped with h.cycle().skip(1) stops
    after len(h) pairs, the last pair being the wrap-around), summing signum(successor - entry), decided on 0 < sum"""
    dag = b.dag()
    found = []
    for bi in b.live:
        t = b.blocks[bi]['term']
        if bi in b.reachable() and t['k'] == 'switch':
            c = simplify(dag.operand(t['d'], bi, len(b.blocks[bi]['stmts'])))
            if c[0] == 'lt' and c[1] == ('const', 0):
                found.append(c[2])
    if len(found) != 1:
        return False
    H = '(call *convex_hull_2d (param points))'
    CYC = f'(call Iterator::skip (call Iterator::cycle {H}) 1)'
    for pat, succ in ((f'(call Iterator::sum (call Iterator::map (call Iterator::zip {H} {CYC}) (closure *)))', 1),
                      (f'(call Iterator::sum (call Iterator::map (call Iterator::zip {CYC} {H}) (closure *)))', 0)):
        if match(pat, found[0]) is None:
            continue
        cls = [x for x in subterms(found[0]) if x[0] == 'closure']
        if len(cls) != 1:
            return False
        cl = cx.facts.fn(cls[0][1]) if hasattr(cx.facts, 'fn') else None
        cl = cl or next((c for c in cx.facts.closures_of(b.name) if c.name == cls[0][1]), None)
        return cl is not None and match(f'(call i32::signum (sub (field {succ} (param _)) (field {1 - succ} (param _))))', cx.retval(cl)) is not None
    return False


def order_vote_rule(cx):
    """shared with C03: the orientation vote must go once around the WHOLE hull (wrap-around pair included), else the answer depends on
    where the hull's index list starts, i.e. on the frame"""
    # ---------------------------------------------------------------- sibling vote
    votes = {}
    from vpa import comp as CMP
    H = '(call *convex_hull_2d (param points))'
    I = f'(itervar (range 0 (len {H})))'
    for fn in ('geom2::hull::point_order_direction', 'geom2::curve2::Curve2::from_points_ccw'):
        b = cx.fn(fn)
        if not b:
            continue
        dag = b.dag()
        tested = []
        for bi in b.live:
            t = b.blocks[bi]['term']
            if bi in b.reachable() and t['k'] == 'switch':
                c = simplify(dag.operand(t['d'], bi, len(b.blocks[bi]['stmts'])))
                if c[0] == 'lt' and c[1] == ('const', 0):
                    tested.append(c[2])
        ok = False
        if len(tested) == 1:
            # an accumulator loop over 0..len, or hull.iter().enumerate().map(..).sum(): one reduction, no condition
            r = CMP.reduction(cx, b, tested[0])
            ok = r is not None and r['op'] == 'sum' and not r['conds'] and r['src'] is not None and (match(H, r['src']) is not None or match(f'(range 0 (len {H}))', r['src']) is not None) and \
                r['init'] == ('const', 0) and match(f'(call i32::signum (sub (index {H} (rem (add 1 {I}) (len {H}))) (index {H} {I})))', r['elem']) is not None
            if r is not None and r['form'] == 'loop':
                from vpa import term as T
                okx, why = T.exhaustive_loops(cx, b)
                ok = ok and okx
            if not ok:
                ok = _vote_as_sum(cx, b)       # the cyclic-successor pairing h.zip(h.cycle().skip(1))
        votes[fn] = ok
    cx.ob('EXPR', 'order-vote:siblings', votes == {'geom2::hull::point_order_direction': True, 'geom2::curve2::Curve2::from_points_ccw': True},
          'both order detectors sum signum(hull[(i+1)%n] - hull[i]) over the convex hull of the input and decide on `sum > 0` (counter-clockwise / keep order)', found=str(votes))


def run(cx):
    b = cx.fn('geom2::hull::convex_hull_2d')
    if b:
        cx.expect('EXPR', 'convex_hull_2d:delegates', cx.retval(b), '(call *convex_hull2_idx (param points))',
                  'convex_hull_2d is the hull builder on every path (no small-input shortcut returning the points in input order: three points given clockwise or collinear are not their own counter-clockwise hull)', where=b.file)
    Q = '(call T::into (field coords (param point)))'
    b = cx.fn(f'{KD}::KdTree::within')
    if b:
        cx.expect('EXPR', 'KdTree::within', cx.retval(b), f'(call Iterator::collect (call Iterator::map (call ImmutableKdTree::within (self tree) {Q} (mul (param radius) (param radius))) (closure *)))',
                  'within queries kiddo with radius*radius (squared metric) at the query point', where=b.file)
    b = cx.fn(f'{KD}::KdTree::nearest')
    if b:
        cx.expect('EXPR', 'KdTree::nearest', cx.retval(b), f'(call Iterator::collect (call Iterator::map (call ImmutableKdTree::nearest_n (self tree) {Q} (param count)) (closure *)))', 'nearest asks kiddo for `count` neighbours of the query point', where=b.file)
    for fn in ('within', 'nearest'):
        for cl in cx.facts.closures_of(f'{KD}::KdTree::{fn}'):
            cx.expect('EXPR', f'KdTree::{fn}:unpack', cx.retval(cl), '(agg tuple (0 (field item (param r))) (1 (call f64::sqrt (field distance (param r)))))', f'{fn}: (item, sqrt(squared distance)) - plain distances leave the wrapper', where=cl.file)
    b = cx.fn(f'{KD}::KdTree::nearest_one')
    if b:
        cx.expect('EXPR', 'KdTree::nearest_one', cx.retval(b), f'(agg tuple (0 (field item $r)) (1 (call f64::sqrt (field distance $r))))', 'nearest_one: item and sqrt(distance) of the SAME kiddo result', where=b.file)
        cx.ob('EXPR', 'KdTree::nearest_one:query', find(f'(call ImmutableKdTree::nearest_one (self tree) {Q})', cx.retval(b)) is not None, 'the query point is handed to kiddo', where=b.file)
    b = cx.fn(f'{KD}::KdTree::new')
    if b:
        r = cx.retval(b)
        ev = find('(call ImmutableKdTree::new_from_slice $v)', r)
        IDXP = '(index (param points) (itervar (range 0 (len (param points)))))'
        if ev is None:
            cx.ob('EXPR', 'KdTree::new', False, 'the tree holds every input point, in input order (item i = point i)', where=b.file, found=r)
        else:
            cx.expect_comp('EXPR', 'KdTree::new', b, ev[1]['v'], '(param points)', f'(call T::into (field coords {IDXP}))', 'the tree holds every input point, in input order (item i = point i)')
    # ---------------------------------------------------------------- PartialKdTree
    P = f'{KD}::PartialKdTree'
    b = cx.fn(f'{P}::nearest_one')
    if b:
        cx.expect('EXPR', 'PartialKdTree::nearest_one', cx.retval(b), '(agg tuple (0 (index (self index_map) (field 0 $r))) (1 (field 1 $r)))', 'nearest_one: outer index = index_map[inner index], distance passed through, same inner result', where=b.file)
        cx.ob('EXPR', 'PartialKdTree::nearest_one:query', find('(call *KdTree::nearest_one (self tree) (param point))', cx.retval(b)) is not None, 'the inner tree is queried with the same point', where=b.file)
    for fn, inner in (('within', '(call *KdTree::within (self tree) (param point) (param radius))'), ('nearest', '(call *KdTree::nearest (self tree) (param point) (param count))')):
        b = cx.fn(f'{P}::{fn}')
        if b:
            R = f'(index {inner} (itervar (range 0 (len {inner}))))'
            cx.expect_comp('EXPR', f'PartialKdTree::{fn}', b, cx.retval(b), inner, f'(agg tuple (0 (index (self index_map) (field 0 {R}))) (1 (field 1 {R})))',
                           f'{fn}: every inner result (same query arguments) is mapped to (index_map[inner index], distance)')
    b = cx.fn(f'{P}::new')
    if b:
        e = cx.expect('EXPR', 'PartialKdTree::new', cx.retval(b), '(agg * (tree (call *KdTree::new $pts)) (index_map (param indices)))',
                      'the sub-tree points and index_map come from the SAME index slice, in the same order', where=b.file)
        if e is not None:
            I = '(index (param indices) (itervar (range 0 (len (param indices)))))'
            cx.expect_comp('EXPR', 'PartialKdTree::new:gather', b, e['pts'], '(param indices)', f'(index (param all_points) {I})', 'sub-tree point k = all_points[indices[k]], for every k in order')
    E.enc(cx, P, ('tree', 'index_map'), constructors=[f'{P}::new'])
    E.enc(cx, f'{KD}::KdTree', ('tree',), constructors=[f'{KD}::KdTree::new'])
    # ---------------------------------------------------------------- callers of the radius search hand over a PLAIN distance
    sites = list(cx.facts.callers_of(f'{KD}::KdTree::within')) + list(cx.facts.callers_of(f'{KD}::PartialKdTree::within'))
    okp = True
    bad = []
    for s in sites:
        a = cx.arg(s, 2)
        sq = [t for t in subterms(a) if (t[0] == 'mul' and len(t) == 3 and t[1] == t[2] and t[1][0] != 'const') or
              (t[0] == 'call' and (t[1] in ('f64::powi', 'f64::powf') or t[1].endswith(('norm_squared', 'distance_squared', 'magnitude_squared'))))]
        if sq:
            okp = False
            bad.append(f'{s.body.name}: {show(a)[:120]}')
    cx.ob('EXPR', 'KdTree::within:callers-plain-distance', okp and len(sites) >= 3,
          'the wrapper squares the radius itself (KdTree::within), so no caller passes a squared quantity (x*x, powi, *_squared) as the search radius', found='; '.join(bad) or f'{len(sites)} call sites')
    b = cx.fn('geom2::hull::find_start_on_index')
    if b:
        from vpa import comp as CMP
        kn = b.calls(f'{KD}::KdTree::new')
        okt = len(kn) == 1
        if okt:
            comps = [c for c in CMP.comprehensions(cx, b, cx.arg(kn[0], 0)) if c.get('elem') is not None]
            IP = '(itervar (range 0 (len (param points))))'
            okt = len(comps) == 1 and comps[0]['src'] is not None and match('(param points)', comps[0]['src']) is not None and match(f'(index (param points) {IP})', comps[0]['elem']) is not None and \
                len(comps[0]['conds']) == 1 and (CMP.has_cond(comps[0], f'(eq {IP} (param index))', False) or CMP.has_cond(comps[0], f'(ne {IP} (param index))', True))
        n1 = b.calls(f'{KD}::KdTree::nearest_one')
        okq = len(n1) == 1 and match('(call *Circle2::point_at_angle (call *Circle2::from_point (index (param points) (param index)) (param radius)) _)', cx.arg(n1[0], 1)) is not None and not b.calls(f'{KD}::KdTree::nearest')
        cx.ob('EXPR', 'find_start_on_index:clearance', okt and okq,
              'the start direction is chosen by the clearance of the candidate ball centre (on the circle of the given radius about the start point) to the NEAREST of all OTHER points: '
              'the tree holds every point except the start point, and the nearest one is asked for', where=b.file)
    b = cx.fn('geom2::hull::ball_pivot_with_centers_2d')
    if b:
        w = b.calls(f'{KD}::KdTree::within')
        okb = len(w) == 1 and match('(mul 2.0 (param radius))', cx.arg(w[0], 2)) is not None and match('(index (param points) _)', cx.arg(w[0], 1)) is not None
        cx.ob('EXPR', 'ball_pivot:neighbourhood', okb, 'the pivot candidates are ALL points within 2*radius of the working point (a ball of that radius touching the working point '
              'can touch nothing farther, and anything nearer can stop it)', where=b.file, found=cx.arg(w[0], 2) if w else None)
    # ---------------------------------------------------------------- Poisson disk
    b = cx.fn('common::poisson_disk::sample_poisson_disk')
    if b:
        WP = '(call Iterator::collect (call Iterator::map (param working_indices) (closure * (param all_points))))'
        IT = '(itervar (call Iterator::enumerate (param working_indices)))'
        pushes = b.calls('Vec::push')
        ok = len(pushes) == 1
        if ok:
            s = pushes[0]
            ok = match(f'(field 1 {IT})', cx.arg(s, 1)) is not None
            g = cx.guarded(b, s.bb, f'(index _ (field 0 {IT}))', True)
            ok = ok and g is not None
        cx.ob('GUARD', 'sample_poisson_disk:keep', ok, 'working_indices[m] (the outer index) is kept exactly when mask[m] is still true', where=b.file)
        w = b.calls(f'{KD}::KdTree::within')
        okw = len(w) >= 1
        for s in w:
            okw = okw and match(f'(call *KdTree::new {WP})', cx.arg(s, 0)) is not None and match(f'(index {WP} (field 0 {IT}))', cx.arg(s, 1)) is not None and match('(param radius)', cx.arg(s, 2)) is not None
            okw = okw and pushes and (b.dominates(pushes[0].bb, s.bb))
        cx.ob('ORDER', 'sample_poisson_disk:mask-neighbours', okw, 'after keeping m, every point within `radius` of working_points[m] is looked up in the tree built from working_points', where=b.file)
        st = [m for m in b.mutations() if m.kind == 'store' and m.elem]
        okm = False
        for m in st:
            tgt = simplify(b.dag().local(m.data['pl']['l'], m.bb, m.idx))
            val = simplify(b.dag().rvalue(m.data['rv'], m.bb, m.idx))
            if val == ('const', False) and match('(index _ (field 0 (itervar (call *KdTree::within ...))))', tgt) is not None:
                okm = True
        cx.ob('EXPR', 'sample_poisson_disk:mask-write', okm and len(st) == 1, 'mask[w.0] = false for every neighbour w (indices into working_points)', where=b.file)
        # ... for EVERY neighbour the tree returned (the kept point itself and exact duplicates included): the write has no condition of its own
        okall = len(st) == 1 and len(w) == 1
        own = []
        if okall:
            own = [(a, p) for a, p in set(cx.guards(b, st[0].bb)) - set(cx.guards(b, w[0].bb))
                   if not (a[0] == 'is' and isinstance(a[1], tuple) and a[1] and a[1][0] == 'call' and str(a[1][1]).endswith('::next'))]
            okall = not own
        cx.ob('GUARD', 'sample_poisson_disk:mask-every-neighbour', okall,
              'inside the loop over the neighbours the mask is cleared unconditionally: no neighbour within the radius - a coincident point included - can be kept later', where=b.file,
              found='; '.join(('' if p else 'NOT ') + show(a)[:160] for a, p in own))
        for cl in cx.facts.closures_of(b.name):
            cx.expect('EXPR', 'sample_poisson_disk:working_points', cx.retval(cl), '(index (field cap:all_points (param 1)) (param i))', 'working_points[m] = all_points[working_indices[m]]', where=cl.file)
    # ---------------------------------------------------------------- mesh sampling
    M = 'geom3::mesh::Mesh'
    b = cx.fn(f'{M}::sample_uniform')
    if b:
        sp = [s for s in b.calls('*SurfacePoint::new')]
        ok = len(sp) == 1
        if ok:
            s = sp[0]
            pt, nm = cx.arg(s, 0), cx.arg(s, 1)
            e = match('(call OPoint::from (call Matrix::add (call Matrix::add (call Matrix::mul (field coords (field a $t)) $wa) (call Matrix::mul (field coords (field b $t)) $wb)) (call Matrix::mul (field coords (field c $t)) $wc)))', pt)
            ok = e is not None and match('(unwrap (call Triangle::normal $t))', nm, {'t': e['t']}) is not None
            if ok:
                total = ('add', ('add', e['wa'], e['wb']), e['wc'])
                pz = poly(total)
                cx.ob('AFFINE', 'sample_uniform:weights-sum-to-one', is_const(pz, 1.0),
                      'the three barycentric weights sum to 1 identically (polynomial identity in sqrt(r1), r2): every sample is an affine combination of the triangle corners', where=s, found=str(pz))
                cx.ob('EXPR', 'sample_uniform:triangle', match('(call TriMesh::triangle (field shape (param self)) _)', e['t']) is not None, 'the sample is taken on a triangle of this mesh', where=s)
        cx.ob('EXPR', 'sample_uniform:normal', ok, 'each uniform sample carries the normal of the SAME triangle its point was computed on', where=b.file)
        # the cumulative table has ONE entry per triangle, in triangle order, so that a position in the table IS a triangle id
        bs = b.calls('slice::binary_search_by')
        if len(bs) == 1:
            TRIS = '(call TriMesh::triangles (field shape (param self)))'
            e = cx.expect_comp('EXPR', 'sample_uniform:area-table', b, cx.arg(bs[0], 0), TRIS, f'(add (call Triangle::area (index {TRIS} (itervar (range 0 (len {TRIS}))))) (phi 0.0 (loop)))',
                               'cumulative_areas[k] = area(0) + .. + area(k) for EVERY triangle k, none skipped: the position found by the search is used as the triangle id')
            tid = [cx.arg(s2, 1) for s2 in b.calls('TriMesh::triangle')]
            okt = len(tid) == 1 and match('(cast (call Result::unwrap_or_else (call slice::binary_search_by _ (closure * (mul (call rand::random) (phi 0.0 (loop))))) (closure *)))', tid[0]) is not None or \
                len(tid) == 1 and match('(call Result::unwrap_or_else (call slice::binary_search_by _ (closure * (mul (call rand::random) (phi 0.0 (loop))))) (closure *))', tid[0]) is not None
            cx.ob('EXPR', 'sample_uniform:pick', okt, 'the triangle is the table position of a draw uniform in [0, total area) (hit or insertion point alike)', where=b.file, found=tid[0] if tid else None)
        else:
            cx.ob('EXPR', 'sample_uniform:area-table', False, 'one search over the cumulative area table', where=b.file, found=f'{len(bs)} searches')
    b = cx.fn(f'{M}::sample_dense')
    if b:
        sp = b.calls('*SurfacePoint::new')
        ok = len(sp) == 2
        for s in sp:
            pt, nm = cx.arg(s, 0), cx.arg(s, 1)
            e = match('(unwrap (call Triangle::normal $f))', nm)
            ok = ok and e is not None and match('(itervar (call TriMesh::triangles (field shape (param self))))', e['f']) is not None and find('(field a $f)', pt, e) is not None
        cx.ob('EXPR', 'sample_dense:normal', ok, 'each dense sample (centre or lattice point) is computed from, and carries the normal of, the face being iterated', where=b.file)
    # the lattice of sample_dense: origin and both edge vectors come from the SAME corner of the face
    b = cx.fn(f'{M}::sample_dense')
    if b:
        dag = b.dag()
        anchors = {}
        for bi in b.live:
            if bi not in b.reachable():
                continue
            vals = []
            for si, st in enumerate(b.blocks[bi]['stmts']):
                if st['pl']['p'] or st['rv']['k'] != 'use':
                    continue
                vals.append(simplify(dag.rvalue(st['rv'], bi, si)))
            def corner(v):
                return v[1] if (v[0] == 'field' and v[1] in ('a', 'b', 'c') and match('(itervar (call TriMesh::triangles _))', v[2]) is not None) else None
            pts = [corner(v) for v in vals if corner(v)]
            subs = [(corner(v[2]), corner(v[3])) for v in vals if v[0] == 'call' and v[1] == 'OPoint::sub' and len(v) == 4 and corner(v[2]) and corner(v[3])]
            if len(pts) == 1 and len(subs) == 2:
                anchors[bi] = (pts[0], sorted(subs))
        okl = len(anchors) == 3 and {a for a, _ in anchors.values()} == {'a', 'b', 'c'} and \
            all(all(pp == a for _, pp in ss) and sorted(x for x, _ in ss) == sorted({'a', 'b', 'c'} - {a}) for a, ss in anchors.values())
        lat = [d for s_, d in cx.push_events(b) if find('(call OPoint::add (call OPoint::add _ (call Matrix::mul _ _)) (call Matrix::mul _ _))', d) is not None]
        inside = any(cx.guarded(b, s_.bb, '(le (add _ _) 1.0)', True) is not None for s_, d in cx.push_events(b) if find('(call OPoint::add (call OPoint::add _ _) _)', d) is not None)
        cx.ob('EXPR', 'sample_dense:lattice', okl and len(lat) == 1 and inside,
              'the sampling lattice p + u*s + v*t (s + t <= 1) takes its origin p and both edge vectors u = x - p, v = y - p from ONE corner of the face, for each of the three corner choices',
              where=b.file, found=str({k: v for k, v in anchors.items()}))
    b = cx.fn(f'{M}::sample_poisson')
    if b:
        r = cx.retval(b)
        D = '(call *Mesh::sample_dense (param self) (mul 0.5 (param radius)))'
        e = match(f'(call Iterator::collect (call Iterator::map (call *sample_poisson_disk (call *::clone_points {D}) $idx (param radius)) (closure * {D})))', r)
        ok = e is not None and find(f'(call *index_vec (agg *Option::None) (len {D}))', e['idx']) is not None
        cx.ob('EXPR', 'sample_poisson', ok, 'Poisson sampling thins sample_dense(radius/2) with the requested radius over ALL its indices and maps the kept indices back into that same dense set', where=b.file, found=r)
        for cl in cx.facts.closures_of(b.name):
            cx.expect('EXPR', 'sample_poisson:lookup', cx.retval(cl), '(index (field cap:starting (param 1)) (param i))', 'kept index i -> starting[i]', where=cl.file)
    order_vote_rule(cx)

    # ---------------------------------------------------------------- hull diameter: exhaustive pair scan
    b = cx.fn('geom2::hull::farthest_pair_indices')
    if b:
        from vpa import term as T
        okx, why = T.exhaustive_loops(cx, b)
        PTS = '(call ConvexPolygon::points (param hull))'
        I = f'(itervar (range 0 (len {PTS})))'
        J = f'(itervar (range (add 1 {I}) (len {PTS})))'
        D = f'(call *points::dist (index {PTS} {I}) (index {PTS} {J}))'
        from vpa import comp as CMP
        dag = b.dag()
        upd_pair = upd_dist = False
        for (bb, pos, kind, pay) in [d for l in b.defs().values() for d in l]:
            if kind != 'assign' or pay['pl']['p']:
                continue
            if not any(bb in lp[1] for lp in b.loops()):
                continue
            val = CMP.canon(simplify(dag.rvalue(pay['rv'], bb, pos)))      # index form: `for i in 0..n`, `.iter().enumerate()` and `.enumerate().skip(i + 1)` alike
            g = cx.guarded_canon(b, bb, f'(lt _ {D})', True)
            if g is not None and match(f'(agg tuple (0 {I}) (1 {J}))', val) is not None and pay['pl']['l'] in cx.returned_locals(b) | {0}:
                upd_pair = True
            if g is not None and match(D, val) is not None and b.local_ty(pay['pl']['l']) == 'f64' and b.local_name(pay['pl']['l']):
                upd_dist = True
        cmp_ok = any(find(f'(lt (anyphi 0.0) {D})', CMP.canon(simplify(dag.operand(blk['term']['d'], bi, len(blk['stmts']))))) is not None
                     for bi, blk in enumerate(b.blocks) if bi in b.live and blk['term']['k'] == 'switch')
        cx.ob('ORDER', 'farthest_pair_indices:exhaustive', okx and len(b.loops()) == 2, 'the diameter scan visits EVERY pair i < j of hull vertices: neither loop can be left early', where=b.file, found='; '.join(why) or None)
        cx.ob('EXPR', 'farthest_pair_indices:running-maximum', upd_pair and upd_dist and cmp_ok,
              'pairs are (i, j) with j in i+1..n; the running maximum distance (initially 0) and the pair are replaced together exactly when dist(p[i], p[j]) exceeds it', where=b.file,
              found=f'pair={upd_pair} dist={upd_dist} cmp={cmp_ok}')


def run_thorough(cx):
    """thorough tier: the generic evaluators this property relies on must fire on their positive fixture twins"""
    from rules import fixture_check as FX
    FX.enc(cx)
