"""C06 Line-polyline intersection search is complete and sound - structural clauses (post-processing, wiring, and the per-edge algebra)."""
from vpa import evaluators as E
from vpa.core import show, Site, simplify, subterms
from vpa.pattern import match, find
from vpa.poly import rat_equal

EXPLANATION = """Structural obligations behind C06: (soundness of what is reported) every candidate edge id collected by the BVH traversal is
re-tested by ray_intersect_with_edge, and only Some(t) results are reported as (t, that same edge id); the per-edge test builds
the edge ray from vertices[i] and vertices[i+1] - vertices[i], intersects (query ray, edge ray) in this argument order, and
accepts exactly under 0 <= t_edge <= 1 (closed), returning the parameter of the QUERY ray; (ALGEBRA) intersection_param's two
parameters satisfy a0 + t0*ad = b0 + t1*bd as a rational-function identity, with None under |det| < 1e-12 for that same det;
(ORDER) results are sorted ascending by parameter and de-duplicated before they are returned; spanning_ray is Some exactly when
there are two crossings and runs from the smaller to the larger parameter on the query ray (keeping its direction);
max_intersection is the maximum over the same list; Intersection<&SurfacePoint2> casts Ray(point, normal); the traversal
visitor records a leaf exactly when its lane of the box test is set and prunes with the same mask; the slab test starts from
(f64::MIN, f64::MAX) so negative parameters are admitted, handles zero direction lanes through the `is_not_zero` select;
farthest_point_direction_distance is a running maximum from f64::MIN of n.(v - origin) over EVERY vertex; the parallel cut-off is <= 1e-12. The per-edge range test is accepted in three spellings (nested if-let, filter+map, and_then+then_some)."""
NOT_DECIDED = "COMPLETENESS - that the hand-written SIMD slab test never prunes a node containing a crossing: lane-wise floating-point reasoning, the heart of C06"
ASSUMPTIONS = ["parry Qbvh::traverse_depth_first visits every node whose mask lane is set"]

PL = 'geom2::polyline2'


def farthest_rule(cx):
    b = cx.fn('geom2::polyline2::farthest_point_direction_distance')
    if not b:
        return
    from vpa import comp as CMP, term as T
    V = '(call Polyline::vertices (param line))'
    r = cx.retval(b)
    rd = CMP.reduction(cx, b, r)
    ok = rd is not None and rd['op'] == 'max' and not rd['conds'] and rd['src'] is not None and match(V, rd['src']) is not None and \
        rd['init'] is not None and rd['init'][0] == 'const' and isinstance(rd['init'][1], float) and rd['init'][1] < -1e300 and \
        match(f'(call Matrix::dot (call Matrix::normalize (field dir (param ray))) (call OPoint::sub (index {V} (itervar (range 0 (len {V})))) (field origin (param ray))))', rd['elem']) is not None
    if ok and rd['form'] == 'loop':
        okx, why = T.exhaustive_loops(cx, b)
        ok = ok and okx
    cx.ob('EXPR', 'farthest_point_direction_distance', ok,
          'the farthest projection is a running maximum, from the lowest f64, of n.(v - origin) over EVERY vertex of the polyline, n the normalised ray direction', where=b.file,
          found=(f"{rd['form']}: op={rd['op']} init={show(rd['init']) if rd['init'] else None} src={show(rd['src']) if rd['src'] else None} elem={show(rd['elem'])[:200]}" if rd else show(r)[:300]))



def cast_ray_rules(cx):
    """shared with C03 (an axis-aligned probe through a vertex must be found in every frame)"""
    b = cx.fn(f'{PL}::cast_ray')
    if b:
        r = cx.retval(b)
        e = match('(agg tuple (0 (phi (call AutoSimd::splat true) (loop))) (1 (phi (call AutoSimd::splat $lo) (loop))))', r)
        ok = e is not None and e['lo'][0] == 'const' and e['lo'][1] < -1e300
        cx.ob('EXPR', 'cast_ray:admits-negative', ok, 'tmin starts at f64::MIN (not 0): intersections behind the ray origin are admitted, as the property requires for infinite lines', where=b.file, found=r)
        sel = [cx.call(s) for s in b.calls('AutoSimd::select')]
        okz = any(match('(call AutoSimd::select _ (call AutoSimd::simd_ne _ (call AutoSimd::splat 0.0)) (call AutoSimd::bitand (call AutoSimd::simd_ge _ _) (call AutoSimd::simd_le _ _)))', x) is not None for x in sel)
        cx.ob('EXPR', 'cast_ray:zero-direction-lanes', okz, 'lanes whose direction component is zero use the origin-inside-slab test instead of the division', where=b.file)
        cx.ob('TERM', 'cast_ray:loop', len(b.loops()) == 1, 'one loop over the two axes')

def run(cx):
    b = cx.fn(f'{PL}::polyline_intersections')
    if b:
        r = cx.retval(b)
        cx.ob('ORDER', 'polyline_intersections:sort-dedup', match('(mut Vec::dedup_by . (mut slice::sort_by . _ (closure *)) (closure *))', r) is not None,
              'the result list is sorted and THEN de-duplicated before it is returned', where=b.file, found=r)
        cls = {c.name.split('::')[-1]: cx.retval(c) for c in cx.facts.closures_of(b.name)}
        cx.ob('ORDER', 'polyline_intersections:ascending', any(match('(unwrap (call f64::partial_cmp (field 0 (param a)) (field 0 (param b))))', v) is not None for v in cls.values()),
              'sorting is ascending in the ray parameter', found=str({k: show(v) for k, v in cls.items()}))
        okd = False
        for v in cls.values():
            e = match('(lt (call f64::abs (sub (field 0 (param a)) (field 0 (param b)))) $eps)', v) or match('(le (call f64::abs (sub (field 0 (param a)) (field 0 (param b)))) $eps)', v)
            if e is not None and e['eps'][0] == 'const' and isinstance(e['eps'][1], float) and 0.0 < e['eps'][1] <= 1e-6:
                okd = True
        cx.ob('ORDER', 'polyline_intersections:dedup-predicate', okd,
              'duplicates are parameters closer than a POSITIVE CONSTANT tolerance (a tolerance that depends on the parameters can vanish - at t = 0 for a relative one - and let an exact duplicate through)',
              found=str({k: show(v) for k, v in cls.items()}))
        # the raw hit list as a comprehension over the collected ids (push loop or filter_map chain alike); it is the list that is sorted
        from vpa import comp as CMP
        ev = match('(mut Vec::dedup_by . (mut slice::sort_by . $v _) _)', r)
        comps = [c for c in CMP.comprehensions(cx, b, ev['v']) if c.get('elem') is not None] if ev else []
        ok = len(comps) == 1
        if ok:
            c = comps[0]
            e = match('(agg tuple (0 (unwrap (call *ray_intersect_with_edge (param polyline) (param ray) $i))) (1 $i))', c['elem'])
            ok = e is not None and match('(index (field collector _) _)', e['i']) is not None and \
                CMP.has_cond(c, '(is (call *ray_intersect_with_edge (param polyline) (param ray) $i) Some)', True, e) and len(c['conds']) == 1
        cx.ob('EXPR', 'polyline_intersections:retest', ok,
              'every id collected by the traversal is re-tested against ITS edge and only hits are reported, as (t, the same edge id): the reported set is sound whatever the box test let through', where=b.file)
        tr = b.calls('Qbvh::traverse_depth_first')
        cx.ob('EXPR', 'polyline_intersections:traversal', len(tr) == 1 and find('(call *RayVisitor::new (param ray))', cx.arg(tr[0], 1)) is not None, 'the BVH of the polyline is traversed with a visitor built from the query ray', where=b.file)
    b = cx.fn(f'{PL}::ray_intersect_with_edge')
    if b:
        V = '(call Polyline::vertices (param line))'
        EDGE = f'(call Ray::new (index {V} (param edge_index)) (call OPoint::sub (index {V} (add 1 (param edge_index))) (index {V} (param edge_index))))'
        IR = f'(call *intersect_rays (param ray) {EDGE})'
        somes = [(s, d) for s, d in cx.rets(b) if d[0] == 'agg' and d[1].endswith('Option::Some')]
        ok = len(somes) == 1
        if ok:
            s, d = somes[0]
            ok = match(f'(agg * (0 (field 0 (unwrap {IR}))))', d) is not None
            g1 = cx.guarded(b, s.bb, f'(le 0.0 (field 1 (unwrap {IR})))', True)
            g2 = cx.guarded(b, s.bb, f'(le (field 1 (unwrap {IR})) 1.0)', True)
            ok = ok and g1 is not None and g2 is not None
        if not ok:
            # the same test behind Option combinators: intersect_rays(..).filter(|(_, t_edge)| (0.0..=1.0).contains(t_edge)).map(|(t_ray, _)| t_ray)
            e = match(f'(call Option::map (call Option::filter {IR} $f) $m)', cx.retval(b))
            if e is not None and e['f'][0] == 'closure' and e['m'][0] == 'closure':
                fb, mb = cx.closure_body(e['f'][1]), cx.closure_body(e['m'][1])
                ok = fb is not None and mb is not None and match('(call RangeInclusive::contains (call RangeInclusive::new 0.0 1.0) (field 1 (param 2)))', cx.retval(fb)) is not None and \
                    match('(field 0 (param 2))', cx.retval(mb)) is not None
        if not ok:
            # .. or: intersect_rays(..).and_then(|(t_ray, t_edge)| (0.0..=1.0).contains(&t_edge).then_some(t_ray))
            e = match(f'(call Option::and_then {IR} $f)', cx.retval(b))
            if e is not None and e['f'][0] == 'closure':
                fb = cx.closure_body(e['f'][1])
                ok = fb is not None and match('(call bool::then_some (call RangeInclusive::contains (call RangeInclusive::new 0.0 1.0) (field 1 (param 2))) (field 0 (param 2)))', cx.retval(fb)) is not None
        cx.ob('GUARD', 'ray_intersect_with_edge', ok,
              'Some(t_ray) exactly under 0 <= t_edge <= 1 (closed), where (t_ray, t_edge) = intersect_rays(query ray, Ray(v[i], v[i+1]-v[i])) in this order', where=b.file)
    b = cx.fn('geom2::line2::intersect_rays')
    if b:
        cx.expect('EXPR', 'intersect_rays', cx.retval(b), '(call *intersection_param (field origin (param r0)) (field dir (param r0)) (field origin (param r1)) (field dir (param r1)))',
                  'intersect_rays passes (origin, dir) of the first ray then of the second', where=b.file)
    b = cx.fn('geom2::line2::intersection_param')
    if b:
        somes = [(s, d) for s, d in cx.rets(b) if d[0] == 'agg' and d[1].endswith('Option::Some')]
        nones = [(s, d) for s, d in cx.rets(b) if d[0] == 'agg' and d[1].endswith('Option::None')]
        ok = len(somes) == 1 and len(nones) == 1
        if ok:
            s, d = somes[0]
            e = match('(agg * (0 (agg tuple (0 $t0) (1 $t1))))', d)
            ok = e is not None
            if ok:
                def fld(p, c):
                    return ('field', c, ('param', {'a0': 1, 'ad': 2, 'b0': 3, 'bd': 4}[p], p))
                alg = True
                for c in ('x', 'y'):
                    lhs = ('add', fld('a0', c), ('mul', e['t0'], fld('ad', c)))
                    rhs = ('add', fld('b0', c), ('mul', e['t1'], fld('bd', c)))
                    alg = alg and rat_equal(lhs, rhs)
                cx.ob('ALGEBRA', 'intersection_param:identity', alg,
                      'as a rational-function identity in the eight inputs, a0 + t0*ad = b0 + t1*bd in both coordinates: the two parameters denote the same point on both lines', where=s)
                den = match('(div _ $det)', e['t0'])
                g = cx.guarded(b, s.bb, '(lt (call f64::abs $det) $eps)', False, den) if den else None
                gn = cx.guarded(b, nones[0][0].bb, '(lt (call f64::abs $det) $eps)', True, den) if den else None
                cx.ob('GUARD', 'intersection_param:parallel', g is not None and gn is not None and g['eps'][0] == 'const' and 0 < g['eps'][1] <= 1e-12,
                      'None exactly under |det| < eps for the SAME determinant the parameters are divided by; eps is a constant no larger than 1e-12 (the determinant is not normalised: a larger cut-off drops real crossings of short edges at shallow angles)', where=s)
    b = cx.fn(f'{PL}::spanning_ray')
    if b:
        somes = [(s, d) for s, d in cx.rets(b) if d[0] == 'agg' and d[1].endswith('Option::Some')]
        nones = [(s, d) for s, d in cx.rets(b) if d[0] == 'agg' and d[1].endswith('Option::None')]
        ok = len(somes) == 1 and len(nones) == 1
        if ok:
            s, d = somes[0]
            L = '(mut slice::sort_by . (call *polyline_intersections (param line) (param ray)) (closure *))'
            ok = match(f'(agg * (0 (call *SpanningRay::new (call Ray::point_at (param ray) (field 0 (index {L} 0))) (call Ray::point_at (param ray) (field 0 (index {L} 1))))))', d) is not None
            ok = ok and cx.guarded(b, s.bb, f'(eq 2 (len {L}))', True) is not None and cx.guarded(b, nones[0][0].bb, f'(eq 2 (len {L}))', False) is not None
        cx.ob('GUARD', 'spanning_ray', ok, 'Some exactly when there are two crossings; it runs from ray.point_at(smaller t) to ray.point_at(larger t): on the query line, in its direction', where=b.file)
        for cl in cx.facts.closures_of(b.name):
            cx.expect('ORDER', 'spanning_ray:ascending', cx.retval(cl), '(unwrap (call f64::partial_cmp (field 0 (param a)) (field 0 (param b))))', 'the crossings are ordered by ascending parameter', where=cl.file)
    b = cx.fn(f'{PL}::SpanningRay::new')
    if b:
        cx.expect('EXPR', 'SpanningRay::new', cx.retval(b), '(agg * (ray (call Ray::new (param p0) (call OPoint::sub (param p1) (param p0)))))', 'a spanning ray starts at p0 with direction p1 - p0 (parameter 1 is p1)', where=b.file)
    b = cx.fn(f'{PL}::max_intersection')
    if b:
        r = cx.retval(b)
        from vpa import comp as CMP
        LST = '(call *polyline_intersections (param line) (param ray))'
        rd = CMP.reduction(cx, b, r)
        ok = rd is not None and rd['op'] == 'max_by' and not rd['conds'] and match(LST, rd['src']) is not None and \
            match(f'(field 0 (index {LST} (itervar (range 0 (len {LST})))))', rd['elem']) is not None
        if ok:
            cb, cr = cx.closure_ret(rd['cmp']) if rd['cmp'] is not None and rd['cmp'][0] == 'closure' else (None, None)
            ok = cr is not None and match('(unwrap (call *::partial_cmp (param 2) (param 3)))', cr) is not None
        cx.ob('EXPR', 'max_intersection', ok, 'the largest intersection is the maximum parameter of the same exhaustive list', where=b.file, found=r)
    b = cx.fn('geom2::curve2::Curve2::ray_intersections')
    if b:
        cx.expect('EXPR', 'Curve2::ray_intersections', cx.retval(b), '(call *polyline_intersections (field line (param self)) (param ray))', 'curve queries go to the curve\'s own polyline', where=b.file)
    b = cx.fn('geom2::curve2::Curve2::try_create_spanning_ray')
    if b:
        cx.expect('EXPR', 'Curve2::try_create_spanning_ray', cx.retval(b), '(call *polyline2::spanning_ray (field line (param self)) (param full_ray))', 'spanning rays are built on the curve\'s own polyline', where=b.file)
    b = cx.fn('geom2::curve2::Curve2::intersection', where='SurfacePoint')
    if b:
        r = cx.retval(b)
        ok = match('(call Iterator::collect (call Iterator::map (call *Curve2::ray_intersections (param self) (call Ray::new (field point (param other)) (field normal (param other)))) (closure *)))', r) is not None
        cx.ob('EXPR', 'Curve2::intersection(SurfacePoint)', ok, 'a surface point is cast as Ray(point, normal) and the parameters of all crossings are returned', where=b.file, found=r)
    # ---------------------------------------------------------------- traversal visitor and slab test (shape only)
    b = cx.fn(f'{PL}::RayVisitor::visit')
    if b:
        MASK = '(field 0 (call *cast_ray (param bv) (field ray (param self))))'
        cx.expect('EXPR', 'RayVisitor::visit:prune', cx.retval(b), f'(agg *MaybeContinue (0 {MASK}))', 'children are pruned with the mask of the box test on the visitor\'s ray', where=b.file)
        pushes = b.calls('Vec::push')
        ok = len(pushes) == 1
        if ok:
            s = pushes[0]
            g = cx.guarded(b, s.bb, f'(call AutoSimd::extract {MASK} $i)', True)
            ok = g is not None and find('(itervar _)', g['i']) is not None and match('(unwrap _)', cx.arg(s, 1)) is not None
        cx.ob('GUARD', 'RayVisitor::visit:collect', ok, 'a leaf is recorded exactly when its own lane of the mask is set and it carries data', where=b.file)
    cast_ray_rules(cx)
    farthest_rule(cx)

