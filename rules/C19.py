"""C19 Basis, frame and plane constructions are orthonormal and right-handed - structural clauses."""
from vpa import evaluators as E
from vpa.core import show, Site, simplify, subterms, trait_of_impl
from vpa.pattern import match, find

EXPLANATION = """Structural obligations behind C19: (AXIS) every two-vector frame constructor is evaluated in an abstract domain of
signed coordinate axes - the primary argument is axis a exactly, the secondary argument is a vector alpha*a + beta*b with
beta > 0 - cross products follow the cyclic rule, and the three columns handed to from_bases must come out as (+x, +y, +z):
this decides handedness, 'primary axis is exactly the first argument' and 'secondary in the half-plane of the second argument'
for every input; each normalisation must be try_normalize(..).ok_or(..)? so parallel/zero inputs fail; from_bases stores the
columns in x,y,z order, origin -> translation, None -> identity. (AFFINE) no position (OPoint) is scaled, divided or negated
anywhere in the crate: scaling a position is not invariant under translation of the frame. (EXPR/COMUT) SvdBasis centre is the
(weighted) mean and is the value stored; offsets are (p - centre) possibly times the weight; point_to_basis / point_from_basis
have mutually inverse shapes; Plane3 stores n and n.p of the same n, three-point form uses cross(p2-p1, p3-p1) and p1,
inverted_normal negates both, project_point = p - n*signed_distance, signed_distance = n.p - d.
mean_point = sum / n and mean_point_weighted = weighted sum / sum of weights, both over every element."""
NOT_DECIDED = "ordering/orthonormality of nalgebra's SVD output, equivariance, singular-value scaling under weights; for rank only the counting rule (strictly greater than tol, once per value) is decided"
ASSUMPTIONS = ["nalgebra: cross is the right-handed vector product; try_normalize returns None below the threshold"]

AX = 'xyz'


def cyc(a, b):
    """sign of a x b for distinct axis letters and the resulting axis"""
    c = [x for x in AX if x not in (a, b)][0]
    s = 1 if (AX.index(b) - AX.index(a)) % 3 == 1 else -1
    return c, s


def abstract_vec(d, env, notes):
    """-> ('axis', letter, sign) | ('hint',) | None.   env: param name -> ('axis', a, +1) | ('hint', a, b)"""
    m = match('(unwrap (call Option::ok_or (call Matrix::try_normalize $v _) _))', d)
    if m:
        notes.append('try')
        return abstract_vec(m['v'], env, notes)
    for pat in ('(call Matrix::normalize $v)', '(call Unit::new_normalize $v)', '(unwrap (call Matrix::try_normalize $v _))'):
        m = match(pat, d)
        if m:
            notes.append('unguarded')
            return abstract_vec(m['v'], env, notes)
    m = match('(call Matrix::cross $u $v)', d)
    if m:
        u, v = abstract_vec(m['u'], env, notes), abstract_vec(m['v'], env, notes)
        if u is None or v is None:
            return None
        if u[0] == 'axis' and v[0] == 'axis':
            if u[1] == v[1]:
                return None
            c, s = cyc(u[1], v[1])
            return ('axis', c, s * u[2] * v[2])
        if u[0] == 'axis' and v[0] == 'hint':
            # u x (alpha a + beta b): only meaningful when u is +-a (then = beta * (u x b))
            if u[1] != v[1]:
                return None
            c, s = cyc(v[1], v[2])
            return ('axis', c, s * u[2])
        if u[0] == 'hint' and v[0] == 'axis':
            if v[1] != u[1]:
                return None
            c, s = cyc(u[2], u[1])   # (alpha a + beta b) x a = beta (b x a)
            return ('axis', c, s * v[2])
        return None
    # Gram-Schmidt step  v - u (u.v): orthogonal to u only when u is a UNIT vector, i.e. u is itself a normalised term
    m = match('(call Matrix::sub $v (call Matrix::mul $u (call Matrix::dot $u2 $v2)))', d)
    if m and m['u'] == m['u2'] and m['v'] == m['v2'] and _is_unit(m['u']):
        n2 = []
        u, v = abstract_vec(m['u'], env, n2), abstract_vec(m['v'], env, n2)
        if u and v and u[0] == 'axis' and v[0] == 'hint' and u[1] == v[1]:
            return ('axis', v[2], 1)     # (alpha a + beta b) - a alpha = beta b, beta > 0
        return None
    if d[0] == 'param' and d[2] in env:
        return env[d[2]]
    return None


def _is_unit(d):
    return any(match(p, d) is not None for p in ('(unwrap (call Option::ok_or (call Matrix::try_normalize _ _) _))', '(call Matrix::normalize _)',
                                                   '(call Unit::new_normalize _)', '(unwrap (call Matrix::try_normalize _ _))'))


def _counts_strictly_greater(cx, b):
    """SvdBasis::rank idioms: (1) `for s in sv { if *s > tol { rank += 1 } } rank`, (2) sv.iter().filter(|s| **s > tol).count()"""
    from vpa import guards as G
    r = cx.retval(b)
    e = match('(call *::count (call Iterator::filter (field sv (param self)) (closure * _)))', r)
    if e is not None:
        cls = cx.facts.closures_of(b.name)
        ok = len(cls) == 1 and (match('(lt (field cap:tol (param 1)) (param 2))', cx.retval(cls[0])) is not None or match('(lt (param tol) (param 2))', cx.retval(cls[0])) is not None)
        return ok, show(cx.retval(cls[0])) if cls else 'no closure'
    e = match('(phi 0 (loop $m))', r) or match('(phi (loop $m) 0)', r)
    if e is None or len(b.loops()) != 1:
        return False, show(r)
    h, blocks, backs = b.loops()[0]
    mk = r[2] if r[2][0] == 'loop' else r[1]
    c = int(str(mk[1]).split('@')[0].lstrip('_'))
    defs = [d for d in b.defs().get(c, []) if d[0] in blocks]
    if len(defs) != 1 or defs[0][2] != 'assign':
        return False, f'{len(defs)} definitions of the counter inside the loop'
    bi, si, _, st = defs[0]
    val = simplify(b.dag().rvalue(st['rv'], bi, si))
    if match('(add 1 (phi 0 (loop _)))', val) is None and match('(add 1 (loop _))', val) is None:
        return False, 'increment is ' + show(val)
    preds = [p for p in b.pred[bi]] if hasattr(b, 'pred') else [x for x in blocks if bi in b.succ[x]]
    if len(preds) != 1:
        return False, 'the increment block has several predecessors'
    S = preds[0]
    tgt = bi
    while b.blocks[S]['term']['k'] != 'switch':      # overflow-check assert blocks between the test and the store
        pp = [x for x in blocks if S in b.succ[x]]
        if len(pp) != 1:
            return False, 'the increment block has several predecessors'
        tgt, S = S, pp[0]
    lits = G.edge_literals(b, S).get(tgt, [])
    if not any(pol and match('(lt (param tol) (itervar (field sv (param self))))', a) is not None for a, pol in lits):
        return False, 'increment guarded by ' + '; '.join(('' if p else 'NOT ') + show(a) for a, p in lits)
    # the test is the first thing done with every element: its block is the Some-successor of the next() switch
    sp = [x for x in blocks if S in b.succ[x]]
    if len(sp) != 1:
        return False, 'the comparison is not reached once per element'
    sl = G.edge_literals(b, sp[0]).get(S, [])
    if not any(pol and match('(is (call *::next _) Some)', a) is not None for a, pol in sl):
        return False, 'the comparison is not the first step of every iteration'
    return True, None


def affine_sites(facts):
    """-> ([(fn, site, raw callee)] of operator calls that scale / divide / negate a position, number of OPoint operator sites seen)"""
    bad = []
    nsites = 0
    for body in E.user_bodies(facts):
        for s in body.calls('*'):
            name, raw = body.callee(s.data)
            ti = trait_of_impl(raw) if raw else None
            if not ti or ti[0] is None:
                continue
            tr, st = ti
            st_is_point = st.lstrip('&').lstrip("'ab ").startswith(('parry2d_f64::nalgebra::OPoint', 'parry3d_f64::nalgebra::OPoint', 'nalgebra::OPoint')) or 'nalgebra::OPoint<' in st.split('<')[0] + '<'
            trn = tr.split('<')[0].split('::')[-1]
            if 'OPoint' in st.split('<')[0] or st_is_point:
                nsites += 1
                if trn in ('Mul', 'Div', 'Neg', 'MulAssign', 'DivAssign'):
                    bad.append((body.name, s, raw))
            elif st.strip() in ('f64',) and trn in ('Mul',) and 'OPoint' in tr:
                bad.append((body.name, s, raw))
    return bad, nsites


EXACT = ('(call Unit::from_rotation_matrix (call Rotation::from_matrix_unchecked (call Matrix::from_columns $cols)))',
         '(call Unit::from_rotation_matrix (call Rotation::from_basis_unchecked $cols))',
         '(call Unit::from_basis_unchecked $cols)')
ITERATIVE = ('(call Unit::from_matrix (call Matrix::from_columns $cols))', '(call Unit::from_matrix_eps (call Matrix::from_columns $cols) ...)')


def _cols(cx, b, e, key, cols_pat):
    """the orthonormal column matrix must be turned into a rotation by an exact (closed form) conversion: nalgebra's
    from_matrix is an iteration started at the identity, and an exact half turn is a stationary point of it"""
    if e is None:
        return None
    rot = e['rot']
    ex = [m for m in (match(p, rot) for p in EXACT) if m is not None]
    it = [m for m in (match(p, rot) for p in ITERATIVE) if m is not None]
    cx.ob('EXPR', f'{key}:exact-rotation', bool(ex),
          f'{key}: the rotation is read off the orthonormal columns in closed form (from_rotation_matrix / from_basis_unchecked); the iterative from_matrix '
          'started at the identity does not move for a frame that is an exact half turn away (e.g. primary axis -x, secondary +y) and returns the identity',
          where=b.file, found=rot if not ex else None)
    m = (ex or it or [None])[0]
    if m is None:
        return None
    e2 = match(cols_pat, m['cols'])
    if e2 is None:
        return None
    out = dict(e)
    out.update(e2)
    return out



def mean_point_rules(cx):
    """the two centres that SvdBasis::from_points subtracts: sum / count, and weighted sum / total WEIGHT"""
    from vpa import term as T
    for fn, weighted in (('common::points::mean_point', False), ('common::points::mean_point_weighted', True)):
        b = cx.fn(fn)
        if not b:
            continue
        short = fn.split('::')[-1]
        r = cx.retval(b)
        e = match('(call OPoint::from (call Matrix::div $s $t))', r)
        ok = e is not None
        found = show(r)[:300]
        if ok:
            from vpa import comp as CMP
            P = '(param points)'
            I = f'(itervar (range 0 (len {P})))'
            rs = CMP.reduction(cx, b, e['s'])        # accumulator loop (`sum += ..`) or fold alike
            ok = rs is not None and rs['op'] == 'sum' and not rs['conds'] and rs['init'] is not None and match('(call Matrix::zeros)', rs['init']) is not None
            el = CMP.canon2(rs['elem']) if rs is not None else None
            found = f"sum: {rs['form']} elem={show(el)[:200]}" if rs is not None else show(e['s'])[:300]
            if ok and weighted:
                ok = match(f'(call Matrix::mul (field coords (index {P} {I})) (index (param weights) {I}))', el) is not None
                rt = CMP.reduction(cx, b, e['t'])
                et = CMP.canon2(rt['elem']) if rt is not None else None
                ok = ok and rt is not None and rt['op'] == 'sum' and not rt['conds'] and rt['init'] == ('const', 0.0) and match(f'(index (param weights) {I})', et) is not None
                found += f"; divisor: {show(et)[:120] if et is not None else show(e['t'])[:120]}"
            elif ok:
                ok = match(f'(field coords (index {P} {I}))', el) is not None and match(f'(cast f64 (len {P}))', e['t']) is not None
                found += f"; divisor: {show(e['t'])[:120]}"
            if ok and any(x is not None and x['form'] == 'loop' for x in (rs,)):
                okx, why = T.exhaustive_loops(cx, b)
                ok = ok and okx
        cx.ob('EXPR', short, ok, ('the weighted mean is (sum of p_i * w_i) / (sum of w_i), both sums over EVERY (point, weight) pair: scaling all weights by one factor leaves it unchanged'
                                   if weighted else 'the mean is (sum of p_i) / n over EVERY point'), where=b.file, found=found)

def plane3_rules(cx):
    """the (normal, d) convention of Plane3: every constructor, the inversion and the three measurements agree on it (shared with C03: a plane that
    keeps d while its normal flips is mirrored through the ORIGIN, so its measurements depend on where the frame is)"""
    # ---------------------------------------------------------------- Plane3
    P3 = 'geom3::plane3::Plane3'
    b = cx.fn(f'{P3}::from', where='Unit<')
    if b:
        cx.expect('COMUT', 'Plane3::from(normal,point)', cx.retval(b), '(call *Plane3::new $n (call Matrix::dot $n (field coords (field 1 (param 1)))))',
                  'the plane stores n and d = n . p of the SAME n', where=b.file)
    b = cx.fn(f'{P3}::from', where='OPoint<f64, parry2d_f64::nalgebra::Const<3>>, &parry2d_f64::nalgebra::OPoint')
    if b:
        cx.expect('EXPR', 'Plane3::from(p1,p2,p3)', cx.retval(b),
                  '(call *Plane3::from (agg tuple (0 (call Unit::new_normalize (call Matrix::cross (call OPoint::sub (field 1 (param 1)) (field 0 (param 1))) '
                  '(call OPoint::sub (field 2 (param 1)) (field 0 (param 1)))))) (1 (field 0 (param 1)))))',
                  'three-point plane: normal = normalize((p2-p1) x (p3-p1)), through p1', where=b.file)
    b = cx.fn(f'{P3}::from', where='SurfacePoint')
    if b:
        cx.expect('EXPR', 'Plane3::from(surface_point)', cx.retval(b), '(call *Plane3::from (agg tuple (0 (field normal (param 1))) (1 (field point (param 1)))))',
                  'surface-point plane uses that point and that normal', where=b.file)
    b = cx.fn(f'{P3}::new')
    if b:
        cx.expect('EXPR', 'Plane3::new', cx.retval(b), '(agg *Plane3 (normal (param normal)) (d (param d)))', 'new stores its arguments', where=b.file)
    b = cx.fn(f'{P3}::inverted_normal')
    if b:
        cx.expect('COMUT', 'Plane3::inverted_normal', cx.retval(b), '(call *Plane3::new (call Unit::neg (self normal)) (neg (self d)))',
                  'inverted_normal negates the normal AND d (same point set, flipped side)', where=b.file)
    b = cx.fn(f'{P3}::signed_distance_to_point')
    if b:
        cx.expect('EXPR', 'Plane3::signed_distance', cx.retval(b), '(sub (call Matrix::dot (self normal) (field coords (param point))) (self d))', 'signed distance = n.p - d', where=b.file)
    b = cx.fn(f'{P3}::project_point')
    if b:
        cx.expect('EXPR', 'Plane3::project_point', cx.retval(b), '(call OPoint::sub (param point) (call Matrix::mul (self normal) (call *signed_distance_to_point (param self) (param point))))',
                  'projection = p - n * signed_distance(p)', where=b.file)
    b = cx.fn(f'{P3}::distance_to_point')
    if b:
        cx.expect('EXPR', 'Plane3::distance_to_point', cx.retval(b), '(call f64::abs (call *signed_distance_to_point (param self) (param point)))', 'distance = |signed distance|', where=b.file)



def run(cx):
    mean_point_rules(cx)
    # ---------------------------------------------------------------- AXIS
    n = 0
    for a in AX:
        for bx in AX:
            if a == bx:
                continue
            fname = f'try_from_basis_{a}{bx}'
            bs = cx.facts.fns(f'*::{fname}')
            if len(bs) != 1:
                cx.ob('AXIS', f'{fname}:anchor', False, f'{fname} not found or ambiguous (anchor changed)')
                continue
            b = bs[0]
            cx.analysed_fns.add(b.name)
            n += 1
            calls = b.calls('geom3::iso3::from_bases')
            cx.ob('AXIS', f'{fname}:sink', len(calls) == 1, f'{fname} ends in exactly one from_bases call', found=str(len(calls)))
            if len(calls) != 1:
                continue
            c = calls[0]
            p1, p2 = b.local_name(1), b.local_name(2)
            env = {p1: ('axis', a, 1), p2: ('hint', a, bx)}
            ok = True
            detail = []
            unguarded = False
            for k, want in enumerate(AX):
                notes = []
                v = abstract_vec(cx.arg(c, k), env, notes)
                detail.append(f'col{k}={"+" if v and v[0] == "axis" and v[2] > 0 else "-" if v and v[0] == "axis" else ""}{v[1] if v and v[0] == "axis" else v}')
                if v != ('axis', want, 1):
                    ok = False
                if 'unguarded' in notes or 'try' not in notes:
                    unguarded = True
            cx.ob('AXIS', f'{fname}:right-handed', ok,
                  f'{fname}: with the first argument as +{a} and the second in the ({a},{bx}) half-plane, the columns passed to from_bases evaluate to (+x,+y,+z)',
                  where=c, found=' '.join(detail))
            cx.ob('GUARD', f'{fname}:normalisation-guarded', not unguarded,
                  f'{fname}: every column is normalised through try_normalize(..).ok_or(..)? (parallel or zero inputs fail instead of yielding NaN)', where=c,
                  found=' | '.join(show(cx.arg(c, k))[:120] for k in range(3)))
            cx.expect('EXPR', f'{fname}:origin', cx.arg(c, 3), '(param origin)', f'{fname} forwards the origin', where=c)
    cx.floor('AXIS', 'try_from_basis', n, 6, 'two-vector frame constructors')
    b = cx.fn('geom3::iso3::from_bases')
    if b:
        e = cx.expect('AXIS', 'from_bases', cx.retval(b),
                  '(agg *Result::Ok (0 (call Isometry::from_parts (phi (call Translation::from (field coords (unwrap (param origin)))) (call Translation::identity)) '
                  '$rot)))',
                  'from_bases: origin becomes the translation, None the identity', where=b.file)
        e = _cols(cx, b, e, 'from_bases', '(agg array (0 (param e0)) (1 (param e1)) (2 (param e2)))')
        cx.ob('AXIS', 'from_bases:columns', e is not None, 'from_bases: columns in x,y,z order', where=b.file)
    b = cx.fn('common::svd_basis::iso3_from_basis')
    if b:
        r = cx.retval(b)
        e = match('(call *Isometry::inverse (call Isometry::from_parts (call Translation::from (field coords (param origin))) $rot))', r)
        e = _cols(cx, b, e, 'iso3_from_basis', '(agg array (0 $b0) (1 $b1) (2 (call Matrix::normalize (call Matrix::cross $b0 $b1))))')
        ok = e is not None and match('(call Matrix::normalize (index (param basis) 0))', e['b0']) is not None and match('(call Matrix::normalize (index (param basis) 1))', e['b1']) is not None
        cx.ob('AXIS', 'iso3_from_basis', ok, 'iso3_from_basis: third column is b0 x b1 (right-handed), columns in order, inverse of the frame at origin', where=b.file, found=r)
    b = cx.fn('common::svd_basis::iso3_from_xyo')
    if b:
        r = cx.retval(b)
        e = match('(call *Isometry::inverse (call Isometry::from_parts (call Translation::from (field coords (param origin))) $rot))', r)
        e = _cols(cx, b, e, 'iso3_from_xyo', '(agg array (0 (param x0)) (1 $y0) (2 (call Matrix::normalize (call Matrix::cross (param x0) $y0))))')
        oky = e is not None and match('(call Unit::new_normalize (call Matrix::sub (param y) (call Matrix::mul (param x0) (call Matrix::dot (param x0) (param y)))))', e['y0']) is not None
        cx.ob('AXIS', 'iso3_from_xyo', oky, 'iso3_from_xyo: y0 = normalize(y - x0 (x0.y)) (Gram-Schmidt), z0 = x0 x y0', where=b.file, found=r)
    b = cx.fn('common::svd_basis::iso2_from_basis')
    if b:
        r = cx.retval(b)
        e = match('(call *Isometry::inverse (call Isometry::from_parts (call Translation::from (field coords (param origin))) $rot))', r)
        e = _cols(cx, b, e, 'iso2_from_basis', '(agg array (0 $b0) (1 (call Rotation::mul (call Rotation::new FRAC_PI_2) $b0)))')
        cx.ob('AXIS', 'iso2_from_basis', e is not None and match('(call Matrix::normalize (index (param basis) 0))', e['b0']) is not None,
              'iso2_from_basis: second column is the first rotated by +pi/2 (proper rotation)', where=b.file, found=r)

    # ---------------------------------------------------------------- AFFINE (crate-wide, expected count 0)
    bad, nsites = affine_sites(cx.facts)
    cx.floor('AFFINE', 'point-operator-sites', nsites, 100, 'resolved operator/trait calls on OPoint inspected')
    keys = sorted({b0 for b0, _, _ in bad})
    cx.ob('AFFINE', 'crate:no-scaled-positions', not bad,
          'no position (nalgebra OPoint) is multiplied, divided or negated anywhere in the crate (affine hygiene: such a value depends on where the origin is)',
          where=bad[0][1] if bad else None,
          found='; '.join(f'{nm} at {s.span}: {raw.split("::")[-1]} via {trait_of_impl(raw)[0]}' for nm, s, raw in bad) if bad else None)

    # ---------------------------------------------------------------- SvdBasis
    b = cx.fn('common::svd_basis::SvdBasis::from_points')
    if b:
        r = cx.retval(b)
        # per case (weights given / not given): the centre handed on is the (weighted) mean, and it is the centre the offsets were taken from -
        # whether svd_from_vectors is called in both branches or once after `let (center, vectors) = if let Some(w) = weights {..} else {..}`
        W = ('(is (param weights) Some)', '(is (param weights) None)')
        got = {True: None, False: None}
        for s_ in b.calls('*svd_from_vectors'):
            a1 = s_.data['args'][1]
            inner = None
            if a1['k'] in ('copy', 'move') and not a1['pl']['p']:
                ds = [d_ for d_ in b.defs().get(a1['pl']['l'], []) if d_[2] == 'assign' and d_[3]['rv']['k'] == 'agg' and len(d_[3]['rv']['ops']) == 1]
                if len(ds) == 1:
                    inner = (Site(b, ds[0][0], ds[0][1], 'agg', ds[0][3]), ds[0][3]['rv']['ops'][0])
            cv = cx.cases_by(b, s_, [s_.data['args'][0]], W)
            cc = cx.cases_by(b, inner[0], [inner[1]], W) if inner else {True: [None], False: [None]}
            for pol in (True, False):
                if cv[pol][0] is not None and cc[pol][0] is not None:
                    got[pol] = (cv[pol][0], cc[pol][0])
        ok = got[True] is not None and got[False] is not None
        if ok:
            vw, cw = got[True]
            vu, cu = got[False]
            ok = match('(call *mean_point_weighted (param points) (unwrap (param weights)))', cw) is not None and match('(call *mean_point (param points))', cu) is not None and \
                match('(call Iterator::collect (call Iterator::map (call Iterator::zip (param points) (unwrap (param weights))) (closure * $c)))', vw, {'c': cw}) is not None and \
                match('(call Iterator::collect (call Iterator::map (param points) (closure * $c)))', vu, {'c': cu}) is not None
        cx.ob('EXPR', 'SvdBasis::from_points:centre', ok,
              'the centre subtracted from the points is the (weighted) mean of the same points and is the centre stored in the result (both cases)', where=b.file, found=r)
        for cl in cx.facts.closures_of(b.name):
            rr = cx.retval(cl)
            if find('(field 1 (param 2))', rr) is not None or cl.name.endswith('{closure#0}'):
                okc = match('(call Matrix::mul (call OPoint::sub (field 0 (param 2)) (field cap:center (param 1))) (field 1 (param 2)))', rr) is not None
                cx.ob('EXPR', 'SvdBasis::from_points:weighted-offset', okc, 'weighted offsets are (p - centre) * w: the centre is subtracted before weighting', where=cl.file, found=rr)
            else:
                cx.expect('EXPR', 'SvdBasis::from_points:offset', rr, '(call OPoint::sub (param p) (field cap:center (param 1)))', 'offsets are p - centre', where=cl.file)
    b = cx.fn('common::svd_basis::svd_from_vectors')
    if b:
        st = [m for m in b.mutations() if m.kind == 'store' and m.elem]
        vals = {}
        dag = b.dag()
        for m in st:
            from vpa import comp as CP
            tgt = CP.canon(simplify(dag.place(m.data['pl'], m.bb, m.idx)))      # index form, whether the arrays are indexed or walked with iter_mut().zip()
            val = CP.canon(simplify(dag.rvalue(m.data['rv'], m.bb, m.idx)))
            # classified by what is stored, not by the name of the array: rows of V^T, or singular values
            if find('(field v_t _)', val) is not None:
                vals['basis'] = (tgt, val)
            elif find('(field singular_values _)', val) is not None:
                vals['scales'] = (tgt, val)
        # row i of v_t -> basis[i]; singular_values[i] -> scales[i] with the same i
        eb = match('(index (unwrap (field v_t _)) (agg tuple (0 $i) (1 $j)))', vals.get('basis', (None, ('x',)))[1]) if 'basis' in vals else None
        tb = match('(index (index _ $i) $j)', vals['basis'][0]) if 'basis' in vals else None
        es = match('(index (field singular_values _) $i)', vals.get('scales', (None, ('x',)))[1]) if 'scales' in vals else None
        ts = match('(index _ $i)', vals['scales'][0]) if 'scales' in vals else None
        cx.ob('EXPR', 'svd_from_vectors:rows', eb is not None and tb is not None and eb['i'] == tb['i'] and eb['j'] == tb['j'],
              'basis[i][j] = v_t[(i, j)]: rows of V^T become the basis vectors', where=b.file, found=str({k: (show(v[0])[:80], show(v[1])[:120]) for k, v in vals.items()}))
        cx.ob('EXPR', 'svd_from_vectors:scales', es is not None and ts is not None and es['i'] == ts['i'] and eb is not None and es['i'] == eb['i'],
              'sv[i] = singular_values[i] with the same i as basis[i]', where=b.file)
    b = cx.fn('common::svd_basis::SvdBasis::rank')
    if b:
        okr, why = _counts_strictly_greater(cx, b)
        cx.ob('GUARD', 'SvdBasis::rank', okr,
              'rank(tol) = the number of stored singular values STRICTLY greater than tol (every value is visited, one count per value): a value equal to the tolerance, in particular 0 at tol 0 for coincident points, does not count',
              where=b.file, found=why)
    b = cx.fn('common::svd_basis::SvdBasis::point_to_basis')
    if b:
        st = [m for m in b.mutations() if m.kind == 'store' and m.elem]
        okp = False
        for m in st:
            from vpa import comp as CMP
            val = CMP.canon(simplify(b.dag().rvalue(m.data['rv'], m.bb, m.idx)))      # index form: `for i in 0..D` and `.iter().enumerate()` alike
            tgt = CMP.canon(simplify(b.dag().place(m.data['pl'], m.bb, m.idx)))
            e = match('(call Matrix::dot (index (self basis) $i) (call OPoint::sub (param point) (self center)))', val)
            if e and match('(index _ $i)', tgt, e):
                okp = True
        cx.ob('EXPR', 'SvdBasis::point_to_basis', okp, 'result[i] = basis[i] . (point - centre)', where=b.file)
    b = cx.fn('common::svd_basis::SvdBasis::point_from_basis')
    if b:
        r = cx.retval(b)
        e = match('(call OPoint::add $acc (field coords (self center)))', r)
        from vpa import comp as CMP
        adds = [CMP.canon2(cx.arg(s, 1)) for s in b.calls('OPoint::add_assign')]       # index loop or basis.iter().zip(point.iter()): one position for both
        oka = len(adds) == 1 and match('(call Matrix::mul (index (self basis) $i) (index (param point) $i))', adds[0]) is not None
        cx.ob('EXPR', 'SvdBasis::point_from_basis', e is not None and oka, 'result = sum_i basis[i]*point[i] + centre (inverse shape of point_to_basis)', where=b.file, found=r)
    b = cx.fn('common::svd_basis::SvdBasis::basis_variances')
    if b:
        st = [m for m in b.mutations() if m.kind == 'store']
        okv = any(match('(div (call f64::powi _ 2) (cast f64 (self n)))', simplify(b.dag().rvalue(m.data['rv'], m.bb, m.idx))) is not None for m in st)
        if not st:
            # the same element-wise formula written as self.sv.map(|s| s.powi(2) / n)
            em = match('(call *::map (self sv) (closure * ...))', cx.retval(b))
            if em is not None:
                clo = [x for x in subterms(cx.retval(b)) if x[0] == 'closure']
                _, cr = cx.closure_ret(clo[0]) if clo else (None, None)
                okv = cr is not None and (match('(div (call f64::powi (param 2) 2) (cast f64 (field n (field * (param 1)))))', cr) is not None or
                                          match('(div (call f64::powi (param 2) 2) (cast f64 (field n _)))', cr) is not None)
        cx.ob('EXPR', 'SvdBasis::basis_variances', okv, 'variance_i = sv_i^2 / n', where=b.file)

    plane3_rules(cx)

def run_thorough(cx):
    """thorough tier: the generic evaluators this property relies on must fire on their positive fixture twins"""
    from rules import fixture_check as FX
    FX.affine(cx)
