"""C07 Rigid alignment recovers a known displacement and reports honest residuals - structural clauses (state coherence of the LM problems)."""
from vpa import evaluators as E
from vpa.core import show, Site, simplify, subterms, leaves
from vpa.pattern import match, find

EXPLANATION = """Structural obligations behind C07, for PointsToCurve (2D) and PointsToMesh (3D) alike: (COMUT/ORDER) set_params writes the
parameter object and THEN reaches the refresh (move_points) on every path; the refresh clears and refills every field of self that
residuals() or jacobian() read and that depends on the parameters (the read set is computed from the code, not listed); `moved`
and `closest` are cleared together and pushed together, once per input point, in input order (residual i belongs to point i);
m = current transform * p, closest = closest surface point of the reference to that SAME m; (EXPR) the rotation centre is
mean_point(points) and the caches are filled before the problem is handed to the solver; residual i is
closest[i].scalar_projection(moved[i]) (2D), dist / |scalar_projection| by DistMode (3D), and jacobian() branches on the same
mode with the matching helper, row i from pair i; under termination.was_successful() the result is
Alignment::new(transform of the MINIMISED problem, residuals of the MINIMISED problem), otherwise Err; (ENC) Alignment's fields
are private and never written after construction.
params() returns the stored parameter vector that set_params wrote (2D and 3D); from_initial goes through RotationMatrices::from_rotation =
from_euler(to_wpr(to_matrix(q))) on every path (rule shared with C08).
Every minimize runs LevenbergMarquardt::new() with its default tolerances (shared with C09). Round 5 (shared with C08): RcParams::set writes x exactly once and as given (no clamping of Euler angles); from_euler builds the three elementary rotations from the angles as given."""
NOT_DECIDED = "convergence, basin of attraction, that the final residual sum is not larger than at the start, optimality"
ASSUMPTIONS = ["levenberg_marquardt::minimize returns the problem in the state of its last set_params"]

PROBS = [
    dict(d='2D', P='geom2::align2::points_to_curve::PointsToCurve', entry='geom2::align2::points_to_curve::points_to_curve', RC='geom2::align2::rc_params2::RcParams2', ref='curve'),
    dict(d='3D', P='geom3::align3::points_to_mesh::PointsToMesh', entry='geom3::align3::points_to_mesh::points_to_mesh', RC='geom3::align3::RcParams3', ref='mesh'),
]


def self_fields_read(cx, b):
    """names of the fields of `self` that body b reads (directly)"""
    out = set()
    dag = b.dag()
    for s in b.calls('*'):
        for t in subterms(cx.call(s)):
            if t[0] == 'field' and t[2][0] == 'param' and t[2][1] == 1:
                out.add(t[1])
    for bi in b.live:
        if bi not in b.reachable():
            continue
        for si, st in enumerate(b.blocks[bi]['stmts']):
            for t in subterms(simplify(dag.rvalue(st['rv'], bi, si))):
                if t[0] == 'field' and isinstance(t[2], tuple) and t[2][0] == 'param' and t[2][1] == 1:
                    out.add(t[1])
        t = b.blocks[bi]['term']
        if t['k'] == 'switch':
            for tt in subterms(simplify(dag.operand(t['d'], bi, len(b.blocks[bi]['stmts'])))):
                if tt[0] == 'field' and isinstance(tt[2], tuple) and tt[2][0] == 'param' and tt[2][1] == 1:
                    out.add(tt[1])
    return out


def run(cx):
    from rules.C09 import solver_defaults_rule
    solver_defaults_rule(cx)
    for D in PROBS:
        d, P, RC = D['d'], D['P'], D['RC']
        short = P.split('::')[-1]
        sp = cx.fn(f'{P}::set_params')
        mv = cx.fn(f'{P}::move_points')
        res = cx.fn(f'{P}::residuals')
        jac = cx.fn(f'{P}::jacobian')
        new = cx.fn(f'{P}::new')
        if not (sp and mv and res and jac and new):
            continue
        # ---------------------------------------------------------------- set_params: write then refresh
        sets = sp.calls(f'{RC}::set')
        mvs = sp.calls(f'{P}::move_points')
        ok = len(sets) == 1 and len(mvs) == 1 and match('(field params (param self))', cx.arg(sets[0], 0)) is not None and match('(param x)', cx.arg(sets[0], 1)) is not None
        ok = ok and sp.dominates(sets[0].bb, mvs[0].bb) and all(sp.dominates(mvs[0].bb, e) for e in sp.exits())
        cx.ob('ORDER', f'{short}::set_params', ok, f'{short}: the new parameter vector is stored first and the caches are refreshed afterwards, on every path', where=sp.file)
        # ---------------------------------------------------------------- params() reads back what set_params stored
        pb = cx.fn(f'{P}::params')
        if pb:
            cx.expect('EXPR', f'{short}::params', cx.retval(pb), '(field x (field params (param self)))',
                      f'{short}: params() returns the stored parameter vector itself - the one set_params wrote - so the solver and the problem agree on the parametrisation '
                      '(a vector re-derived from the transform is a different parametrisation of the same pose)', where=pb.file)
        # ---------------------------------------------------------------- refresh covers the read set
        reads = (self_fields_read(cx, res) | self_fields_read(cx, jac))
        a = cx.adt(P)
        all_fields = [f['name'] for v in a['variants'] for f in v['fields']] if a else []
        mv_writes = {m.path[0] for m in mv.mutations() if m.root == 1 and m.path}
        sp_direct = {m.path[0] for m in sp.mutations() if m.root == 1 and m.path}
        # fields no function writes after construction are parameter-independent inputs
        w = E.field_writers(cx, P, tuple(all_fields), direct=True)
        ever = set()
        for fn, fs in w.items():
            ever |= fs
        dependent = {f for f in reads if f in ever}
        missing = sorted(dependent - mv_writes - sp_direct)
        cx.ob('COMUT', f'{short}:refresh-covers-reads', not missing and {'moved', 'closest'} <= mv_writes,
              f'{short}: every mutable field that residuals()/jacobian() read ({sorted(reads)}) is rewritten by set_params/move_points ({sorted(mv_writes | sp_direct)})',
              where=mv.file, found=f'read but not refreshed: {missing}' if missing else None)
        # ---------------------------------------------------------------- move_points: clear both, push both per point, in order
        muts = [m for m in mv.mutations() if m.root == 1 and m.path and m.path[0] in ('moved', 'closest')]
        clears = {m.path[0] for m in muts if m.callee == 'Vec::clear'}
        pushes = {m.path[0]: m for m in muts if m.callee == 'Vec::push'}
        loops = mv.loops()
        ok = clears == {'moved', 'closest'} and set(pushes) == {'moved', 'closest'} and len(loops) == 1
        if ok:
            h, blocks, backs = loops[0]
            ok = all(m.bb in blocks and all(mv.dominates(m.bb, s) for s in backs) for m in pushes.values())
            ok = ok and all(mv.dominates(m.bb, h) for m in muts if m.callee == 'Vec::clear')
        two_pass = False
        if not ok and clears == {'moved', 'closest'} and not pushes:
            # the same refresh as two passes: moved.extend(points.map(T * p)); closest.extend(moved.map(closest surface point)) - one element per input point each,
            # the second pass reading the vector the first one just filled
            from vpa import comp as CMPX
            ext = {}
            for s_ in mv.calls('Vec::extend'):
                tgt = cx.arg(s_, 0)
                for fld in ('moved', 'closest'):
                    if find(f'(field {fld} (param self))', tgt) is not None and fld not in ext and find(f'(mut Vec::clear . (field {fld} (param self)))', tgt) is not None:
                        cs = [c for c in CMPX.comprehensions(cx, mv, ('call', 'Iterator::collect', cx.arg(s_, 1))) if c.get('elem') is not None]
                        if len(cs) == 1 and not cs[0]['conds']:
                            ext[fld] = (s_, cs[0])
            if set(ext) == {'moved', 'closest'}:
                sm, cm = ext['moved']
                sc, cc = ext['closest']
                PTS = '(field points (param self))'
                okm2 = match(PTS, cm['src']) is not None and match(f'(call Isometry::mul $t (index {PTS} (itervar (range 0 (len {PTS})))))', cm['elem']) is not None and \
                    (find('(call *::transform (field params _))', cm['elem']) is not None or find('(call *::current_transform (param self))', cm['elem']) is not None)
                MV = cc['src']
                filled = match(f'(mut Vec::extend . (mut Vec::clear . (field moved (param self))) _)', MV) is not None
                if d == '2D':
                    okc2 = match('(call *CurveStation2::surface_point (call *Curve2::at_closest_to_point (field curve (param self)) (index $mv (itervar (range 0 (len $mv))))))', cc['elem'], {'mv': MV}) is not None
                else:
                    okc2 = match('(call *Mesh::surf_closest_to (field mesh (param self)) (index $mv (itervar (range 0 (len $mv)))))', cc['elem'], {'mv': MV}) is not None
                two_pass = okm2 and filled and okc2 and mv.dominates(sm.bb, sc.bb)
                if two_pass:
                    ok = True
                    cx.ob('EXPR', f'{short}::move_points:moved', True, f'{short}: moved[i] = current transform * points[i], in input order', where=sm)
                    cx.ob('EXPR', f'{short}::move_points:closest', True, f'{short}: closest[i] is the closest surface point of the reference to the SAME moved point', where=sc)
        cx.ob('COMUT', f'{short}::move_points:parallel', ok, f'{short}: moved and closest are cleared together before the loop and each pushed exactly once per cycle of the loop over the input points', where=mv.file)
        if set(pushes) == {'moved', 'closest'}:
            pm = Site(mv, pushes['moved'].bb, len(mv.blocks[pushes['moved'].bb]['stmts']), 'call', pushes['moved'].data)
            pc = Site(mv, pushes['closest'].bb, len(mv.blocks[pushes['closest'].bb]['stmts']), 'call', pushes['closest'].data)
            m_val = cx.arg(pm, 1)
            c_val = cx.arg(pc, 1)
            em = match('(call Isometry::mul $t (itervar (field points (param self))))', m_val)
            okm = em is not None and (match(f'(call *{RC.split("::")[-1]}::transform (field params _))', em['t']) is not None or match(f'(call *::current_transform (param self))', em['t']) is not None)
            cx.ob('EXPR', f'{short}::move_points:moved', okm, f'{short}: moved[i] = current transform * points[i], in input order', where=pm, found=m_val)
            if d == '2D':
                okc = match('(call *CurveStation2::surface_point (call *Curve2::at_closest_to_point _ $m))', c_val, {'m': m_val}) is not None and find('(field curve _)', c_val) is not None
            else:
                okc = match('(call *Mesh::surf_closest_to _ $m)', c_val, {'m': m_val}) is not None and find('(field mesh _)', c_val) is not None
            cx.ob('EXPR', f'{short}::move_points:closest', okc, f'{short}: closest[i] is the closest surface point of the reference to the SAME moved point', where=pc, found=c_val)
        if d == '3D':
            ct = cx.fn(f'{P}::current_transform')
            if ct:
                cx.expect('EXPR', f'{short}::current_transform', cx.retval(ct), f'(call *RcParams3::transform (field params (param self)))', 'current_transform = params.transform()', where=ct.file)
        # ---------------------------------------------------------------- new(): centre and initial refresh
        r = cx.retval(new)
        e = match(f'(mut *::move_points . (agg * (points (param points)) ({D["ref"]} (param {D["ref"]})) (params (call *::from_initial (param initial) (call *points::mean_point (param points))))))', r)
        cx.ob('EXPR', f'{short}::new', e is not None, f'{short}: the rotation centre is mean_point(points), parameters start from the initial isometry, and the caches are filled before the solver sees the problem', where=new.file, found=r)
        # ---------------------------------------------------------------- residuals / jacobian pairing
        PAIR = '(itervar (call Iterator::enumerate (call Iterator::zip (field moved (param self)) (field closest (param self)))))'
        Pm, Pc, Pi = f'(field 0 (field 1 {PAIR}))', f'(field 1 (field 1 {PAIR}))', f'(field 0 {PAIR})'
        st = [m for m in res.mutations() if m.kind == 'store']
        okr = False
        for m in st:
            tgt = simplify(res.dag().local(m.data['pl']['l'], m.bb, m.idx))
            if match(f'(index _ {Pi})', tgt) is None:
                continue
            al = cx.alts(res, {'k': 'copy', 'pl': {'l': m.data['rv']['a']['pl']['l'], 'p': []}} if m.data['rv']['k'] == 'use' and m.data['rv']['a']['k'] in ('copy', 'move') else m.data['rv'].get('a', {'k': 'const'}), m.bb, m.idx)
            vals = [(dv, g) for _, dv, g in al]
            if d == '2D':
                okr = len(vals) == 1 and match(f'(call *SurfacePoint::scalar_projection {Pc} {Pm})', vals[0][0]) is not None
            else:
                seen = {}
                for dv, g in vals:
                    mode_pt = any(p and a[0] == 'is' and a[2] == 'ToPoint' for a, p in g)
                    mode_pl = any(p and a[0] == 'is' and a[2] == 'ToPlane' for a, p in g) or any((not p) and a[0] == 'is' and a[2] == 'ToPoint' for a, p in g)
                    if match(f'(call *points::dist {Pm} (field point {Pc}))', dv) is not None or match(f'(call *points::dist (field point {Pc}) {Pm})', dv) is not None:
                        seen['ToPoint'] = mode_pt
                    elif match(f'(call f64::abs (call *SurfacePoint::scalar_projection {Pc} {Pm}))', dv) is not None:
                        seen['ToPlane'] = mode_pl
                okr = seen == {'ToPoint': True, 'ToPlane': True}
        cx.ob('EXPR', f'{short}::residuals', okr,
              f'{short}: residual i = ' + ('closest[i].scalar_projection(moved[i])' if d == '2D' else 'dist(moved[i], closest[i].point) in ToPoint mode, |closest[i].scalar_projection(moved[i])| in ToPlane mode') + ' of the i-th (moved, closest) pair',
              where=res.file)
        cj = jac.calls('*::copy_jacobian')
        okj = len(cj) == 1 and match(Pi, cx.arg(cj[0], 2)) is not None
        if okj:
            src = cj[0].data['args'][0]
            al = cx.alts(jac, src, cj[0].bb, cj[0].idx)
            if d == '2D':
                okj = len(al) == 1 and match(f'(call *::point_surface_jacobian {Pm} {Pc} (field params (param self)))', al[0][1]) is not None
            else:
                seen = {}
                for _, dv, g in al:
                    mode_pt = any(p and a[0] == 'is' and a[2] == 'ToPoint' for a, p in g)
                    mode_pl = any(p and a[0] == 'is' and a[2] == 'ToPlane' for a, p in g) or any((not p) and a[0] == 'is' and a[2] == 'ToPoint' for a, p in g)
                    if match(f'(call *::point_point_jacobian {Pm} (field point {Pc}) (field params (param self)))', dv) is not None:
                        seen['ToPoint'] = mode_pt
                    elif match(f'(call *::point_plane_jacobian {Pm} {Pc} (field params (param self)))', dv) is not None:
                        seen['ToPlane'] = mode_pl
                okj = seen == {'ToPoint': True, 'ToPlane': True}
        cx.ob('EXPR', f'{short}::jacobian', okj, f'{short}: row i of the Jacobian comes from the i-th (moved, closest) pair through the helper that matches the residual' + (' of the same DistMode' if d == '3D' else ''), where=jac.file)
        # ---------------------------------------------------------------- result assembly
        b = cx.fn(D['entry'])
        if b:
            oks = [(s, dd) for s, dd in cx.rets(b) if dd[0] == 'agg' and dd[1].endswith('Result::Ok')]
            errs = [(s, dd) for s, dd in cx.rets(b) if dd[0] == 'agg' and dd[1].endswith('Result::Err')]
            ok = len(oks) == 1 and len(errs) == 1
            if ok:
                s, dd = oks[0]
                g = cx.guarded(b, s.bb, '(call TerminationReason::was_successful (field termination (field 1 $res)))', True)
                ok = g is not None and match(f'(call LevenbergMarquardt::minimize _ (call *{short}::new ...))', g['res']) is not None
                if ok:
                    if d == '2D':
                        tpat = '(call *RcParams2::transform (field params (field 0 $res)))'
                    else:
                        tpat = f'(call *{short}::current_transform (field 0 $res))'
                    ok = match(f'(agg * (0 (call *Alignment::new {tpat} (call Matrix::as_slice (unwrap (call *{short}::residuals (field 0 $res)))))))', dd, g) is not None
                ok = ok and cx.guarded(b, errs[0][0].bb, '(call TerminationReason::was_successful _)', False) is not None
            cx.ob('EXPR', f'{D["entry"].split("::")[-1]}:result', ok,
                  'under was_successful(): Alignment::new(transform of the minimised problem, residuals of the minimised problem); otherwise Err - transform and residuals describe the same state', where=b.file)
    AL = 'common::align::Alignment'
    E.enc(cx, AL, ('transform', 'residuals'), constructors=[f'{AL}::new'])
    E.immutable_after_construction(cx, AL, ('transform', 'residuals'))
    b = cx.fn(f'{AL}::new')
    if b:
        cx.expect('EXPR', 'Alignment::new', cx.retval(b), '(agg * (transform (param transform)) (residuals (param residuals)))', 'Alignment::new stores its arguments', where=b.file)

    # the rows of the 3D problem's Jacobian and the decomposition of the caller's starting guess (anchored in C08's files)
    from rules import C08
    C08.jacobian_rules(cx)
    C08.euler_rules(cx)
    C08.set_rules(cx)


def run_thorough(cx):
    """thorough tier: the generic evaluators this property relies on must fire on their positive fixture twins"""
    from rules import fixture_check as FX
    FX.enc(cx)
