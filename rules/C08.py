"""C08 Alignment parameters round-trip and Jacobians are true derivatives - structural clauses (derived-state consistency only)."""
from vpa import evaluators as E
from vpa.core import show, Site, simplify, subterms
from vpa.pattern import match, find

EXPLANATION = """Structural obligations behind C08 (consistency of the state derived from the parameter vector; no derivative is checked): for
RcParams2 and RcParams3 every function that writes `x` reaches compute() before it returns; compute() rewrites ALL of transform,
inverse, rotation(s) and current_rc from the CURRENT x: inverse = inverse(the new transform), current_rc = (the new transform) * rc;
rc and the shifts are never written after construction; the conjugations are T(rc).t.T(-rc) (about origin) and T(-rc).t.T(rc)
(about centre), RcParams3 composes shift1 . p . shift0 with shift0 = T(-rc), shift1 = T(initial*rc); every Jacobian helper takes
its lever arm from params.current_rc() (the MOVED centre), uses rd.x, rd.y, rd.z for rows 3..5 in that order, the reverse
variant negates the sign and uses the reference point, and the plane Jacobian carries signum(scalar_projection) to match the
|.| residual; ParamHandler::set_param copies the raw vector and recomputes every non-static body from its own 6-slice.
RotationMatrices::from_rotation = from_euler(to_wpr(to_matrix(q))) on every path: no small rotation is short-cut to the identity. Round 5: RcParams::set writes x exactly once and as given; RotationMatrices::from_euler builds its elementary rotations and records r from the angles as given (no wrapping). Round 6: point_point_jacobian returns the zero row only under norm_squared < a constant <= 1e-15."""
NOT_DECIDED = "that any Jacobian entry equals a derivative; that the Euler formulas invert from_euler (only WHICH branch is taken at gimbal lock and what it returns is decided); parameter round-trips (symbolic differentiation of the matrix expressions would be symbolic execution)"
ASSUMPTIONS = ["nalgebra Isometry product is composition (left factor applied last)"]


def run(cx):
    for RC, derived, extra in (('geom2::align2::rc_params2::RcParams2', ('transform', 'inverse', 'rotation', 'current_rc'), ('rc',)),
                               ('geom3::align3::RcParams3', ('transform', 'inverse', 'rotations', 'current_rc'), ('rc', 'shift0', 'shift1'))):
        short = RC.split('::')[-1]
        comp = cx.fn(f'{RC}::compute')
        if not comp:
            continue
        muts = {m.path[0]: m for m in comp.mutations() if m.root == 1 and m.path and m.kind == 'store'}
        cx.ob('COMUT', f'{short}::compute:writes-all', set(muts) == set(derived), f'{short}::compute rewrites every derived field {derived}', where=comp.file, found=str(sorted(muts)))
        vals = {k: simplify(comp.dag().rvalue(m.data['rv'], m.bb, m.idx)) for k, m in muts.items()}
        if set(derived) <= set(vals):
            T = vals['transform']
            cx.ob('ORDER', f'{short}::compute:inverse', vals['inverse'] == ('call', 'Isometry::inverse', T), f'{short}: inverse = inverse(the transform computed in this very call)', where=comp.file, found=vals['inverse'])
            cx.ob('ORDER', f'{short}::compute:current_rc', match('(call Isometry::mul $t (self rc))', vals['current_rc'], {'t': T}) is not None, f'{short}: current_rc = (the new transform) * rc', where=comp.file, found=vals['current_rc'])
            if short == 'RcParams2':
                okT = match('(call *as_iso_about_origin (self rc) (call *iso2_from_param (self x)))', T) is not None
                okR = match('(call Isometry::rotation (call Unit::angle (field rotation (call *iso2_from_param (self x)))))', vals['rotation']) is not None
            else:
                okT = match('(call Isometry::mul (call Isometry::mul (self shift1) (call Isometry::from_parts (call Translation::new (field x (self x)) (field y (self x)) (field z (self x))) (field q $rot))) (self shift0))', T) is not None
                okR = match('(call *RotationMatrices::from_euler (index (self x) 3) (index (self x) 4) (index (self x) 5))', vals['rotations']) is not None
                e = match('(call Isometry::mul (call Isometry::mul (self shift1) (call Isometry::from_parts _ (field q $rot))) (self shift0))', T)
                okT = okT and e is not None and e['rot'] == vals['rotations']
            cx.ob('EXPR', f'{short}::compute:transform', okT, f'{short}: the transform is the parameter isometry conjugated about the rotation centre, built from the CURRENT x', where=comp.file, found=T)
            cx.ob('EXPR', f'{short}::compute:rotation', okR, f'{short}: the cached rotation(s) come from the rotation parameters of the CURRENT x', where=comp.file, found=vals.get('rotation') or vals.get('rotations'))
        # every writer of x reaches compute
        writers = E.field_writers(cx, RC, ('x',), direct=True)
        nw = 0
        for fn in sorted(writers):
            b = cx.fn(fn)
            if not b:
                continue
            nw += 1
            cs = b.calls(f'{RC}::compute')
            xs = [m for m in b.mutations() if m.path and m.path[0] == 'x' and m.kind == 'store']
            ok = len(cs) >= 1 and all(any(b.dominates(m.bb, c.bb) and all(b.dominates(c.bb, e) for e in b.exits()) for c in cs) for m in xs)
            cx.ob('COMUT', f'{short}:x-writer:{fn.split("::")[-1]}', ok, f'{fn.split("::")[-1]} writes x and then reaches compute() on every path', where=b.file)
        cx.floor('COMUT', f'{short}:x-writers', nw, 1, f'functions writing {short}.x after construction')
        fi = cx.fn(f'{RC}::from_initial')
        if fi:
            r = cx.retval(fi)
            cx.ob('COMUT', f'{short}::from_initial:compute', match('(mut *::compute . (agg * ...))', r) is not None or find('(mut *::compute . _)', r) is not None,
                  f'{short}::from_initial runs compute() on the freshly built object before returning it', where=fi.file, found=r)
            lit = find(f'(agg *{short}::{short} ...)', r) or find('(agg * (rc _) ...)', r)
        E.immutable_after_construction(cx, RC, extra)
        E.enc(cx, RC, tuple(derived) + ('x',) + tuple(f for f in extra if f != 'rc' or short == 'RcParams2'), constructors=[f'{RC}::from_initial'])
        sb = cx.fn(f'{RC}::set')
        if sb:
            xs = [m for m in sb.mutations() if m.path == ('x',) and m.kind == 'store']
            cx.ob('EXPR', f'{short}::set:x', len(xs) == 1 and match('(param x)', simplify(sb.dag().rvalue(xs[0].data['rv'], xs[0].bb, xs[0].idx))) is not None, f'{short}::set stores the given vector', where=sb.file)
    # RcParams3 shifts
    fi = cx.fn('geom3::align3::RcParams3::from_initial')
    if fi:
        r = cx.retval(fi)
        e = find('(agg *RcParams3 (rc (param rc)) (shift0 (call Isometry::translation (neg (field x (param rc))) (neg (field y (param rc))) (neg (field z (param rc))))) '
                 '(shift1 (call Isometry::translation (field x $d) (field y $d) (field z $d))))', r)
        ok = e is not None and match('(call Isometry::mul (param initial) (param rc))', e[1]['d']) is not None
        cx.ob('EXPR', 'RcParams3::from_initial:shifts', ok, 'shift0 = T(-rc), shift1 = T(initial * rc): the parameter isometry acts about the rotation centre', where=fi.file)
        e2 = find('(agg *RcParams3 (x (call Matrix::new 0.0 0.0 0.0 (field x (field r $rot)) (field y (field r $rot)) (field z (field r $rot)))))', r)
        cx.ob('EXPR', 'RcParams3::from_initial:x', e2 is not None and match('(call *RotationMatrices::from_rotation (field rotation (param initial)))', e2[1]['rot']) is not None,
              'the initial parameter vector is zero translation plus the Euler angles of the initial rotation', where=fi.file)
    fi = cx.fn('geom2::align2::rc_params2::RcParams2::from_initial')
    if fi:
        r = cx.retval(fi)
        e = find('(agg *RcParams2 (rc (param rc)) (x (call *param_from_iso2 (call *as_iso_about_center (param rc) (param initial)))))', r)
        cx.ob('EXPR', 'RcParams2::from_initial:x', e is not None, 'the initial parameters are those of the initial isometry re-expressed about the rotation centre', where=fi.file)
    # conjugations
    b = cx.fn('geom2::align2::rc_params2::as_iso_about_origin')
    if b:
        cx.expect('EXPR', 'as_iso_about_origin', cx.retval(b),
                  '(call Isometry::mul (call Isometry::mul (call Isometry::translation (field x (param rc)) (field y (param rc))) (param t)) (call Isometry::translation (neg (field x (param rc))) (neg (field y (param rc)))))',
                  'about origin = T(rc) . t . T(-rc)', where=b.file)
    b = cx.fn('geom2::align2::rc_params2::as_iso_about_center')
    if b:
        cx.expect('EXPR', 'as_iso_about_center', cx.retval(b),
                  '(call Isometry::mul (call Isometry::mul (call Isometry::translation (neg (field x (param rc))) (neg (field y (param rc)))) (param t)) (call Isometry::translation (field x (param rc)) (field y (param rc))))',
                  'about centre = T(-rc) . t . T(rc) (the other conjugation with the translations swapped)', where=b.file)
    b = cx.fn('geom2::align2::iso2_from_param')
    if b:
        cx.expect('EXPR', 'iso2_from_param', cx.retval(b), '(call Isometry::mul (call Isometry::translation (field x (param p)) (field y (param p))) (call Isometry::rotation (field z (param p))))', 'iso = T(x,y) . R(z)', where=b.file)
    b = cx.fn('geom2::align2::param_from_iso2')
    if b:
        cx.expect('EXPR', 'param_from_iso2', cx.retval(b), '(call Matrix::new (field x (field vector (field translation (param t)))) (field y (field vector (field translation (param t)))) (call Unit::angle (field rotation (param t))))',
                  'params = (translation x, translation y, rotation angle)', where=b.file)
    b = cx.fn('geom3::align3::iso3_from_param')
    if b:
        cx.expect('EXPR', 'iso3_from_param', cx.retval(b), '(call Isometry::from_parts (call Translation::new (field x (param p)) (field y (param p)) (field z (param p))) (call Unit::from_euler_angles (field w (param p)) (field a (param p)) (field b (param p))))',
                  'iso = (translation x,y,z ; Euler angles w,a,b)', where=b.file)
    b = cx.fn('geom3::align3::param_from_iso3')
    if b:
        cx.expect('EXPR', 'param_from_iso3', cx.retval(b),
                  '(call Matrix::new (field x (field vector (field translation (param t)))) (field y (field vector (field translation (param t)))) (field z (field vector (field translation (param t)))) '
                  '(field 0 (call Unit::euler_angles (field rotation (param t)))) (field 1 (call Unit::euler_angles (field rotation (param t)))) (field 2 (call Unit::euler_angles (field rotation (param t)))))',
                  'params = (translation, roll/pitch/yaw in order)', where=b.file)
    jacobian_rules(cx)
    # ---------------------------------------------------------------- ParamHandler
    PH = 'geom3::align3::multi_param::ParamHandler'
    b = cx.fn(f'{PH}::set_param')
    if b:
        cp = b.calls('*Matrix::copy_from')
        cs = b.calls(f'{PH}::compute')
        ok = len(cp) == 1 and len(cs) == 1 and b.dominates(cp[0].bb, cs[0].bb) and match('(param x)', cx.arg(cp[0], 1)) is not None and all(b.dominates(cs[0].bb, e) for e in b.exits())
        cx.ob('ORDER', 'ParamHandler::set_param', ok, 'set_param copies the raw vector and then recomputes every body', where=b.file)
    b = cx.fn(f'{PH}::compute')
    if b:
        sets = b.calls('geom3::align3::RcParams3::set')
        ok = len(sets) == 1
        if ok:
            s = sets[0]
            tgt = cx.arg(s, 0)
            val = cx.arg(s, 1)
            e = match('(index (anyphi (field params _)) $i)', tgt)
            ok = e is not None and match('(itervar (range 0 (self count)))', e['i']) is not None and \
                cx.guarded(b, s.bb, '(eq $i (self static_i))', False, e) is not None and \
                find('(call Matrix::fixed_rows (field raw_params _) (mul (call *ParamHandler::p_index _ $i) 6))', val, e) is not None
        cx.ob('EXPR', 'ParamHandler::compute', ok, 'every non-static body i is set from rows p_index(i)*6 .. +6 of the raw vector', where=b.file)
    b = cx.fn(f'{PH}::p_index')
    if b:
        rets = cx.alts(b, {'k': 'copy', 'pl': {'l': 0, 'p': []}}, b.exits()[0], len(b.blocks[b.exits()[0]]['stmts']) + 1)
        ok = len(rets) == 2
        for (bb, dv, g) in rets:
            gt = any(p and match('(lt (self static_i) (param cloud_i))', a) is not None for a, p in g)
            le = any((not p) and match('(lt (self static_i) (param cloud_i))', a) is not None for a, p in g)
            ok = ok and ((gt and match('(sub (param cloud_i) 1)', dv) is not None) or (le and match('(param cloud_i)', dv) is not None))
        cx.ob('EXPR', 'ParamHandler::p_index', ok, 'parameter slot = body index, minus one past the static body', where=b.file)

    euler_rules(cx)
    set_rules(cx)


def jacobian_rules(cx):
    """Jacobian wiring (shared with C07: the LM problems take their rows from these helpers)"""
    # ---------------------------------------------------------------- Jacobian wiring
    J3 = 'geom3::align3::jacobian'
    b = cx.fn('geom2::align2::jacobian::point_surface_jacobian')
    if b:
        FR = '(call OPoint::sub (param p) (call *RcParams2::current_rc (param params)))'
        cx.expect('EXPR', 'point_surface_jacobian', cx.retval(b),
                  f'(call Matrix::new (field x (field normal (param s))) (field y (field normal (param s))) (call Matrix::dot (field normal (param s)) (call Matrix::new (neg (field y {FR})) (field x {FR}))))',
                  '2D row = (n.x, n.y, n . rot90(p - current_rc)): lever arm from the MOVED rotation centre', where=b.file)
    b = cx.fn(f'{J3}::point_plane_jacobian')
    if b:
        cx.expect('EXPR', 'point_plane_jacobian', cx.retval(b),
                  '(call *point_plane_core (call f64::signum (call *SurfacePoint::scalar_projection (param c) (param p))) (param c) (call OPoint::from (call OPoint::sub (param p) (call *RcParams3::current_rc (param params)))) (param params))',
                  'plane row: sign = signum(scalar projection) (matches the |.| residual), lever arm p - current_rc', where=b.file)
    b = cx.fn(f'{J3}::point_plane_jacobian_rev')
    if b:
        cx.expect('EXPR', 'point_plane_jacobian_rev', cx.retval(b),
                  '(call *point_plane_core (neg (call f64::signum (call *SurfacePoint::scalar_projection (param c) (param p)))) (param c) (call OPoint::from (call OPoint::sub (field point (param c)) (call *RcParams3::current_rc (param params)))) (param params))',
                  'reference-side row: negated sign, lever arm reference point - current_rc', where=b.file)
    b = cx.fn(f'{J3}::point_plane_core')
    if b:
        st = [m for m in b.mutations() if m.kind == 'store' and m.elem]
        rows = {}
        N = '(call Matrix::mul (field normal (param c)) (param s))'
        for m in st:
            tgt = simplify(b.dag().local(m.data['pl']['l'], m.bb, m.idx))
            val = simplify(b.dag().rvalue(m.data['rv'], m.bb, m.idx))
            t = match('(index _ $k)', tgt)
            if not t or t['k'][0] != 'const':
                continue
            k = t['k'][1]
            if k < 3:
                rows[k] = match(f'(field {"xyz"[k]} {N})', val) is not None
            else:
                rows[k] = match(f'(call Matrix::dot {N} (field coords (call Matrix::mul (field {"xyz"[k-3]} (field rd (call *RcParams3::rotations (param params)))) (param from_rc))))', val) is not None
        cx.ob('EXPR', 'point_plane_core:rows', rows == {i: True for i in range(6)},
              'rows 0..2 = s*n; rows 3,4,5 = (s*n) . (rd.x, rd.y, rd.z applied to the lever arm), in that order', where=b.file, found=str(rows))
    b = cx.fn(f'{J3}::point_point_jacobian')
    if b:
        dag = b.dag()
        st = [m for m in b.mutations() if m.kind == 'store' and m.root in cx.returned_locals(b)]
        rows = {}
        Nn = '(call Matrix::normalize (call OPoint::sub (param p) (param c)))'
        FR = '(call OPoint::from (call OPoint::sub (param p) (call *RcParams3::current_rc (param params))))'
        for m in st:
            val = simplify(dag.rvalue(m.data['rv'], m.bb, m.idx))
            fld = m.path[-1] if m.path else None
            if fld in ('x', 'y', 'z'):
                rows[fld] = match(f'(field {fld} {Nn})', val) is not None
            elif fld in ('w', 'a', 'b'):
                ax = {'w': 'x', 'a': 'y', 'b': 'z'}[fld]
                rows[fld] = match(f'(call Matrix::dot {Nn} (field coords (call Matrix::mul (field {ax} (field rd (call *RcParams3::rotations (param params)))) {FR})))', val) is not None
        # the zero row is returned only for (numerically) coincident points: squared distance below 1e-16, i.e. distance below 1e-8
        zg = [cx.guarded(b, s_.bb, '(lt (call Matrix::norm_squared (call OPoint::sub (param p) (param c))) $eps)', True) for s_, d_ in cx.rets(b) if d_ == ('call', 'Matrix::zeros')]
        okz = len(zg) == 1 and zg[0] is not None and zg[0]['eps'][0] == 'const' and isinstance(zg[0]['eps'][1], float) and 0.0 < zg[0]['eps'][1] <= 1e-15
        cx.ob('GUARD', 'point_point_jacobian:coincident-cutoff', okz,
              'the all-zero row replaces the derivative only under |p - c|^2 < 1e-16 (a cut-off of 1e-8 on the SQUARED distance would zero the rows of every pair closer than 1e-4)', where=b.file,
              found=zg[0]['eps'] if zg and zg[0] else None)
        cx.ob('EXPR', 'point_point_jacobian:rows', rows == {k: True for k in 'xyzwab'},
              'point-to-point row: n = normalize(p - c); translation part n; rotation part n . (rd.x, rd.y, rd.z applied to p - current_rc) in order', where=b.file, found=str(rows))


def set_rules(cx):
    """shared with C07: the optimiser's parameter vector is stored as given (clamping an Euler angle pins the solver at the edge of the principal range)"""
    for RC, short in (('geom2::align2::rc_params2::RcParams2', 'RcParams2'), ('geom3::align3::RcParams3', 'RcParams3')):
        sb = cx.fn(f'{RC}::set')
        if sb:
            xs = [m for m in sb.mutations() if m.root == 1 and m.path and m.path[0] == 'x']
            whole = [m for m in xs if m.path == ('x',) and m.kind == 'store']
            ok = len(xs) == 1 and len(whole) == 1 and match('(param x)', simplify(sb.dag().rvalue(whole[0].data['rv'], whole[0].bb, whole[0].idx))) is not None
            cx.ob('EXPR', f'{short}::set:x-only-store', ok, f'{short}::set writes x exactly once, as the given vector: no element is adjusted, clamped or wrapped afterwards', where=sb.file,
                  found='; '.join(str(m) for m in xs))
    b = cx.fn('geom3::align3::rotations::RotationMatrices::from_euler')
    if b:
        got = sorted((show(cx.arg(s, 0)), show(cx.arg(s, 1)), show(cx.arg(s, 2))) for s in b.calls('Unit::from_euler_angles'))
        want = sorted([('(param rx)', '0.0', '0.0'), ('0.0', '(param ry)', '0.0'), ('0.0', '0.0', '(param rz)')])
        lits = b.aggregates('geom3::align3::rotations::RotationMatrices')
        rfld = dict(cx.aggval(lits[0])[2:]).get('r') if len(lits) == 1 else None
        okr = rfld is not None and (match('(call *Euler::new (param rx) (param ry) (param rz))', rfld) is not None or
                                    match('(agg *Euler (x (param rx)) (y (param ry)) (z (param rz)))', rfld) is not None)      # through the constructor or as a struct literal
        cx.ob('EXPR', 'RotationMatrices::from_euler:elementary', got == want and okr,
              'the three elementary rotations are built from the angles AS GIVEN (no wrapping into a principal range: wrapping the pitch with period pi is not the same rotation), and r records those angles',
              where=b.file, found=str(got))


def euler_rules(cx):
    """Euler extraction (shared with C07: the starting guess of points_to_mesh goes through from_initial -> to_wpr)"""
    # ---------------------------------------------------------------- every rotation is decomposed, small ones included
    b = cx.fn('geom3::align3::rotations::RotationMatrices::from_rotation')
    if b:
        W = '(call *rotations::to_wpr (call *rotations::to_matrix (param q)))'
        cx.expect('EXPR', 'RotationMatrices::from_rotation', cx.retval(b), f'(call *RotationMatrices::from_euler (field 0 {W}) (field 1 {W}) (field 2 {W}))',
                  'on every path the matrices are from_euler(w, p, r) of to_wpr(to_matrix(q)), the three angles in this order: no rotation is short-cut to the identity '
                  '(q.w = cos(angle/2) is within 1e-8 of 1 for every angle up to 2.8e-4 rad)', where=b.file)
    # ---------------------------------------------------------------- Euler extraction at gimbal lock
    b = cx.fn('geom3::align3::rotations::to_wpr')
    if b:
        from vpa import rangeai as R
        it = R.analyse(b)
        rng = [a[0] for a in it.arg_log.get('f64::asin', []) if a and a[0] is not None]
        ok = (not it.problems) and len(rng) >= 1 and all(lo > -1.0 and hi < 1.0 and abs(lo + hi) < 1e-15 for lo, hi in rng) and len(rng) == len(it.arg_log.get('f64::asin', []))
        cx.ob('RANGE', 'to_wpr:generic-branch-away-from-lock', ok,
              'the generic Euler formulas (asin of the pitch sine, atan2 of entries that vanish at lock) are reached only with |sin_y| <= 1 - eps, symmetric about 0: '
              'both gimbal-lock poles (pitch near +pi/2 and near -pi/2) go to their own closed forms', where=b.file, found=str(rng))
        SY = '(index (param m) (agg tuple (0 0) (1 2)))'
        M10, M11 = '(index (param m) (agg tuple (0 1) (1 0)))', '(index (param m) (agg tuple (0 1) (1 1)))'
        seen = set()
        for s_, d in cx.rets(b):
            hi = any(p and match(f'(lt $c {SY})', a) is not None for a, p in cx.guards(b, s_.bb))
            lo = any(p and match(f'(lt {SY} $c)', a) is not None for a, p in cx.guards(b, s_.bb))
            if hi and match(f'(agg tuple (0 (call f64::atan2 {M10} {M11})) (1 FRAC_PI_2) (2 0.0))', d) is not None:
                seen.add('+')
            elif lo and not hi and match(f'(agg tuple (0 (neg (call f64::atan2 {M10} {M11}))) (1 -1.5707963267948966) (2 0.0))', d) is not None:
                seen.add('-')
            elif not lo and not hi and match(f'(agg tuple (0 (call f64::atan2 (neg (index (param m) (agg tuple (0 1) (1 2)))) (index (param m) (agg tuple (0 2) (1 2))))) (1 (call f64::asin {SY})) '
                                              '(2 (call f64::atan2 (neg (index (param m) (agg tuple (0 0) (1 1)))) (index (param m) (agg tuple (0 0) (1 0))))))', d) is not None:
                seen.add('g')
        cx.ob('EXPR', 'to_wpr:branches', seen == {'+', '-', 'g'},
              'X*Y*Z extraction: sin_y = m02; at the +pole (rx, ry, rz) = (atan2(m10, m11), +pi/2, 0), at the -pole (-atan2(m10, m11), -pi/2, 0), otherwise '
              '(atan2(-m12, m22), asin(m02), atan2(-m01, m00))', where=b.file, found=str(sorted(seen)))


def run_thorough(cx):
    """thorough tier: the generic evaluators this property relies on must fire on their positive fixture twins"""
    from rules import fixture_check as FX
    FX.enc(cx)
