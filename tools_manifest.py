#!/usr/bin/env python3
"""Regenerate MANIFEST.json from the rule files present (keeps it valid at all times)."""
import json, os, importlib, sys
ROOT = os.path.dirname(os.path.abspath(__file__))
sys.path.insert(0, ROOT)
ALL = [f'C{i:02d}' for i in range(1, 21)]
TEXT = json.load(open(os.path.join(ROOT, 'manifest_text.json')))
checks = []
na = []
for p in ALL:
    t = dict(TEXT.get(p, {}))
    try:
        mod = importlib.import_module(f'rules.{p}')
        fams = sorted(set(__import__('re').findall(r"cx\.(?:ob|expect|floor)\('([A-Z]+)'", open(os.path.join(ROOT, 'rules', f'{p}.py')).read())))
        t.setdefault('level', 'static decision, on every path of the current source, of the structural clauses of the property (rule families ' + ', '.join(fams) + '): ' + ' '.join((mod.EXPLANATION or '').split())[:900])
        t.setdefault('note', 'NOT decided (numerical / runtime-quantified clauses): ' + (getattr(mod, 'NOT_DECIDED', '') or 'none') + '. Trusted: nightly rustc front end + MIR construction, Instance::try_resolve callee resolution, the callee semantics table in vpa/core.py, the dependencies (nalgebra, parry, faer, kiddo, levenberg-marquardt); ' + '; '.join(getattr(mod, 'ASSUMPTIONS', [])))
        t.setdefault('technique', 'static analysis: rustc_private MIR/HIR facts driver + value-DAG / CFG rules (' + ', '.join(fams) + '); no engeom code is executed')
    except Exception as ex:
        pass
    if os.path.exists(os.path.join(ROOT, 'rules', f'{p}.py')) and not t.get('not_applicable'):
        checks.append({
            'property_id': p,
            'quick_cmd': f'./check {p} --tier quick',
            'thorough_cmd': f'./check {p} --tier thorough',
            'evidence_file': f'/verif/evidence/{p}.json',
            'replay_cmd_template': './check --replay {path}',
            'engine': 'vpa',
            'level_claimed': {'category': 'other', 'text': t.get('level', 'structural necessary conditions of the property decided on every path of the current source'), 'design_ref': t.get('design_ref', 'DESIGN.md section 5')},
            'level_note': t.get('note', 'trusted: nightly rustc front end + MIR construction, callee resolution, the callee semantics table, the dependencies'),
            'technique': t.get('technique', 'static analysis: custom MIR/HIR dataflow and value-DAG pattern rules'),
        })
    else:
        na.append({'property_id': p, 'reason': t.get('not_applicable', 'check not built yet in this session; see DESIGN.md section 9 build order')})
m = {
    'version': 1,
    'setup_cmd': './setup.sh',
    'hooks': {'guard': 'engeom_verif', 'enable': 'none needed: the rustc_private facts driver sees private items; no source hooks', 'baseline_off_cmd': 'cd /repo && cargo test --workspace --no-fail-fast --offline', 'source_commits': [], 'add_only': True},
    'engines': [{'name': 'vpa', 'path': 'vpa/ + driver/ + rules/', 'serves_properties': [c['property_id'] for c in checks], 'kind_free_text': 'rustc_private facts driver (HIR/MIR of the type-checked crate) + Python value-DAG / CFG rule engine; compile_fail witnesses'}],
    'checks': checks,
    'not_applicable': na,
    'notes': 'Static analysis only. Every check decides structural necessary conditions (DESIGN.md section 5) and says so; numerical clauses are listed as not decided in each evidence file.',
}
json.dump(m, open(os.path.join(ROOT, 'MANIFEST.json'), 'w'), indent=1)
print('checks:', [c['property_id'] for c in checks], 'n/a:', [x['property_id'] for x in na])
