//! Type-level witnesses (rustdoc `compile_fail` with an error code, run under `cargo +nightly test --doc` so that the code is
//! honoured). Each witness has a compiling twin (`no_run`: compiled, never executed) that differs only in the offending line,
//! so a witness whose path is merely wrong cannot pass. Nothing in this crate executes engeom code.

/// C17: the values of a DiscreteDomain cannot be written through indexing (only `Deref<Target=[f64]>`, no `DerefMut`).
/// ```compile_fail,E0594
/// let mut d = engeom::common::DiscreteDomain::try_from(vec![1.0, 2.0, 3.0]).unwrap();
/// d[0] = 5.0;
/// ```
/// ```no_run
/// let mut d = engeom::common::DiscreteDomain::try_from(vec![1.0, 2.0, 3.0]).unwrap();
/// let _x = d[0];
/// ```
pub struct C17DomainNoIndexMut;

/// C17: the backing vector is private.
/// ```compile_fail,E0616
/// let d = engeom::common::DiscreteDomain::try_from(vec![1.0, 2.0, 3.0]).unwrap();
/// let _v = &d.values;
/// ```
/// ```no_run
/// let d = engeom::common::DiscreteDomain::try_from(vec![1.0, 2.0, 3.0]).unwrap();
/// let _v = d.len();
/// ```
pub struct C17DomainValuesPrivate;

/// C01: the cumulative length table of a curve is handed out immutably.
/// ```compile_fail,E0596
/// let c = engeom::Curve2::from_points(&[engeom::Point2::new(0.0, 0.0), engeom::Point2::new(1.0, 0.0)], 1e-6, false).unwrap();
/// c.lengths().push(1.0);
/// ```
/// ```no_run
/// let c = engeom::Curve2::from_points(&[engeom::Point2::new(0.0, 0.0), engeom::Point2::new(1.0, 0.0)], 1e-6, false).unwrap();
/// c.lengths().len();
/// ```
pub struct C01LengthsImmutable;

/// C01: `lengths` itself is private.
/// ```compile_fail,E0616
/// let c = engeom::Curve2::from_points(&[engeom::Point2::new(0.0, 0.0), engeom::Point2::new(1.0, 0.0)], 1e-6, false).unwrap();
/// let _l = &c.lengths;
/// ```
pub struct C01LengthsPrivate;

/// C01 (3D sibling)
/// ```compile_fail,E0616
/// let c = engeom::Curve3::from_points(&[engeom::Point3::new(0.0, 0.0, 0.0), engeom::Point3::new(1.0, 0.0, 0.0)], 1e-6).unwrap();
/// let _l = &c.lengths;
/// ```
/// ```no_run
/// let c = engeom::Curve3::from_points(&[engeom::Point3::new(0.0, 0.0, 0.0), engeom::Point3::new(1.0, 0.0, 0.0)], 1e-6).unwrap();
/// let _l = c.lengths();
/// ```
pub struct C01Lengths3Private;

/// C16: a deviation inside a SurfaceDeviationSet cannot be edited in place (extreme indices would go stale).
/// ```compile_fail,E0594
/// let mut s = engeom::metrology::SurfaceDeviationSet3::new(Vec::new());
/// s[0].deviation = 1.0;
/// ```
/// ```no_run
/// let s = engeom::metrology::SurfaceDeviationSet3::new(Vec::new());
/// let _d = s[0].deviation;
/// ```
pub struct C16DeviationSetNoIndexMut;

/// C16: the parallel arrays of a PointCloud are private.
/// ```compile_fail,E0616
/// let mut pc = engeom::PointCloud::empty(true, false);
/// pc.points.push(engeom::Point3::origin());
/// ```
/// ```no_run
/// use engeom::PointCloudFeatures;
/// let pc = engeom::PointCloud::empty(true, false);
/// let _n = pc.points().len();
/// ```
pub struct C16CloudArraysPrivate;

/// C18: the normalised start / extent of an AngleInterval are private.
/// ```compile_fail,E0616
/// let mut a = engeom::AngleInterval::new(0.0, 1.0);
/// a.start = 10.0;
/// ```
/// ```no_run
/// let a = engeom::AngleInterval::new(0.0, 1.0);
/// let _c = a.contains(0.5);
/// ```
pub struct C18AngleIntervalPrivate;
