use engeom::geom3::UvMapping;
use engeom::{Mesh, Point2, Point3};

fn unit_square_with_identity_uv() -> Mesh {
    // two triangles, z = 0, uv = (x, y)
    let v3 = vec![
        Point3::new(0.0, 0.0, 0.0),
        Point3::new(1.0, 0.0, 0.0),
        Point3::new(1.0, 1.0, 0.0),
        Point3::new(0.0, 1.0, 0.0),
    ];
    let v2 = vec![
        Point2::new(0.0, 0.0),
        Point2::new(1.0, 0.0),
        Point2::new(1.0, 1.0),
        Point2::new(0.0, 1.0),
    ];
    let faces = vec![[0u32, 1, 2], [0, 2, 3]];
    let uv = UvMapping::new(v2, faces.clone()).unwrap();
    Mesh::new_with_uv(v3, faces, false, Some(uv))
}

/// F17: a UV coordinate strictly inside a UV triangle must come back as the surface point with those barycentric weights.
/// `UvMapping::triangle` projects with `solid = false`, for which parry2d moves an interior point onto the nearest triangle EDGE.
#[test]
fn f17_uv_to_3d_of_an_interior_uv_point() {
    let mesh = unit_square_with_identity_uv();
    for (u, v) in [(0.6, 0.2), (0.7, 0.3), (0.2, 0.7), (0.9, 0.5)] {
        let sp = mesh.uv_to_3d(&Point2::new(u, v)).unwrap();
        assert!(
            (sp.point - Point3::new(u, v, 0.0)).norm() < 1e-9,
            "uv ({}, {}) came back as {:?}",
            u,
            v,
            sp.point
        );
    }
}

/// round trip of a point slightly above the surface: 3D -> uv -> 3D
#[test]
fn f17_surface_point_round_trip() {
    let mesh = unit_square_with_identity_uv();
    let p = Point3::new(0.6, 0.2, 1e-3);
    let (uv, depth) = mesh.uv_with_tol(&p, 1.0, 0.5, None).unwrap();
    assert!((uv - Point2::new(0.6, 0.2)).norm() < 1e-9, "uv = {:?}", uv);
    assert!((depth - 1e-3).abs() < 1e-9);
    let back = mesh.uv_to_3d(&uv).unwrap();
    assert!((back.point - Point3::new(0.6, 0.2, 0.0)).norm() < 1e-9, "back = {:?}", back.point);
}

/// a point lying exactly ON the surface (observed, see DESIGN 0.3: the offset is the zero vector, its angle to the normal is NaN and the
/// angle filter rejects it; the property's wording leaves this case open, so it is recorded, not armed)
#[test]
#[ignore]
fn observed_point_exactly_on_surface() {
    let mesh = unit_square_with_identity_uv();
    let p = Point3::new(0.6, 0.2, 0.0);
    let r = mesh.uv_with_tol(&p, 1.0, 0.5, None);
    assert!(r.is_some(), "a point exactly on the surface is rejected by the angle filter (NaN angle)");
}
