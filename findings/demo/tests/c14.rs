use engeom::{Mesh, Point3, SelectOp, Selection};

/// F5: whether a face is near the reference must not depend on which face was evaluated first.
/// Face 0 lies flat on the reference (normal +z), face 1 is a vertical fin sharing the edge (0,1).
/// With an angle tolerance only face 0 qualifies; Keep over {0,1} must give [0] on every run.
#[test]
fn f5_near_mesh_is_a_per_face_predicate() {
    let reference = Mesh::new(
        vec![Point3::new(-5.0, -5.0, 0.0), Point3::new(5.0, -5.0, 0.0), Point3::new(5.0, 5.0, 0.0), Point3::new(-5.0, 5.0, 0.0)],
        vec![[0, 1, 2], [0, 2, 3]],
        false,
    );
    let test = Mesh::new(
        vec![Point3::new(0.0, 0.0, 0.0), Point3::new(1.0, 0.0, 0.0), Point3::new(0.0, 1.0, 0.0), Point3::new(0.0, 0.0, 1.0)],
        vec![[0, 1, 2], [0, 1, 3]],
        false,
    );
    let mut outcomes = std::collections::BTreeSet::new();
    for _ in 0..200 {
        let mut sel = test
            .face_select(Selection::All)
            .near_mesh(&reference, true, 2.0, None, Some(0.2), SelectOp::Keep)
            .collect();
        sel.sort();
        outcomes.insert(sel);
    }
    assert_eq!(outcomes.into_iter().collect::<Vec<_>>(), vec![vec![0usize]]);
}
