use engeom::geom3::SvdBasis3;
use engeom::Point3;

/// F4: the weighted principal-axis decomposition must not depend on where the origin of the frame is, and uniformly
/// scaling all weights must not change the axes. With `p - center * w` the "offsets" are p - w*center.
#[test]
fn f4_weighted_svd_basis_is_translation_and_weight_scale_invariant() {
    let pts: Vec<Point3> = vec![
        Point3::new(10.0, 10.0, 10.0),
        Point3::new(14.0, 10.5, 10.0),
        Point3::new(12.0, 13.0, 10.2),
        Point3::new(11.0, 9.0, 9.9),
        Point3::new(15.0, 12.0, 10.1),
    ];
    let w1 = vec![1.0; 5];
    let w2 = vec![2.0; 5];
    let a = SvdBasis3::from_points(&pts, Some(&w1));
    let b = SvdBasis3::from_points(&pts, Some(&w2));
    let u = SvdBasis3::from_points(&pts, None);
    for i in 0..3 {
        assert!(a.basis[i].dot(&b.basis[i]).abs() > 1.0 - 1e-9, "axis {} differs under weight scaling: {:?} vs {:?}", i, a.basis[i], b.basis[i]);
        assert!(a.basis[i].dot(&u.basis[i]).abs() > 1.0 - 1e-9, "axis {} differs from unweighted for unit weights: {:?} vs {:?}", i, a.basis[i], u.basis[i]);
    }
}

/// F16: a frame that is an exact half turn away from the identity (e.g. primary axis -x, secondary +y) must come out as the
/// proper rotation (-x, +y, -z). `UnitQuaternion::from_matrix` is an iterative extraction started at the identity, for which
/// an exact 180 degree rotation is a stationary point; it returns (nearly) the identity instead.
#[test]
fn f16_half_turn_frames_are_exact() {
    use engeom::geom3::IsoExtensions3;
    use engeom::{Iso3, Vector3};
    let cases = [
        (Vector3::new(-1.0, 0.0, 0.0), Vector3::new(0.0, 1.0, 0.0)),
        (Vector3::new(1.0, 0.0, 0.0), Vector3::new(0.0, -1.0, 0.0)),
        (Vector3::new(-2.0, 0.0, 0.0), Vector3::new(0.0, -3.0, 0.0)),
        (Vector3::new(0.0, 1.0, 0.0), Vector3::new(1.0, 0.0, 0.0)),
    ];
    for (e0, e1) in cases.iter() {
        let iso = Iso3::try_from_basis_xy(e0, e1, None).unwrap();
        let x = iso * Vector3::x();
        let y = iso * Vector3::y();
        assert!((x - e0.normalize()).norm() < 1e-9, "x axis {:?} is not the normalised first argument {:?}", x, e0);
        assert!((y - e1.normalize()).norm() < 1e-9, "y axis {:?} is not the (already orthogonal) second argument {:?}", y, e1);
    }
}

/// F16 (siblings): the same iterative extraction is used by iso3_from_basis, iso3_from_xyo and iso2_from_basis.
#[test]
fn f16_half_turn_frames_from_bases() {
    use engeom::common::svd_basis::{iso2_from_basis, iso3_from_basis, iso3_from_xyo};
    use engeom::{Point2, Point3, UnitVec3, Vector2, Vector3};
    // 3D: frame (-x, +y, -z) at the origin: the inverse maps world -x to local +x
    let iso = iso3_from_basis(&[-Vector3::x(), Vector3::y(), -Vector3::z()], &Point3::origin());
    let v = iso * (-Vector3::x());
    assert!((v - Vector3::x()).norm() < 1e-9, "iso3_from_basis: world -x must be local +x, got {:?}", v);
    let iso = iso3_from_xyo(&UnitVec3::new_normalize(-Vector3::x()), &UnitVec3::new_normalize(Vector3::y()), &Point3::origin());
    let v = iso * (-Vector3::x());
    assert!((v - Vector3::x()).norm() < 1e-9, "iso3_from_xyo: world -x must be local +x, got {:?}", v);
    // 2D: frame (-x, -y)
    let iso = iso2_from_basis(&[-Vector2::x(), -Vector2::y()], &Point2::origin());
    let v = iso * (-Vector2::x());
    assert!((v - Vector2::x()).norm() < 1e-9, "iso2_from_basis: world -x must be local +x, got {:?}", v);
}
