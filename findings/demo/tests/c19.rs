use engeom::geom3::SvdBasis3;
use engeom::Point3;

/// F4: the weighted principal-axis decomposition must not depend on where the origin of the frame is, and uniformly
/// scaling all weights must not change the axes. With `p - center * w` the "offsets" are p - w*center.
#[test]
fn f4_weighted_svd_basis_is_translation_and_weight_scale_invariant() {
    let pts: Vec<Point3> = vec![
        Point3::new(10.0, 10.0, 10.0),
        Point3::new(14.0, 10.5, 10.0),
        Point3::new(12.0, 13.0, 10.2),
        Point3::new(11.0, 9.0, 9.9),
        Point3::new(15.0, 12.0, 10.1),
    ];
    let w1 = vec![1.0; 5];
    let w2 = vec![2.0; 5];
    let a = SvdBasis3::from_points(&pts, Some(&w1));
    let b = SvdBasis3::from_points(&pts, Some(&w2));
    let u = SvdBasis3::from_points(&pts, None);
    for i in 0..3 {
        assert!(a.basis[i].dot(&b.basis[i]).abs() > 1.0 - 1e-9, "axis {} differs under weight scaling: {:?} vs {:?}", i, a.basis[i], b.basis[i]);
        assert!(a.basis[i].dot(&u.basis[i]).abs() > 1.0 - 1e-9, "axis {} differs from unweighted for unit weights: {:?} vs {:?}", i, a.basis[i], u.basis[i]);
    }
}
