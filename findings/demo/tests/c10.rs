use engeom::airfoil::{EdgeLocate, InscribedCircle, OpenEdge};
use engeom::geom2::polyline2::SpanningRay;
use engeom::{Circle2, Curve2, Point2};

fn station(x: f64) -> InscribedCircle {
    InscribedCircle::new(
        SpanningRay::new(Point2::new(x, -1.0), Point2::new(x, 1.0)),
        Point2::new(x, 1.0),
        Point2::new(x, -1.0),
        Circle2::new(x, 0.0, 1.0),
    )
}

/// F6: asked for the edge at the FRONT of the camber line, the open-edge locator must answer from the first station
#[test]
fn f6_open_edge_honours_the_front_flag() {
    let section = Curve2::from_points(&[Point2::new(0.0, -1.0), Point2::new(10.0, -1.0), Point2::new(10.0, 1.0), Point2::new(0.0, 1.0)], 1e-6, false).unwrap();
    let stations: Vec<InscribedCircle> = (1..=9).map(|i| station(i as f64)).collect();
    let (edge, _) = OpenEdge::make().find_edge(&section, stations.clone(), true, 1e-4).unwrap();
    assert_eq!(edge.unwrap().point, Point2::new(1.0, 0.0), "leading (front) open edge must be the first station's centre");
    let (edge, _) = OpenEdge::make().find_edge(&section, stations, false, 1e-4).unwrap();
    assert_eq!(edge.unwrap().point, Point2::new(9.0, 0.0), "trailing (back) open edge must be the last station's centre");
}
