use engeom::{Mesh, Point3};
use std::collections::{HashMap, HashSet};
use std::sync::mpsc;
use std::time::Duration;

fn bowtie() -> Mesh {
    let v = vec![
        Point3::new(0.0, 0.0, 0.0),
        Point3::new(1.0, 0.0, 0.0),
        Point3::new(1.0, 1.0, 0.0),
        Point3::new(-1.0, 0.0, 0.0),
        Point3::new(-1.0, -1.0, 0.0),
    ];
    Mesh::new(v, vec![[0, 1, 2], [0, 3, 4]], false)
}

/// F7: two faces touching only at vertex 0: calc_edges must return
#[test]
fn f7_boundary_loops_terminates_on_bowtie() {
    let (tx, rx) = mpsc::channel();
    std::thread::spawn(move || {
        let m = bowtie();
        let n = m.calc_edges().map(|e| e.boundary_loops.len()).unwrap_or(usize::MAX);
        let _ = tx.send(n);
    });
    let r = rx.recv_timeout(Duration::from_secs(5));
    assert!(r.is_ok(), "calc_edges did not return within 5 s on a two-triangle bow-tie");
}

/// F8: every boundary edge of the bow-tie (6 of them) must appear in some loop exactly once
#[test]
fn f8_boundary_loops_cover_every_boundary_edge() {
    let (tx, rx) = mpsc::channel();
    std::thread::spawn(move || {
        let m = bowtie();
        let loops = m.calc_edges().unwrap().boundary_loops.clone();
        let _ = tx.send(loops);
    });
    let loops = rx.recv_timeout(Duration::from_secs(5)).expect("timeout");
    let mut edges = HashSet::new();
    for l in &loops {
        for i in 0..l.len() {
            let (a, b) = (l[i], l[(i + 1) % l.len()]);
            edges.insert((a.min(b), a.max(b)));
        }
    }
    let want: HashSet<(u32, u32)> = [(0, 1), (1, 2), (0, 2), (0, 3), (3, 4), (0, 4)].into_iter().collect();
    assert_eq!(edges, want, "loops = {:?}", loops);
}

/// F9: two faces sharing the directed edge (0,1) (inconsistent winding) are connected through a shared edge:
/// one patch, whatever the hash order
#[test]
fn f9_patches_do_not_depend_on_hash_order() {
    let v = vec![
        Point3::new(0.0, 0.0, 0.0),
        Point3::new(1.0, 0.0, 0.0),
        Point3::new(0.0, 1.0, 0.0),
        Point3::new(0.0, -1.0, 0.0),
    ];
    let mut counts = HashMap::new();
    for _ in 0..60 {
        let m = Mesh::new(v.clone(), vec![[0, 1, 2], [0, 1, 3]], false);
        *counts.entry(m.get_patches().len()).or_insert(0usize) += 1;
    }
    assert_eq!(counts.keys().copied().collect::<Vec<_>>(), vec![1], "patch counts over 60 runs: {:?}", counts);
}

/// F10: the cylinder must be consistently wound (no directed edge used twice) with outward normals
#[test]
fn f10_cylinder_is_consistently_wound_and_outward() {
    let m = Mesh::create_cylinder(1.0, 2.0, 8);
    let mut seen = HashSet::new();
    let mut dup = 0;
    for f in m.faces() {
        for k in 0..3 {
            if !seen.insert((f[k], f[(k + 1) % 3])) {
                dup += 1;
            }
        }
    }
    let mut inward = 0;
    for f in m.faces() {
        let (a, b, c) = (m.vertices()[f[0] as usize], m.vertices()[f[1] as usize], m.vertices()[f[2] as usize]);
        let n = (b - a).cross(&(c - a));
        let mid = (a.coords + b.coords + c.coords) / 3.0;
        if n.x * mid.x + n.y * mid.y <= 0.0 {
            inward += 1;
        }
    }
    assert_eq!((dup, inward), (0, 0), "directed edges used twice: {}, inward faces: {}", dup, inward);
}
