use engeom::common::{linear_space, DiscreteDomain};
#[test]
fn f2_linear_reversed_bounds() {
    let d = DiscreteDomain::linear(2.0, 1.0, 3);
    assert_eq!(d.values(), vec![1.0, 1.5, 2.0]);
}
#[test]
fn f2_linear_n1_is_finite() {
    let d = DiscreteDomain::linear(0.0, 1.0, 1);
    assert!(d.values().iter().all(|v| v.is_finite()), "{:?}", d.values());
}
#[test]
fn f3_linear_space_n1_is_finite() {
    let d = linear_space(0.0, 1.0, 1);
    assert!(d.values().iter().all(|v| v.is_finite()), "{:?}", d.values());
}
#[test]
fn f3_linear_space_descending_is_invalid_domain() {
    let d = linear_space(1.0, 0.0, 3);
    assert!(d.values().windows(2).all(|w| w[0] <= w[1]), "{:?}", d.values());
}
