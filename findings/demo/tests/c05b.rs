use engeom::{Curve2, Point2};

/// F13: simplifying a CLOSED curve must succeed and stay closed (C05: "these operations succeed on closed curves")
#[test]
fn f13_simplify_succeeds_on_a_closed_curve() {
    let pts: Vec<Point2> = vec![
        Point2::new(0.0, 0.0), Point2::new(0.5, 0.0), Point2::new(1.0, 0.0), Point2::new(1.0, 1.0), Point2::new(0.0, 1.0),
    ];
    let c = Curve2::from_points(&pts, 1e-6, true).unwrap();
    assert!(c.is_closed());
    let s = c.simplify(0.01);
    assert!(s.is_closed());
    assert!((s.length() - 4.0).abs() < 1e-9, "length {}", s.length());
}
