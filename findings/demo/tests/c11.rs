use engeom::{Circle2, Point2};

/// F14: the tangent points from an external point must lie on the circle with the tangent perpendicular to the radius
#[test]
fn f14_tangent_points_are_tangent() {
    let c = Circle2::new(0.0, 0.0, 1.0);
    let p = Point2::new(2.0, 0.0);
    let (t0, t1) = c.tangent_points_to(&p).unwrap();
    for t in [t0, t1] {
        assert!(((t - c.center).norm() - 1.0).abs() < 1e-9);
        let dot = (t - c.center).dot(&(t - p));
        assert!(dot.abs() < 1e-9, "radius . tangent = {} at {:?}", dot, t);
    }
}

/// F15: nested circles (one strictly inside the other) do not intersect; no NaN point may be returned
#[test]
fn f15_nested_circles_have_no_intersection() {
    let big = Circle2::new(0.0, 0.0, 5.0);
    let small = Circle2::new(1.0, 0.0, 1.0);
    let pts = big.intersections_with(&small);
    assert!(pts.iter().all(|p| p.x.is_finite() && p.y.is_finite()), "non-finite intersection points: {:?}", pts);
    assert!(pts.is_empty(), "nested circles reported {} intersections", pts.len());
}

/// internally tangent circles touch in exactly one point
#[test]
fn f15_internal_tangency_is_one_point() {
    let big = Circle2::new(0.0, 0.0, 3.0);
    let small = Circle2::new(2.0, 0.0, 1.0);
    let pts = big.intersections_with(&small);
    assert_eq!(pts.len(), 1, "{:?}", pts);
    assert!((pts[0] - Point2::new(3.0, 0.0)).norm() < 1e-9);
}
