use engeom::{Curve2, Curve3, Point2, Point3, Resample};

fn max_gap2(c: &Curve2) -> f64 {
    c.points().windows(2).map(|w| (w[1] - w[0]).norm()).fold(0.0, f64::max)
}

/// F1: resampling a 2D curve by count must span the whole curve whatever its length
#[test]
fn f1_resample_by_count_spans_the_curve() {
    let c = Curve2::from_points(&[Point2::new(0.0, 0.0), Point2::new(10.0, 0.0)], 1e-6, false).unwrap();
    let r = c.resample(Resample::ByCount(5)).unwrap();
    assert_eq!(r.count(), 5);
    assert!((r.length() - 10.0).abs() < 1e-9, "resampled length {} of a curve of length 10", r.length());
}

/// F1b: ... including curves shorter than one unit (positions i/(n-1) exceed the length and at_length fails)
#[test]
fn f1_resample_by_count_short_curve_does_not_panic() {
    let c = Curve2::from_points(&[Point2::new(0.0, 0.0), Point2::new(0.5, 0.0)], 1e-6, false).unwrap();
    let r = c.resample(Resample::ByCount(3)).unwrap();
    assert!((r.length() - 0.5).abs() < 1e-9);
}

/// F12: resampling by maximum spacing must not leave a gap larger than the maximum
#[test]
fn f12_resample_by_max_spacing_2d_honours_the_maximum() {
    let c = Curve2::from_points(&[Point2::new(0.0, 0.0), Point2::new(10.0, 0.0)], 1e-6, false).unwrap();
    let r = c.resample(Resample::ByMaxSpacing(3.0)).unwrap();
    assert!(max_gap2(&r) <= 3.0 + 1e-9, "largest gap {} > 3.0 ({} points)", max_gap2(&r), r.count());
    assert!((r.length() - 10.0).abs() < 1e-9);
}

#[test]
fn f12_resample_by_max_spacing_3d_honours_the_maximum() {
    let c = Curve3::from_points(&[Point3::new(0.0, 0.0, 0.0), Point3::new(10.0, 0.0, 0.0)], 1e-6).unwrap();
    let r = c.resample(Resample::ByMaxSpacing(3.0));
    let gap = r.points().windows(2).map(|w| (w[1] - w[0]).norm()).fold(0.0, f64::max);
    assert!(gap <= 3.0 + 1e-9, "largest gap {} > 3.0 ({} points)", gap, r.count());
}
