use engeom::func1::{Func1, Line1, Polynomial};

/// F11: a least-squares line through exact samples of y = 2x + 1 must be that line
#[test]
fn f11_line_fit_recovers_an_exact_line() {
    let xs = [0.0, 1.0, 2.0, 3.0];
    let ys: Vec<f64> = xs.iter().map(|x| 2.0 * x + 1.0).collect();
    let fit = Line1::least_squares(&xs, &ys, None);
    assert!((fit.c[0] - 1.0).abs() < 1e-9 && (fit.c[1] - 2.0).abs() < 1e-9, "fitted coefficients {:?}", fit.c);
}

/// F11: ... and a quadratic on abscissae that are not symmetric about 0
#[test]
fn f11_quadratic_fit_on_asymmetric_abscissae() {
    let origin = Polynomial::<3>::new([1.0, -2.0, 0.5]);
    let xs = [0.0, 0.5, 1.0, 2.0, 3.0, 4.5];
    let ys: Vec<f64> = xs.iter().map(|x| origin.f(*x)).collect();
    let fit = Polynomial::<3>::least_squares(&xs, &ys, None);
    for i in 0..3 {
        assert!((fit.c[i] - origin.c[i]).abs() < 1e-8, "fitted {:?} vs {:?}", fit.c, origin.c);
    }
}
