#!/bin/sh
# Build the facts driver and warm the dependency artefacts (offline). Idempotent.
set -e
cd "$(dirname "$0")"
export CARGO_NET_OFFLINE=true
(cd driver && cargo build --release --offline)
VERIF_FORCE_FACTS=1 python3 vpa/facts.py default stl
# warm the fixture crate and the witness doc-tests (thorough tier)
python3 - <<'PY'
import sys, os
sys.path.insert(0, os.getcwd())
from vpa import facts, witness
facts.load_fixtures()
r = witness.run()
print('witnesses:', len(r))
PY
