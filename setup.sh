#!/bin/sh
# Build the facts driver and warm the dependency artefacts (offline). Idempotent.
set -e
cd "$(dirname "$0")"
export CARGO_NET_OFFLINE=true
(cd driver && cargo build --release --offline)
VERIF_FORCE_FACTS=1 python3 vpa/facts.py default stl
