//! Positive and negative twins for the generic evaluators. This crate is only ever ANALYSED (cargo check through the facts
//! driver); nothing in it is executed. Every `bad_*` item must be reported by its evaluator and every `good_*` twin must not:
//! a matcher that has rotted into vacuity (for instance after a toolchain change altered a MIR shape) fails the thorough tier.
use engeom::Point3;
use std::collections::HashMap;

pub mod fx {
    use super::*;

    /// parallel arrays with a failure path
    pub struct Cloud {
        points: Vec<f64>,
        normals: Option<Vec<f64>>,
    }

    impl Cloud {
        pub fn new() -> Self {
            Self { points: Vec::new(), normals: None }
        }

        /// TXN positive: mutates, then fails
        pub fn bad_txn(&mut self, other: Vec<f64>, limit: usize) -> Result<(), String> {
            self.points.extend(other);
            if self.points.len() > limit {
                return Err("too many".into());
            }
            Ok(())
        }

        /// TXN negative twin: checks, then mutates
        pub fn good_txn(&mut self, other: Vec<f64>, limit: usize) -> Result<(), String> {
            if self.points.len() + other.len() > limit {
                return Err("too many".into());
            }
            self.points.extend(other);
            Ok(())
        }

        /// COMUT positive: grows one member of the group only
        pub fn bad_comut(&mut self, p: f64) {
            self.points.push(p);
        }

        /// COMUT negative twin
        pub fn good_comut(&mut self, p: f64, n: f64) {
            self.points.push(p);
            if let Some(ns) = self.normals.as_mut() {
                ns.push(n);
            }
        }
    }

    /// ENC positive: hands out `&mut` to the invariant-carrying field
    pub struct Leaky {
        vals: Vec<f64>,
    }

    impl Leaky {
        pub fn new() -> Self {
            Self { vals: Vec::new() }
        }
        pub fn vals_mut(&mut self) -> &mut Vec<f64> {
            &mut self.vals
        }
    }

    /// ENC negative twin
    pub struct Tight {
        vals: Vec<f64>,
    }

    impl Tight {
        pub fn new() -> Self {
            Self { vals: Vec::new() }
        }
        pub fn vals(&self) -> &[f64] {
            &self.vals
        }
    }

    /// AFFINE positive: a position is scaled
    pub fn bad_affine(p: &Point3) -> Point3 {
        p * 2.0
    }

    /// AFFINE negative twin: an affine combination through `.coords`
    pub fn good_affine(p: &Point3, q: &Point3) -> Point3 {
        Point3::from((p.coords + q.coords) * 0.5)
    }

    /// TERM positive: the walk follows successors without consuming them (a cycle never ends)
    pub fn bad_term(succ: &HashMap<u32, u32>, start: u32) -> Vec<u32> {
        let mut out = Vec::new();
        let mut work = vec![start];
        while let Some(x) = work.pop() {
            out.push(x);
            if let Some(n) = succ.get(&x) {
                work.push(*n);
            }
        }
        out
    }

    /// TERM negative twin: every growth of the work list is paid for by a removal from the map
    pub fn good_term(succ: &mut HashMap<u32, u32>, start: u32) -> Vec<u32> {
        let mut out = Vec::new();
        let mut work = vec![start];
        while let Some(x) = work.pop() {
            out.push(x);
            if let Some(n) = succ.remove(&x) {
                work.push(n);
            }
        }
        out
    }

    /// INSERT positive: silent overwrite
    pub fn bad_insert(pairs: &[(u32, u32)]) -> HashMap<u32, u32> {
        let mut owner = HashMap::new();
        for (a, b) in pairs.iter() {
            owner.insert(*a, *b);
        }
        owner
    }

    /// INSERT negative twin: the previous entry is looked at
    pub fn good_insert(pairs: &[(u32, u32)]) -> Result<HashMap<u32, u32>, String> {
        let mut owner = HashMap::new();
        for (a, b) in pairs.iter() {
            if owner.insert(*a, *b).is_some() {
                return Err("duplicate".into());
            }
        }
        Ok(owner)
    }

    /// MEMO: verdict cached per vertex
    pub struct Memo {
        checked: HashMap<u32, bool>,
        limit: f64,
    }

    impl Memo {
        pub fn new(limit: f64) -> Self {
            Self { checked: HashMap::new(), limit }
        }

        /// MEMO positive: the cached verdict depends on `angle`, the key does not
        pub fn bad_memo(&mut self, v: u32, angle: f64) -> bool {
            if let Some(r) = self.checked.get(&v) {
                *r
            } else {
                let r = angle < self.limit;
                self.checked.insert(v, r);
                r
            }
        }
    }

    pub struct Memo2 {
        checked: HashMap<u32, bool>,
        limit: f64,
    }

    impl Memo2 {
        pub fn new(limit: f64) -> Self {
            Self { checked: HashMap::new(), limit }
        }

        /// MEMO negative twin: the verdict is a function of the key and immutable state
        pub fn good_memo(&mut self, v: u32) -> bool {
            if let Some(r) = self.checked.get(&v) {
                *r
            } else {
                let r = (v as f64) < self.limit;
                self.checked.insert(v, r);
                r
            }
        }
    }

    /// PARAMUSE twins
    pub trait Locate {
        fn find(&self, xs: &[f64], front: bool) -> f64;
    }
    pub struct BadLocate;
    pub struct GoodLocate;
    impl Locate for BadLocate {
        fn find(&self, xs: &[f64], front: bool) -> f64 {
            let _ = front;
            xs[xs.len() - 1]
        }
    }
    impl Locate for GoodLocate {
        fn find(&self, xs: &[f64], front: bool) -> f64 {
            if front {
                xs[0]
            } else {
                xs[xs.len() - 1]
            }
        }
    }
}
